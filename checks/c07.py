"""C07: Prove*/Verify* glue around Groth16 (contract stubs): shape validation before indexing, witness = parameters, no proof on error, verify binds hash and system."""
import os
os.environ.setdefault('GOSYM_BIG', '264')      # big.Int model one byte wider than a word: values >= 2^256 (hash + k*2^256, wide representatives) exist
from common import Run, main_guard
import driver, stubs

ANCHORS = ['prover/insertion_proving_system.go', 'prover/deletion_proving_system.go', 'prover/circuit_utils.go']
HARNESS = ['c07_harness.go', ('c07_intr_sym.go', 'c07_native.go'), 'c16_harness.go']


def main():
    run = Run('C07', anchors=ANCHORS)

    def body():
        entries = ['VerifHarness_C07_ProveInsertion', 'VerifHarness_C07_ProveDeletion', 'VerifHarness_C07_Verify']
        prog, secs = driver.load('prover', 'prover', ['c07_harness.go', 'c07_intr_sym.go', 'c16_harness.go'], entries)
        run.log('SSA of %d functions built in %.1fs' % (len(prog['funcs']), secs))
        stubs.PARAMS['maxdim'] = 2 if run.thorough else 1
        sm = stubs.make_stubs()
        for e in entries:
            res, ex = driver.run_entry(run, prog, e, sm, loop_bound=24, max_paths=50000)
            run.log(e, run.extra['paths'].get(e), 'solver calls', ex.solver_calls, '%.1fs' % ex.solver_time)
            fails = [r for r in res if r.status in ('assert', 'panic')]
            seen = set()
            for r in fails:
                msg = r.info['msg'] if r.status == 'assert' else str(r.info)
                if msg in seen:
                    continue
                seen.add(msg)
                # native replay: real Setup/Prove/Verify end to end at small dimensions (see harness/c07_native.go)
                if r.status == 'assert':
                    draws = driver.model_draws(r.state, r.info['model'])
                else:
                    rr, sol = ex.check(r.state.pc)
                    draws = driver.model_draws(r.state, sol.model()) if rr == 'sat' else {}
                mode = 'deletion' if ('Deletion' in e or draws.get('deletion') == '1') else 'insertion'
                draws['str:mode'] = mode
                try:
                    failed, panicked, out = driver.replay_native('prover', 'prover', ['c07_native.go'], 'VerifHarness_C07_Native', draws, timeout=1500)
                except Exception as x:  # noqa
                    run.inconclusive.append('%s: native replay failed to run: %r' % (e, x))
                    continue
                if failed or panicked:
                    run.violation('%s: %s -- native end-to-end run (real Setup/Prove/Verify, %s) fails: %s' % (e, msg, mode, (failed or ['panic'])[:3]),
                                  {'harness': e, 'assertion': msg, 'draws': draws, 'native_failed': failed, 'native_output_tail': out[-1500:]}, key='C07:' + msg[:50])
                else:
                    run.inconclusive.append('%s: "%s" fails under the Groth16 contract but the native end-to-end scenarios pass' % (e, msg[:80]))
        run.assumptions += sorted(stubs.USED) + ['dimensions: depth,batch <= %d, array lengths <= %d' % (stubs.PARAMS['maxdim'], stubs.PARAMS['maxdim'] + 1),
                                                  'Groth16 itself (soundness/completeness of Prove/Verify) is the contract; "accepted iff valid batch" is C01-C03']
        run.samples = run.obls[:4]
        run.finish(
            explanation='ProveInsertion/ProveDeletion/VerifyInsertion/VerifyDeletion and ValidateShape are executed symbolically from go/ssa with symbolic dimensions and array lengths; gnark enters as contract stubs. '
                        'Decided: dimension mismatch <=> error, before any indexing (every index obligation discharged); the assignment given to NewWitness equals the parameters leaf by leaf; no proof on error; '
                        'Verify accepts exactly representatives of the proof\'s own hash, only with the same system and mode.',
            trusted_base=['z3', 'go/ssa', 'engine/gosym + listed stubs (Groth16 contract)'],
            functions=['prover.(*ProvingSystem).ProveInsertion/ProveDeletion/VerifyInsertion/VerifyDeletion', 'prover.(*InsertionParameters).ValidateShape', 'prover.(*DeletionParameters).ValidateShape'],
            bounds='depth,batch 0..%d; lengths 0..%d; all values below 2^264' % (stubs.PARAMS['maxdim'], stubs.PARAMS['maxdim'] + 1))
    main_guard(run, body)


main()
