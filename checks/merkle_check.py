"""C01 / C02 driver: R1CS of InsertionProof / DeletionProof (real gnark compile of the repo's gadgets, Poseidon2 summarised by
H2), soundness + completeness + twins per (depth, batch), translator validation, replay of counterexamples."""
import json, os, random, sys, time
from common import Run, run_dump, pool_map, main_guard, dumper_solve, dumper_oracle, BuildError
import merkle, treeref, poseidon_ref
from lift import Lifter, eval_r1cs, eval_lifted, Inconclusive

ANCHORS = ['prover/circuit_utils.go', 'prover/insertion_circuit.go', 'prover/deletion_circuit.go', 'prover/poseidon/poseidon.go']


def sizes(kind, tier):
    dmax = 32 if kind == 'ins' else 31
    if os.environ.get('VERIF_DEBUG_SIZES'):       # debugging aid only ("1x1,3x2"); the evidence states the sizes actually run
        return [tuple(int(x) for x in p.split('x')) for p in os.environ['VERIF_DEBUG_SIZES'].split(',')]
    if tier == 'quick':
        return [(1, 1), (2, 2), (3, 2), (4, 3), (6, 4), (8, 2), (12, 2), (16, 1), (16, 2), (24, 1), (dmax, 1), (dmax, 2)]
    s = [(d, 1) for d in range(1, dmax + 1)]
    s += [(d, b) for d in range(1, 9) for b in range(2, 5) if kind == 'del' or b <= (1 << d)]      # an insertion batch must fit the tree (else circuit and relation are both empty)
    s += [(16, 2), (20, 4), (dmax, 2), (12, 3)]
    return sorted(set(s))


def main(pid, kind):
    run = Run(pid, anchors=ANCHORS)

    def body():
        gk = 'insproof' if kind == 'ins' else 'delproof'
        szs = sizes(kind, run.tier)
        jobs = [{'id': '%s_%d_%d' % (kind, D, B), 'kind': gk, 'a': D, 'b': B, 'abstract': ['poseidon.Poseidon2']} for D, B in szs]
        # unsummarised twins for translator validation / replay at small sizes
        small = [(D, B) for D, B in szs if D * B <= 8 and B <= (1 << D)][:3]      # a valid batch must fit the tree
        jobs += [{'id': '%s_real_%d_%d' % (kind, D, B), 'kind': gk, 'a': D, 'b': B, 'nowrap': True} for D, B in small]
        t = time.time()
        paths = run_dump(jobs)
        run.log('compiled %d harness circuits with gnark in %.1fs' % (len(jobs), time.time() - t))
        # ---- translator validation (not deciding): honest valid batches through gnark's solver, the raw evaluator and the lifting
        rng = random.Random(run.seed)
        tv = 0
        for D, B in small:
            dsum = json.load(open(paths['%s_%d_%d' % (kind, D, B)]))
            dreal = json.load(open(paths['%s_real_%d_%d' % (kind, D, B)]))
            if dsum.get('Error') or dreal.get('Error'):
                raise BuildError('harness compile error: %s %s' % (dsum.get('Error'), dreal.get('Error')))
            for rep in range(2):
                ins = treeref.insertion_batch(D, B, rng) if kind == 'ins' else treeref.deletion_batch(D, B, rng, pad=rep % 2)
                ok, why = merkle.oracle(kind, D, B, ins)
                w_real, failed = eval_r1cs(dreal, ins)
                g = dumper_solve({'id': 'x', 'kind': gk, 'a': D, 'b': B}, ins)
                if not ok:
                    run.inconclusive.append('translator validation: the reference generator produced an invalid %s batch at D=%d B=%d (%s)' % (kind, D, B, why))
                    continue
                if not g['solved'] or failed:
                    run.violation('honest valid %s batch D=%d B=%d: oracle=%s gnark_solved=%s evaluator_failed=%s' % (kind, D, B, why, g['solved'], failed[:3]),
                                  {'kind': kind, 'D': D, 'B': B, 'inputs': [str(x) for x in ins], 'gnark': g.get('error')}, key='valid-batch-rejected')
                    continue
                if [int(x) for x in g['wires']] != w_real:
                    run.inconclusive.append('translator validation: raw evaluator disagrees with gnark solver at D=%d B=%d' % (D, B))
                w_sum, f2 = eval_r1cs(dsum, ins, summary_eval=lambda rec, a: [poseidon_ref.hash(a)])
                L = Lifter(dsum, summary=merkle.SUMMARY)
                bad = eval_lifted(L, ins, w_sum)
                if bad or f2:
                    run.inconclusive.append('translator validation: lifted values disagree with raw evaluation at D=%d B=%d: %s' % (D, B, bad[:3]))
                tv += 1
        run.extra['translator_validation_runs'] = tv
        # cross-check reference Poseidon against iden3 (trusted third-party) on a few points
        pts = [[0, 0], [1, 2], [poseidon_ref.P - 1, poseidon_ref.P - 2], [rng.randrange(poseidon_ref.P), rng.randrange(poseidon_ref.P)]]
        got = dumper_oracle([{'op': 'poseidon', 'args': [str(x) for x in p]} for p in pts])
        if [str(poseidon_ref.hash(p)) for p in pts] != got:
            run.inconclusive.append('reference Poseidon disagrees with iden3 on sample points')
        # ---- the deciding queries
        tasks = [{'kind': kind, 'D': D, 'B': B, 'path': paths['%s_%d_%d' % (kind, D, B)], 'timeout': 2400 if run.thorough else 180, 'stagger': 300 if run.thorough else 25} for D, B in szs]
        for t_ in tasks:
            t_['diff'] = (t_['D'], t_['B']) in ((3, 2), (8, 2), (4, 3))
        tasks.sort(key=lambda t: -t['D'] * t['B'])
        for task, res in pool_map(merkle.run_task, tasks):
            if isinstance(res, Exception):
                run.inconclusive.append('task %s: %r' % (task, res))
                continue
            if res.get('error'):
                run.inconclusive.append('D=%d B=%d: %s' % (task['D'], task['B'], res['error']))
                continue
            for o in res['obls']:
                model = o.pop('model', None)
                ok = run.obligation(o['name'], o['verdict'], o['expect'], o['secs'], constraints=res['constraints'], lift_s=res.get('lift_s'), portfolio=o.get('portfolio'))
                if not ok and o['verdict'] == 'sat' and model is not None:
                    handle_cex(run, kind, gk, task['D'], task['B'], o, model, paths)
                elif not ok and o['verdict'] == 'unsat':
                    run.inconclusive.append('vacuity twin unsat: ' + o['name'])
            run.log('D=%d B=%d: %s' % (task['D'], task['B'], ' '.join('%s/%.2fs' % (o['verdict'], o['secs']) for o in res['obls'])))
        run.samples = [o for o in run.obls[:4]]
        run.assumptions += [
            'Poseidon2 gadget summarised by an uninterpreted function H2 (justified by C05: the gadget is a function of its inputs equal to reference Poseidon)',
            'uniqueness of binary representation (the index bits in the specification are instantiated by the circuit\'s own bits.NBits outputs)',
            'honest hint contracts in completeness queries: NBits returns the low n bits of the canonical value, InvZero the field inverse or 0',
            'the gnark v0.8.0 frontend/r1cs builder is the compiler under test\'s toolchain: the R1CS it emits is taken as the deployed artefact',
        ]
        run.finish(
            explanation='Every (depth,batch) instance: the R1CS that gnark compiles from the repo\'s %s gadget is lifted to typed terms and two SMT obligations '
                        'are discharged: soundness (constraints with ALL hint outputs free AND NOT Spec is unsat) and completeness (Spec AND honest hints AND NOT constraints is unsat), '
                        'each with a satisfiable vacuity twin. Inputs range over the whole field.' % ('InsertionProof' if kind == 'ins' else 'DeletionProof'),
            trusted_base=['z3 5.1.0 (QF_UFLIA)', 'gnark v0.8.0 frontend', 'engine/r2s lifter (validated against gnark solver each run)'],
            functions=['prover.%s.DefineGadget' % g for g in (['InsertionProof', 'InsertionRound'] if kind == 'ins' else ['DeletionProof', 'DeletionRound'])] + ['prover.VerifyProof.DefineGadget', 'prover.ProofRound.DefineGadget', 'gnark api.ToBinary/Select/IsZero/Or/AssertIsBoolean (as compiled)'],
            bounds='(depth,batch) in %s; all field values for every input; hint outputs free (soundness) / honest (completeness)' % (szs,))
    main_guard(run, body)


def handle_cex(run, kind, gk, D, B, o, model, paths):
    """replay a sat model against the real unsummarised R1CS + independent oracle; VIOLATION only if they disagree concretely."""
    try:
        rid = '%s_real_%d_%d' % (kind, D, B)
        if rid not in paths or not os.path.exists(paths[rid]):
            paths.update(run_dump([{'id': rid, 'kind': gk, 'a': D, 'b': B, 'nowrap': True}]))
        dreal = json.load(open(paths[rid]))
        dsum = json.load(open(paths['%s_%d_%d' % (kind, D, B)]))
        honest = 'completeness' in o['name']
        if honest:
            model = dict(model, hints={})
        rep = merkle.replay(kind, D, B, model, dreal, dsum)
        rep.update({'kind': kind, 'D': D, 'B': B, 'obligation': o['name'], 'honest_hints': honest})
        if honest:
            g = dumper_solve({'id': 'x', 'kind': gk, 'a': D, 'b': B}, [int(x) for x in rep['inputs']])
            rep['gnark_solved'] = g['solved']
            rep['circuit_accepts'] = rep['circuit_accepts'] and g['solved']
        if rep['circuit_accepts'] != rep['oracle_valid']:
            what = '%s D=%d B=%d: real R1CS %s but the relation is %s (%s)' % (kind, D, B, 'accepts' if rep['circuit_accepts'] else 'rejects',
                                                                                     'valid' if rep['oracle_valid'] else 'violated', rep['oracle_reason'])
            run.violation(what, rep, key='%s-%s' % (kind, 'accepts-invalid' if rep['circuit_accepts'] else 'rejects-valid'))
        else:
            run.inconclusive.append('%s: sat in the abstraction but the concretised model does not separate circuit and oracle (concretised=%s circuit_accepts=%s oracle_valid=%s: %s)'
                                    % (o['name'], o.get('concretised'), rep['circuit_accepts'], rep['oracle_valid'], rep['oracle_reason']))
    except (Inconclusive, Exception) as e:  # noqa
        run.inconclusive.append('%s: replay failed: %r' % (o['name'], e))
