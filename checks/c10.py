"""C10: proof JSON = 8 EVM-order coordinates, lossless round trip for all coordinate magnitudes (GOSYM on Proof.MarshalJSON/UnmarshalJSON)."""
from common import Run, main_guard
import driver, stubs

ANCHORS = ['prover/marshal.go']
HARNESS = ['c10_harness.go', ('c10_intr_sym.go', 'c10_intr_native.go')]


def main():
    run = Run('C10', anchors=ANCHORS)

    def body():
        e = 'VerifHarness_C10_RoundTrip'
        prog, secs = driver.load('prover', 'prover', HARNESS, [e])
        run.log('SSA of %d functions built in %.1fs' % (len(prog['funcs']), secs))
        res, ex = driver.run_entry(run, prog, e, stubs.make_stubs(), loop_bound=10)
        run.log(e, run.extra['paths'][e], 'solver calls', ex.solver_calls, '%.1fs' % ex.solver_time)
        # native replay: the symbolic coordinates are arbitrary 256-bit values, natively a proof must consist of curve points; the
        # counterexample class is replayed on real proofs a*G1, b*G2, c*G1: generators (G1 = (1,2): shortest coordinates) and larger scalars
        fails = [r for r in res if r.status in ('assert', 'panic')]
        seen = set()
        for r in fails:
            msg = r.info['msg'] if r.status == 'assert' else str(r.info)
            if msg in seen:
                continue
            seen.add(msg)
            hit = None
            # byte-pattern features of the solver's counterexample coordinates (leading / trailing zero bytes), searched for on real points
            feats = []
            try:
                dr = driver.model_draws(r.state, r.info['model']) if r.status == 'assert' else {}
                lead = trail = 0
                for k, v in dr.items():
                    if 'coord' in k and str(v).isdigit() and int(v) > 0:
                        b = int(v).to_bytes(32, 'big')
                        lead = max(lead, min(2, len(b) - len(b.lstrip(b'\0'))))
                        trail = max(trail, min(2, len(b) - len(b.rstrip(b'\0'))))
                for l_, t_ in ((lead, trail), (0, trail), (lead, 0), (0, 1), (1, 0)):
                    if (l_ or t_) and (l_, t_) not in feats:
                        feats.append((l_, t_))
            except Exception:  # noqa
                pass
            # ... and the counterexample's own abscissae for A and C, realised as the nearest real curve points
            direct = []
            try:
                Q = stubs.BN254_Q
                vals = sorted(set(int(v) for k, v in dr.items() if 'coord' in k and str(v).isdigit() and 0 < int(v) < Q), key=lambda v: v.bit_length())
                for c in vals[:5]:          # whichever coordinate the model made special: try its value as the abscissa of A and of C
                    for big_y in ('0', '1'):
                        direct.append({'scalar:a': '1', 'scalar:b': '1', 'scalar:c': '1', 'coord:ax': str(c), 'coord:cx': str(c), 'coord:ay_large': big_y, 'coord:cy_large': big_y})
                # a coordinate in [r, q) exists only as an ordinate: -G1 = (1, q-2)
                direct.append({'scalar:a': '1', 'scalar:b': '1', 'scalar:c': '1', 'coord:ax': '1', 'coord:ay_large': '1', 'coord:cx': '1', 'coord:cy_large': '1'})
            except Exception:  # noqa
                pass
            for sc in tuple(direct) + tuple({'scalar:a': '1', 'scalar:b': '1', 'scalar:c': '1', 'feat:lead': str(l_), 'feat:trail': str(t_)} for l_, t_ in feats) + ({'scalar:a': '1', 'scalar:b': '1', 'scalar:c': '1'}, {'scalar:a': '2', 'scalar:b': '3', 'scalar:c': '5'},
                       {'scalar:a': '1', 'scalar:b': '123456789', 'scalar:c': '2'}, {'scalar:a': '987654321987654321', 'scalar:b': '5', 'scalar:c': '1'}):
                failed, panicked, out = driver.replay_native('prover', 'prover', HARNESS, e, sc)
                if (r.status == 'assert' and failed) or (r.status == 'panic' and panicked):      # any assertion of the harness failing on the real build is a violation of the property
                    hit = (sc, out, failed or ['panic'])
                    break
            if hit:
                draws = driver.model_draws(r.state, r.info['model']) if r.status == 'assert' else {}
                run.violation('%s: %s -- reproduced natively on a real proof (%s)' % (e, msg if msg in hit[2] else '%s [natively: %s]' % (msg, hit[2][0]), ', '.join('%s=%s' % (k, v if len(str(v)) < 24 else str(v)[:20] + '...') for k, v in sorted(hit[0].items()))),
                              {'harness': e, 'assertion': msg, 'symbolic_counterexample_coordinates': draws, 'native_scalars': hit[0], 'native_output_tail': hit[1][-1200:]}, key='C10:' + msg[:50])
            else:
                run.inconclusive.append('%s: "%s" failed symbolically but not on the native sample proofs' % (e, msg[:80]))
        run.assumptions += sorted(stubs.USED) + ['a proof is any 8-tuple of 256-bit coordinates that gnark-crypto accepts (validity uninterpreted)']
        run.samples = run.obls[:4]
        run.finish(
            explanation='Proof.MarshalJSON and Proof.UnmarshalJSON are executed symbolically from go/ssa with the raw proof as 8 symbolic 256-bit coordinates: every JSON entry must denote coordinate i in EVM order, '
                        'and the 256-byte buffer rebuilt by UnmarshalJSON must equal the original for all coordinate values (leading zero bytes included). Failures are replayed natively on real curve points.',
            trusted_base=['z3', 'go/ssa v0.29.0', 'engine/gosym + listed stubs'],
            functions=['prover.(*Proof).MarshalJSON', 'prover.(*Proof).UnmarshalJSON', 'prover.toHex', 'prover.fromHex'],
            bounds='all 8 x 256-bit coordinate tuples')
    main_guard(run, body)


main()
