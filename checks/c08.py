"""C08: ComputeInputHashInsertion/Deletion == keccak256 of the on-chain packing, for all magnitudes (GOSYM on the real functions)."""
from common import Run, main_guard
import driver, stubs

ANCHORS = ['prover/insertion_proving_system.go', 'prover/deletion_proving_system.go', 'main.go']
HARNESS = ['c08_harness.go']


def main():
    run = Run('C08', anchors=ANCHORS)

    def body():
        entries = ['VerifHarness_C08_Insertion', 'VerifHarness_C08_Deletion']
        prog, secs = driver.load('prover', 'prover', HARNESS, entries)
        run.log('SSA of %d functions built from the current tree in %.1fs' % (len(prog['funcs']), secs))
        stubs.PARAMS['maxbatch'] = 3 if run.thorough else 1
        sm = stubs.make_stubs()
        for e in entries:
            res, ex = driver.run_entry(run, prog, e, sm, loop_bound=8)
            run.log(e, {k: v for k, v in run.extra['paths'][e].items()}, 'solver calls', ex.solver_calls, '%.1fs' % ex.solver_time)
            driver.report(run, ex, 'prover', 'prover', HARNESS, e, res, keyfn=lambda en, msg, dr: 'C08:%s' % en)
        run.assumptions += sorted(stubs.USED) + ['batch size <= %d (harness bound, unwinding assertion checked)' % stubs.PARAMS['maxbatch'] + '; values < 2^256; indices any uint32',
                                                  'keccak256 uninterpreted: "hash equal for all inputs" is decided as "hashed byte strings equal for all inputs"']
        run.samples = run.obls[:4]
        run.finish(
            explanation='The real ComputeInputHashInsertion/ComputeInputHashDeletion are executed symbolically from go/ssa (bytes.Buffer, binary.Write, big.Int.Bytes, append, make as '
                        'bit-vector/byte-array models with symbolic lengths); the byte string handed to keccak256.Hash must equal, for every 256-bit root/commitment, every uint32 index and every batch '
                        'size <= 3, the fixed-width big-endian on-chain packing built independently in the harness. Counterexamples are replayed natively with go test -overlay.',
            trusted_base=['z3 4.x/5.x (QF_ABV+UF)', 'golang.org/x/tools go/ssa v0.29.0', 'engine/gosym executor + stubs listed in assumptions'],
            functions=['prover.(*InsertionParameters).ComputeInputHashInsertion', 'prover.(*DeletionParameters).ComputeInputHashDeletion'],
            bounds='batch 0..%d; all 256-bit values; all uint32 indices' % stubs.PARAMS['maxbatch'])
    main_guard(run, body)


main()
