"""C08: ComputeInputHashInsertion/Deletion == keccak256 of the on-chain packing, for all magnitudes (GOSYM on the real functions)."""
from common import Run, main_guard
import driver, stubs

ANCHORS = ['prover/insertion_proving_system.go', 'prover/deletion_proving_system.go', 'main.go']
HARNESS = ['c08_harness.go']


def gen_test_params(run):
    """the test-parameter generator (main.go, gen-test-params): for every (mode, depth, batch) it accepts, what it emits is a valid batch.
    The Action closure is executed symbolically with the real poseidon_tree code (Poseidon uninterpreted); the parameter struct it hands to
    ComputeInputHash* is checked against the batch relation in the same term algebra (ground terms: decided by congruence)."""
    import z3, cli_model
    from gosym import Unsupported, NIL, Big, Struct, Ptr
    BIG = stubs.BIG
    dims = [(d, b) for d in (1, 2, 3) for b in range(1, (1 << d) + 2)] if not run.thorough else [(d, b) for d in (1, 2, 3, 4) for b in range(1, (1 << d) + 2)]
    try:
        progm = cli_model.load_main()
        smm, table, flagdefs, _ = cli_model.command_table(progm)
    except Unsupported as x:
        run.inconclusive.append('gen-test-params: unsupported by the encoder: %s' % x)
        return
    # real tree code instead of the CLI's API stubs; capture the parameter struct at the hash computation
    captured = {}
    for k in [k for k in smm if 'poseidon_tree' in k]:
        del smm[k]

    def capture(kind):
        def f(ex, st, a, c):
            captured[kind] = (ex, st, stubs.snapshot(ex, st, ex.load(st, a[0])))
            return NIL
        return f
    P = 'worldcoin/gnark-mbu/prover.'
    smm['(*' + P + 'InsertionParameters).ComputeInputHashInsertion'] = capture('insertion')
    smm['(*' + P + 'DeletionParameters).ComputeInputHashDeletion'] = capture('deletion')
    bad = []
    t0 = __import__('time').time()
    for mode in ('insertion', 'deletion'):
        for depth, batch in dims:
            captured.clear()
            try:
                rs, exc = cli_model.run_command(progm, smm, table, flagdefs, 'gen-test-params', loop_bound=80, fixed={'mode': mode, 'tree-depth': depth, 'batch-size': batch})
            except Unsupported as x:
                run.inconclusive.append('gen-test-params %s (%d,%d): unsupported by the encoder: %s' % (mode, depth, batch, x))
                return
            oks = [r for r in rs if r.status == 'ok']
            if len(oks) != len([r for r in rs if r.status != 'infeasible']) or exc.incomplete:
                badr = [r for r in rs if r.status not in ('ok', 'infeasible')]
                run.inconclusive.append('gen-test-params %s (%d,%d): %s' % (mode, depth, batch, exc.incomplete or str(badr[0].info)[:160]))
                continue
            accepted = [r for r in oks if r.ret is NIL or r.ret is None]
            if not accepted:
                continue                      # the generator refuses this dimension: nothing is emitted
            if mode not in captured:
                run.inconclusive.append('gen-test-params %s (%d,%d): succeeded without computing an input hash' % (mode, depth, batch))
                continue
            ex, st, ps = captured[mode]
            names = stubs.struct_fields(ex, ex.tid_by_str[P + ('InsertionParameters' if mode == 'insertion' else 'DeletionParameters')])
            fld = dict(zip(names, ps.f))
            H = stubs.uf(ex, 'poseidon2', *([z3.BitVecSort(BIG)] * 3))
            big = lambda v: v.v
            sl = lambda v: v[2] if isinstance(v, tuple) else []

            def fold(leaf, idx, path):
                cur = leaf
                for j, sib in enumerate(path):
                    cur = H(big(sib), cur) if (idx >> j) & 1 else H(cur, big(sib))
                return cur
            conds = []
            root = big(fld['PreRoot'])
            idc, mps = sl(fld['IdComms']), sl(fld['MerkleProofs'])
            conds.append(z3.BoolVal(len(idc) == batch and len(mps) == batch and all(len(sl(m)) == depth for m in mps)))
            if mode == 'insertion':
                start = z3.simplify(fld['StartIndex']).as_long()
                for i in range(min(batch, len(idc), len(mps))):
                    idx = start + i
                    conds.append(z3.BoolVal(idx < (1 << depth)))
                    conds.append(fold(z3.BitVecVal(0, BIG), idx, sl(mps[i])) == root)
                    root = fold(big(idc[i]), idx, sl(mps[i]))
            else:
                dis = sl(fld['DeletionIndices'])
                conds.append(z3.BoolVal(len(dis) == batch))
                for i in range(min(batch, len(idc), len(mps), len(dis))):
                    idx = z3.simplify(dis[i]).as_long()
                    if idx >> depth:               # skip flag: the slot changes nothing
                        conds.append(z3.BoolVal((idx >> depth) == 1))
                        continue
                    conds.append(fold(big(idc[i]), idx, sl(mps[i])) == root)
                    root = fold(z3.BitVecVal(0, BIG), idx, sl(mps[i]))
            conds.append(root == big(fld['PostRoot']))
            s_ = z3.Solver()
            s_.set('timeout', 20000)
            s_.add(*accepted[0].state.pc)
            s_.add(z3.Not(z3.And(*conds)))
            r = str(s_.check())
            run.obligation('gen-test-params %s depth=%d batch=%d: the emitted parameters are a valid batch (Merkle relation over uninterpreted Poseidon, indices inside the tree)' % (mode, depth, batch),
                           r, 'unsat', 0.0)
            if r == 'sat':
                bad.append((mode, depth, batch))
    run.log('gen-test-params: %d dimensions in %.1fs, %d not valid' % (2 * len(dims), __import__('time').time() - t0, len(bad)))
    if bad:
        pick = [x for m_ in ('deletion', 'insertion') for x in [y for y in bad if y[0] == m_][:2]]
        out = native_gen(pick)
        for (mode, depth, batch), res in out:
            if res['unprovable']:
                run.violation('gen-test-params --mode %s --tree-depth %d --batch-size %d exits 0 but the emitted parameters are not provable -- reproduced with the built binary: %s' % (mode, depth, batch, res['log'][-1][:160]),
                              {'mode': mode, 'depth': depth, 'batch': batch, 'native': res}, key='C08:gen-test-params:%s:%d:%d' % (mode, depth, batch))
            else:
                run.inconclusive.append('gen-test-params %s (%d,%d): invalid in the model but the built binary proves it' % (mode, depth, batch))


def native_gen(dims):
    import os, subprocess, tempfile
    from common import REPO, GOENV, scratch
    d = tempfile.mkdtemp(prefix='gtp_', dir=scratch())
    exe = os.path.join(d, 'gnark-mbu')
    p = subprocess.run(['go', 'build', '-o', exe, '.'], cwd=REPO, env=GOENV, stdout=subprocess.PIPE, stderr=subprocess.STDOUT, text=True)
    out = []
    for mode, depth, batch in dims:
        res = {'unprovable': False, 'log': []}
        if p.returncode:
            res['log'].append('build failed')
            out.append(((mode, depth, batch), res))
            continue
        sh = lambda args, stdin=None: subprocess.run([exe] + args, input=stdin, stdout=subprocess.PIPE, stderr=subprocess.PIPE, text=True, timeout=900, cwd=d)
        keys = os.path.join(d, 'k_%s_%d_%d' % (mode, depth, batch))
        q = sh(['setup', '--mode', mode, '--output', keys, '--tree-depth', str(depth), '--batch-size', str(batch)])
        g = sh(['gen-test-params', '--mode', mode, '--tree-depth', str(depth), '--batch-size', str(batch)])
        res['log'].append('setup rc=%d gen-test-params rc=%d' % (q.returncode, g.returncode))
        if q.returncode == 0 and g.returncode == 0:
            pr = sh(['prove', '--mode', mode, '--keys-file', keys], stdin=g.stdout)
            res['log'].append('prove rc=%d %s' % (pr.returncode, pr.stderr[-200:].replace('\n', ' ')))
            res['unprovable'] = pr.returncode != 0
        out.append(((mode, depth, batch), res))
    return out


def main():
    run = Run('C08', anchors=ANCHORS)

    def body():
        entries = ['VerifHarness_C08_Insertion', 'VerifHarness_C08_Deletion']
        prog, secs = driver.load('prover', 'prover', HARNESS, entries)
        run.log('SSA of %d functions built from the current tree in %.1fs' % (len(prog['funcs']), secs))
        stubs.PARAMS['maxbatch'] = 3 if run.thorough else 2
        sm = stubs.make_stubs()
        for e in entries:
            res, ex = driver.run_entry(run, prog, e, sm, loop_bound=8)
            run.log(e, {k: v for k, v in run.extra['paths'][e].items()}, 'solver calls', ex.solver_calls, '%.1fs' % ex.solver_time)
            driver.report(run, ex, 'prover', 'prover', HARNESS, e, res, keyfn=lambda en, msg, dr: 'C08:%s' % en)
        gen_test_params(run)
        run.assumptions += sorted(stubs.USED) + ['batch size <= %d (harness bound, unwinding assertion checked)' % stubs.PARAMS['maxbatch'] + '; values < 2^256; indices any uint32',
                                                  'keccak256 uninterpreted: "hash equal for all inputs" is decided as "hashed byte strings equal for all inputs"']
        run.samples = run.obls[:4]
        run.finish(
            explanation='The real ComputeInputHashInsertion/ComputeInputHashDeletion are executed symbolically from go/ssa (bytes.Buffer, binary.Write, big.Int.Bytes, append, make as '
                        'bit-vector/byte-array models with symbolic lengths); the byte string handed to keccak256.Hash must equal, for every 256-bit root/commitment, every uint32 index and every batch '
                        'size <= 3, the fixed-width big-endian on-chain packing built independently in the harness. Counterexamples are replayed natively with go test -overlay.',
            trusted_base=['z3 4.x/5.x (QF_ABV+UF)', 'golang.org/x/tools go/ssa v0.29.0', 'engine/gosym executor + stubs listed in assumptions'],
            functions=['prover.(*InsertionParameters).ComputeInputHashInsertion', 'prover.(*DeletionParameters).ComputeInputHashDeletion'],
            bounds='batch 0..%d; all 256-bit values; all uint32 indices' % stubs.PARAMS['maxbatch'])
    main_guard(run, body)


main()
