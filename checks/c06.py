"""C06: ReducedModRCheck / ToReducedBigEndian / FromBinaryBigEndian over every prime field gnark's R1CS builder accepts."""
import json, time
from common import Run, run_dump, pool_map, main_guard, dumper_engine
import bitgadgets
from lift import eval_r1cs, Inconclusive

FIELDS = ['bn254', 'bls12_377', 'bls12_381', 'bls24_315', 'bls24_317', 'bw6_633', 'bw6_761', 'tiny']
ANCHORS = ['prover/circuit_utils.go']


def main():
    run = Run('C06', anchors=ANCHORS)

    def body():
        probe = run_dump([{'id': 'probe_' + f, 'kind': 'rmod', 'a': 8, 'field': f, 'nowrap': True} for f in FIELDS])
        mod = {f: int(json.load(open(probe['probe_' + f]))['Field']) for f in FIELDS}
        fields = FIELDS if run.thorough else ['bn254', 'tiny', 'bls12_381', 'bw6_761']
        jobs, tasks = [], []
        for f in fields:
            bl = mod[f].bit_length()
            lo = -(-bl // 8) * 8
            ns_ge = [n for n in range(lo, bl + 17, 8)]
            ns_lt = sorted(set(n for n in (8, 32, lo - 8) if 0 < n < bl))
            if not run.thorough:
                ns_ge, ns_lt = ns_ge[:2], ns_lt[-1:]
            # gadget-level widths that are not byte aligned on these fields (n = bitlen, bitlen+1): they drive the same code path as a
            # byte-aligned width on a prime whose bit length is a multiple of 8 (none of gnark's R1CS fields is); a counterexample is
            # replayed in gnark's test engine over such primes (251, 65521)
            ns_px = [bl, bl + 1] if f != 'tiny' else [6, 7]
            for n in ns_ge + ns_lt + ns_px:
                jobs.append({'id': 'rmod_%s_%d' % (f, n), 'kind': 'rmod', 'a': n, 'field': f, 'nowrap': True})
                tasks.append({'kind': 'rmod', 'field': f, 'n': n, 'id': jobs[-1]['id'], 'proxy': n in ns_px and n % 8 != 0})
            tr = sorted(set(ns_ge[:1] + ns_lt[-1:] + ([32, 256] if f == 'bn254' else []) + (ns_ge[1:2] if run.thorough else [])))
            for n in tr:
                jobs.append({'id': 'trbe_%s_%d' % (f, n), 'kind': 'trbe', 'a': n, 'field': f, 'abstract': ['prover.ReducedModRCheck']})
                jobs.append({'id': 'trbe_real_%s_%d' % (f, n), 'kind': 'trbe', 'a': n, 'field': f, 'nowrap': True})
                tasks.append({'kind': 'trbe', 'field': f, 'n': n, 'id': jobs[-2]['id'], 'real': jobs[-1]['id']})
                if (1 << n) > (64 if not run.thorough else 600) * mod[f]:
                    continue   # quotient range beyond 64 (quick) / 600 (thorough) multiples of p: LIA does not finish; outside the claim
                jobs.append({'id': 'fbbe_%s_%d' % (f, n), 'kind': 'fbbe', 'a': n, 'field': f, 'nowrap': True})
                tasks.append({'kind': 'fbbe', 'field': f, 'n': n, 'id': jobs[-1]['id']})
        t = time.time()
        paths = run_dump(jobs)
        run.log('compiled %d harness circuits over %d fields in %.1fs' % (len(jobs), len(fields), time.time() - t))
        for tk in tasks:
            tk['path'] = paths[tk['id']]
            tk['timeout'] = 300 if run.thorough else 120
        for task, res in pool_map(bitgadgets.run_task, tasks):
            if isinstance(res, Exception):
                run.inconclusive.append('task %s: %r' % (task['id'], res))
                continue
            if res.get('error'):
                run.inconclusive.append('%s: %s' % (task['id'], res['error']))
                continue
            for o in res['obls']:
                cex = o.pop('cex', None)
                ok = run.obligation(o['name'], o['verdict'], o['expect'], o['secs'], constraints=res.get('constraints'))
                if not ok and o['verdict'] == 'sat' and o['expect'] == 'unsat':
                    replay(run, task, o, cex, paths)
                elif not ok and o['expect'] == 'sat' and o['verdict'] == 'unsat':
                    run.inconclusive.append('vacuity twin unsat: ' + o['name'])
            run.log(task['id'], ' '.join('%s/%.2fs' % (o['verdict'], o['secs']) for o in res['obls']))
        run.assumptions += ['uniqueness of binary representation; a prime field has no zero divisors (x(1-x)=0 => x in {0,1}), instantiated as axioms on the product terms that occur',
                            'inside ToReducedBigEndian the comparator is summarised by "sum b_i 2^i < p", which the rmod obligations of this same run establish for the same field and width',
                            'honest bits.NBits contract in completeness queries']
        run.finish(
            explanation='For each prime field gnark can compile to R1CS and each byte-aligned width: the compiled ReducedModRCheck is lifted to a Boolean function and proven equivalent to '
                        'unsigned bits < p in QF_BV (so the modulus itself and every larger pattern is rejected, every smaller accepted), each digit is shown to be individually forced boolean; '
                        'ToReducedBigEndian is proven sound with the decomposition hint free (only the canonical digits, big-endian byte order, LSB-first in byte) and complete with the honest hint; '
                        'FromBinaryBigEndian is proven to recompose the big-endian bit string modulo p.',
            trusted_base=['z3 5.1.0 (QF_BV, QF_LIA)', 'gnark v0.8.0 frontend', 'engine/r2s lifter'],
            functions=['prover.ReducedModRCheck.DefineGadget', 'prover.ToReducedBigEndian.DefineGadget', 'prover.FromBinaryBigEndian.DefineGadget', 'gnark api.ToBinary/FromBinary/Select/Or (as compiled)'],
            bounds='fields %s; widths: every byte-aligned n in [bitlen, bitlen+16] and sample n < bitlen (%s tier)' % (fields, run.tier))
    main_guard(run, body)


def proxy_replay(run, o, task):
    """width == bit length (+1): reproduce on byte-aligned instances over primes whose bit length is a multiple of 8, in gnark's test engine"""
    off = task['n'] - {'tiny': 6}.get(task['field'], 0)
    for p, n in ((251, 8), (65521, 16)):
        w = n + (1 if task['n'] % 8 == 1 or (task['field'] == 'tiny' and task['n'] == 7) else 0)
        if w % 8:
            continue
        for v in list(range(p, 1 << w))[:20] + [p - 1, 0, 1]:
            bits = [(v >> i) & 1 for i in range(w)]
            g = dumper_engine({'id': 'x', 'kind': 'rmod', 'a': w, 'field': str(p)}, bits)
            if g['solved'] != (v < p):
                run.violation('%s: over the prime %d, width %d: the gadget %s the value %d' % (o['name'], p, w, 'accepts' if g['solved'] else 'rejects', v),
                              {'prime': p, 'width': w, 'value': v, 'bits_le': bits, 'engine': g}, key='rmod-width-eq-bitlen')
                return True
    return False


def replay(run, task, o, cex, paths):
    try:
        if cex is None:
            run.inconclusive.append(o['name'] + ': sat without model')
            return
        if task['kind'] == 'rmod':
            d = json.load(open(task['path']))
            if task.get('proxy'):
                if proxy_replay(run, o, task):
                    return
            elif 'bits_le' in cex:
                r = bitgadgets.rmod_replay(d, cex['bits_le'])
                if r['circuit_accepts'] != r['value_lt_p']:
                    run.violation('%s: real R1CS %s digits denoting a value %s p' % (o['name'], 'accepts' if r['circuit_accepts'] else 'rejects', '<' if r['value_lt_p'] else '>='),
                                  dict(cex, **r, task=task['id']), key='rmod-comparator')
                    return
            elif 'untyped_inputs' in cex or 'digits' in cex:
                # exhibit a non-boolean digit that is accepted
                P = int(d['Field'])
                n = task['n']
                which = cex.get('digits') or [int(x[2:]) for x in cex.get('untyped_inputs', [])]
                for w in which[-4:] + which[:2]:
                    for val in (2, P - 1, 1):
                        bits = [0] * n
                        bits[w - 1] = val
                        r = bitgadgets.rmod_replay(d, bits)
                        if r['circuit_accepts'] and not r['value_lt_p']:
                            run.violation('%s: real R1CS accepts digit value %d at position %d (%s)' % (o['name'], val, w - 1, 'non-boolean digit' if val > 1 else 'value >= p'),
                                          {'task': task['id'], 'bits_le': [str(b) for b in bits]}, key='rmod-unchecked-digit')
                            return
            elif 'constraints' in cex:
                run.violation('%s: gadget emits %d constraints for a width below the field size (must be none)' % (o['name'], cex['constraints']), cex, key='rmod-short')
                return
        elif task['kind'] == 'trbe':
            d = json.load(open(paths[task['real']]))
            P = int(d['Field'])
            n = task['n']
            nb = [hi for hi, h in enumerate(d.get('Hints') or []) if h['Name'].endswith('NBits')]
            ov = {}
            if not cex.get('honest'):
                for j, hd in enumerate(cex.get('hints', [])):
                    if j < len(nb):
                        ov.update({(nb[j], i): v for i, v in enumerate(hd)})
            _, failed = eval_r1cs(d, [cex['V']] + cex['out'], hint_override=ov)
            valid = bitgadgets.trbe_oracle(P, n, cex['V'], cex['out'])
            if (not failed) != valid:
                run.violation('%s: real R1CS %s (v=%d) although the emitted string %s the canonical big-endian digits' % (o['name'], 'accepts' if not failed else 'rejects', cex['V'], 'is' if valid else 'is not'),
                              {'task': task['id'], 'cex': {k: str(v) for k, v in cex.items()}, 'circuit_accepts': not failed, 'oracle_valid': valid}, key='trbe')
                return
        elif task['kind'] == 'fbbe':
            d = json.load(open(task['path']))
            P = int(d['Field'])
            if 'untyped_inputs' in cex:
                n = task['n']
                for val in (2, P - 1):
                    bits = [val] + [0] * (n - 1)
                    out = sum(bits[i] << ((n // 8 - 1 - (i // 8)) * 8 + (i % 8)) for i in range(n)) % P
                    _, failed = eval_r1cs(d, bits + [out])
                    if not failed:
                        run.violation('%s: real R1CS accepts a non-boolean input bit' % o['name'], {'task': task['id'], 'bits': [str(b) for b in bits]}, key='fbbe-nonboolean')
                        return
            else:
                _, failed = eval_r1cs(d, cex['bits'] + [cex['out']])
                valid = bitgadgets.fbbe_oracle(P, task['n'], cex['bits'], cex['out'])
                if (not failed) != valid:
                    run.violation('%s: real R1CS %s but out %s the big-endian value mod p' % (o['name'], 'accepts' if not failed else 'rejects', '==' if valid else '!='),
                                  {'task': task['id'], 'cex': {k: str(v) for k, v in cex.items()}}, key='fbbe')
                    return
        run.inconclusive.append(o['name'] + ': counterexample did not reproduce on the real R1CS')
    except (Inconclusive, Exception) as e:  # noqa
        run.inconclusive.append('%s: replay failed: %r' % (o['name'], e))


main()
