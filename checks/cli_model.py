"""Shared by C14 and C19: main.go's command table (extracted by executing main symbolically up to cli.App.Run) and the symbolic
execution of one command's Action closure with symbolic flags and may-fail API stubs."""
import z3
import common, stubs, gosym
from common import REPO, scratch
from gosym import Exec, Opaque, Iface, Struct, Str, Func, NIL, Forks


def lit(s):
    if isinstance(s, Str) and s.num is None and s.parts is None:
        z = z3.simplify(s.z)
        if z3.is_string_value(z):
            return z.as_string()
    return None


def load_main():
    cfg = {'dir': REPO, 'overlay': {}, 'patterns': ['.'], 'entries': ['worldcoin/gnark-mbu.main'], 'follow': ['worldcoin/gnark-mbu'], 'extra': []}
    try:
        prog = gosym.load_program(cfg, scratch())
    except RuntimeError as x:
        raise common.BuildError(str(x))
    if prog['errors']:
        raise common.BuildError('\n'.join(prog['errors'][:5]))
    return prog


def command_table(prog):
    """returns (stub map, table name -> Action Func, flag defaults per command, results of main)"""
    table, flagdefs = {}, {}

    def app_run(ex, st, args, ctx):
        app = ex.load(st, args[0])
        T = {t['str']: i for i, t in enumerate(prog['types']) if t}
        appt = prog['types'][prog['types'][T['github.com/urfave/cli/v2.App']]['under']]
        ci = [i for i, f in enumerate(appt['fields']) if f['name'] == 'Commands'][0]
        cmdt = prog['types'][prog['types'][T['github.com/urfave/cli/v2.Command']]['under']]
        ni = [i for i, f in enumerate(cmdt['fields']) if f['name'] == 'Name'][0]
        ai = [i for i, f in enumerate(cmdt['fields']) if f['name'] == 'Action'][0]
        fi = [i for i, f in enumerate(cmdt['fields']) if f['name'] == 'Flags'][0]
        for c in ex.cells(st, app.f[ci]):
            cv = ex.load(st, c)
            table[lit(cv.f[ni])] = cv.f[ai]
            defaults = {}
            for fl in (ex.cells(st, cv.f[fi]) if cv.f[fi] is not NIL else []):
                flv = ex.load(st, fl.v) if isinstance(fl, Iface) else None
                if isinstance(flv, Struct) and 'StringFlag' in prog['types'][fl.t]['str']:
                    ft = prog['types'][prog['types'][prog['types'][fl.t]['elem']]['under']]
                    names = [f['name'] for f in ft['fields']]
                    defaults[lit(flv.f[names.index('Name')])] = lit(flv.f[names.index('Value')]) or ''
            flagdefs[lit(cv.f[ni])] = defaults
        ok = z3.Bool('app_run_ok')
        return Forks([(ok, NIL, None), (z3.Not(ok), Iface(-1, Opaque('error', msg=stubs.S('command failed'), origin=ctx['pos'])), None)])
    sm = stubs.make_stubs(dict(stubs.cli_stubs(), **{'(*github.com/urfave/cli/v2.App).Run': app_run}))
    ex = Exec(prog, sm, loop_bound=12)
    ex.skip_init = True
    res = ex.run('worldcoin/gnark-mbu.main')
    return sm, table, flagdefs, res


def run_command(prog, sm, table, flagdefs, cmd, loop_bound=40, max_paths=20000, fixed=None):
    f = table.get(cmd)
    if not isinstance(f, Func):
        return None, None
    exc = Exec(prog, sm, loop_bound=loop_bound, max_paths=max_paths)
    exc.skip_init = True
    rs = exc.run(f.name, args=[Opaque('clictx', flag_defaults=flagdefs.get(cmd, {}), fixed=fixed or {})])
    return rs, exc


def half_loaded_rule(run, prog, sm, table, flagdefs, cmds, paths=None):
    """on every path of the commands: once loading the keys file has failed, the command ends -- no later use of the returned system.
    returns the list of (cmd, offending api) findings and records one obligation per command"""
    findings = []
    for cmd in cmds:
        rs = paths.get(cmd) if paths else None
        if rs is None:
            rs, exc = run_command(prog, sm, table, flagdefs, cmd)
            if rs is None:
                continue
            if exc.incomplete or any(r.status not in ('ok', 'infeasible') for r in rs):
                bad = [r for r in rs if r.status not in ('ok', 'infeasible')]
                run.inconclusive.append('%s: %s' % (cmd, exc.incomplete or ('path ends with %s: %s' % (bad[0].status, str(bad[0].info)[:150]))))
                continue
            rs = [r for r in rs if r.status == 'ok']
        worst = None
        for r in rs:
            evs = [e for e in r.state.events if e[0] == 'api']
            for i, e in enumerate(evs):
                if e[1] in ('ReadSystemFromFile', 'ReadSystemFromS3') and e[2] == 'err' and i + 1 < len(evs):
                    worst = evs[i + 1][1]
        run.obligation('%s: when loading the keys file fails the command ends there (nothing goes on to use the half-loaded system)' % cmd, 'unsat' if worst is None else 'sat', 'unsat', 0.0, paths=len(rs))
        if worst is not None:
            findings.append((cmd, worst))
    return findings


def native_truncated_cli():
    """built binary: prove / verify with a keys file cut inside each section end with the error exit (status 1), no Go panic, nothing on stdout"""
    import os, subprocess, tempfile, json
    from common import GOENV
    d = tempfile.mkdtemp(prefix='clitr_', dir=scratch())
    exe = os.path.join(d, 'gnark-mbu')
    out = {'failed': [], 'log': []}
    p = subprocess.run(['go', 'build', '-o', exe, '.'], cwd=REPO, env=GOENV, stdout=subprocess.PIPE, stderr=subprocess.STDOUT, text=True)
    if p.returncode:
        out['log'].append('build failed: ' + p.stdout[-400:])
        return out

    def sh(args, stdin=None):
        q = subprocess.run([exe] + args, input=stdin, stdout=subprocess.PIPE, stderr=subprocess.PIPE, text=True, timeout=600, cwd=d)
        return q.returncode, q.stdout, q.stderr
    keys = os.path.join(d, 'keys')
    rc, so, se = sh(['setup', '--mode', 'deletion', '--output', keys, '--tree-depth', '2', '--batch-size', '1'])
    rc2, params, se = sh(['gen-test-params', '--mode', 'deletion', '--tree-depth', '2', '--batch-size', '1'])
    if rc or rc2:
        out['log'].append('setup failed')
        return out
    rcp, proof, se = sh(['prove', '--mode', 'deletion', '--keys-file', keys], stdin=params)
    h = json.loads(params)['inputHash']
    data = open(keys, 'rb').read()
    raw = keys + '_raw'
    sh(['convert-to-raw', '--input', keys, '--output', raw])      # absent on trees without the command: then only one format is cut
    files = [('compressed', data)] + ([('raw', open(raw, 'rb').read())] if os.path.exists(raw) else [])
    for fmt, blob in files:
        for cut in (0, 5, 8, len(blob) // 3, len(blob) // 2, len(blob) - len(blob) // 50, len(blob) - 1):
            tk = keys + '_cut'
            open(tk, 'wb').write(blob[:cut])
            for cmd, args, stdin in (('prove', ['prove', '--mode', 'deletion', '--keys-file', tk], params), ('verify', ['verify', '--mode', 'deletion', '--keys-file', tk, '--input-hash', h], proof)):
                rc, so, se = sh(args, stdin=stdin)
                ok = rc == 1 and 'goroutine ' not in se and 'panic:' not in se and so.strip() == ''
                out['log'].append('%s %s cut %d/%d: rc=%d' % (cmd, fmt, cut, len(blob), rc))
                if not ok:
                    out['failed'].append('%s with a %s keys file cut at %d of %d bytes ends with the error exit and no panic (rc=%d%s)' % (cmd, fmt, cut, len(blob), rc, ', Go panic' if 'goroutine ' in se else ''))
    return out
