"""Shared by C14 and C19: main.go's command table (extracted by executing main symbolically up to cli.App.Run) and the symbolic
execution of one command's Action closure with symbolic flags and may-fail API stubs."""
import z3
import common, stubs, gosym
from common import REPO, scratch
from gosym import Exec, Opaque, Iface, Struct, Str, Func, NIL, Forks


def lit(s):
    if isinstance(s, Str) and s.num is None and s.parts is None:
        z = z3.simplify(s.z)
        if z3.is_string_value(z):
            return z.as_string()
    return None


def load_main():
    cfg = {'dir': REPO, 'overlay': {}, 'patterns': ['.'], 'entries': ['worldcoin/gnark-mbu.main'], 'follow': ['worldcoin/gnark-mbu'], 'extra': []}
    try:
        prog = gosym.load_program(cfg, scratch())
    except RuntimeError as x:
        raise common.BuildError(str(x))
    if prog['errors']:
        raise common.BuildError('\n'.join(prog['errors'][:5]))
    return prog


def command_table(prog):
    """returns (stub map, table name -> Action Func, flag defaults per command, results of main)"""
    table, flagdefs = {}, {}

    def app_run(ex, st, args, ctx):
        app = ex.load(st, args[0])
        T = {t['str']: i for i, t in enumerate(prog['types']) if t}
        appt = prog['types'][prog['types'][T['github.com/urfave/cli/v2.App']]['under']]
        ci = [i for i, f in enumerate(appt['fields']) if f['name'] == 'Commands'][0]
        cmdt = prog['types'][prog['types'][T['github.com/urfave/cli/v2.Command']]['under']]
        ni = [i for i, f in enumerate(cmdt['fields']) if f['name'] == 'Name'][0]
        ai = [i for i, f in enumerate(cmdt['fields']) if f['name'] == 'Action'][0]
        fi = [i for i, f in enumerate(cmdt['fields']) if f['name'] == 'Flags'][0]
        for c in ex.cells(st, app.f[ci]):
            cv = ex.load(st, c)
            table[lit(cv.f[ni])] = cv.f[ai]
            defaults = {}
            for fl in (ex.cells(st, cv.f[fi]) if cv.f[fi] is not NIL else []):
                flv = ex.load(st, fl.v) if isinstance(fl, Iface) else None
                if isinstance(flv, Struct) and 'StringFlag' in prog['types'][fl.t]['str']:
                    ft = prog['types'][prog['types'][prog['types'][fl.t]['elem']]['under']]
                    names = [f['name'] for f in ft['fields']]
                    defaults[lit(flv.f[names.index('Name')])] = lit(flv.f[names.index('Value')]) or ''
            flagdefs[lit(cv.f[ni])] = defaults
        ok = z3.Bool('app_run_ok')
        return Forks([(ok, NIL, None), (z3.Not(ok), Iface(-1, Opaque('error', msg=stubs.S('command failed'), origin=ctx['pos'])), None)])
    sm = stubs.make_stubs(dict(stubs.cli_stubs(), **{'(*github.com/urfave/cli/v2.App).Run': app_run}))
    ex = Exec(prog, sm, loop_bound=12)
    ex.skip_init = True
    res = ex.run('worldcoin/gnark-mbu.main')
    return sm, table, flagdefs, res


def run_command(prog, sm, table, flagdefs, cmd, loop_bound=40, max_paths=20000):
    f = table.get(cmd)
    if not isinstance(f, Func):
        return None, None
    exc = Exec(prog, sm, loop_bound=loop_bound, max_paths=max_paths)
    exc.skip_init = True
    rs = exc.run(f.name, args=[Opaque('clictx', flag_defaults=flagdefs.get(cmd, {}))])
    return rs, exc
