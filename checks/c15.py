import c11
c11.main("C15")
