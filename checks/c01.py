import merkle_check
merkle_check.main("C01", "ins")
