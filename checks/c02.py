import merkle_check
merkle_check.main("C02", "del")
