"""C04: in-circuit Keccak-256 / SHA3-256 == the standard functions (round lemma, schedule, sponge) on the real R1CS."""
import json, random, time
from common import Run, run_dump, pool_map, main_guard, dumper_solve
import keccak_check, keccak_ref
from lift import Inconclusive

ANCHORS = ['prover/keccak/keccak.go', 'prover/keccak/constants.go']


def main():
    run = Run('C04', anchors=ANCHORS)

    def body():
        rng = random.Random(run.seed)
        if run.thorough:
            rounds = list(range(24))
            lens = list(range(0, 546))
            prod = sorted(set([68 + 32 * b for b in list(range(1, 17)) + [100]] + [64 + 4 * b for b in list(range(1, 17)) + [100]]))
            sha_lens = list(range(0, 140)) + [271, 272, 273, 407, 408, 409]
        else:
            rounds = sorted(set([0, 23, 1 + rng.randrange(22)]))
            lens = [0, 1, 31, 32, 67, 68, 100, 134, 135, 136, 137, 200, 271, 272, 273, 407, 408, 409, 544]
            prod = [68 + 32 * b for b in (1, 2, 3, 4, 7, 10, 16)] + [64 + 4 * b for b in (1, 2, 3, 4, 16, 100)]
            sha_lens = [0, 1, 135, 136, 137, 272]
        lens = sorted(set(lens + prod))
        jobs, tasks = [], []
        for r in rounds:
            jobs.append({'id': 'kr%d' % r, 'kind': 'keccakround', 'a': r, 'trace': ['keccak.KeccakRound']})
            tasks.append({'kind': 'round', 'r': r, 'xs': [0, 1, 2, 3, 4], 'id': 'kr%d' % r, 'first': True, 'timeout': 300 if run.thorough else 120})
        jobs.append({'id': 'kf', 'kind': 'keccakf', 'abstract': ['keccak.KeccakRound']})
        tasks.append({'kind': 'schedule', 'id': 'kf'})
        for n in lens:
            jobs.append({'id': 'k_%d' % n, 'kind': 'keccak', 'a': n, 'b': 0, 'abstract': ['keccak.KeccakF']})
            tasks.append({'kind': 'sponge', 'n': n, 'sha3': False, 'id': 'k_%d' % n})
        for n in sha_lens:
            jobs.append({'id': 's_%d' % n, 'kind': 'keccak', 'a': n, 'b': 1, 'abstract': ['keccak.KeccakF']})
            tasks.append({'kind': 'sponge', 'n': n, 'sha3': True, 'id': 's_%d' % n})
        # history: a hash after another hash over overlapping storage in the same circuit
        for n, k in ([(40, 16), (150, 8)] if not run.thorough else [(40, 16), (150, 8), (150, 140), (300, 136), (64, 0)]):
            jobs.append({'id': 'kh_%d_%d' % (n, k), 'kind': 'keccak_hist', 'a': n, 'b': k, 'abstract': ['keccak.KeccakF']})
            tasks.append({'kind': 'sponge', 'n': n, 'sha3': False, 'prefix': k, 'id': 'kh_%d_%d' % (n, k)})
        jobs.append({'id': 'sh_40_16', 'kind': 'keccak_hist', 'a': 40, 'b': -16, 'abstract': ['keccak.KeccakF']})
        tasks.append({'kind': 'sponge', 'n': 40, 'sha3': True, 'prefix': 16, 'id': 'sh_40_16'})
        t = time.time()
        paths = run_dump(jobs, procs=6)      # a multi-block sponge compile peaks at ~2.5 GB in gnark's builder
        run.log('compiled %d circuits in %.1fs' % (len(jobs), time.time() - t))
        for tk in tasks:
            tk['path'] = paths[tk['id']]
        # reference cross-validation (not deciding)
        import hashlib
        for m in (b'', b'abc', bytes(range(200)), bytes(rng.randrange(256) for _ in range(137))):
            if keccak_ref.sha3_256(m) != hashlib.sha3_256(m).digest():
                run.inconclusive.append('reference sponge disagrees with hashlib.sha3_256')
        tasks.sort(key=lambda t: 0 if t['kind'] == 'round' else 1)
        for tk, res in pool_map(keccak_check.run_task, tasks):
            if isinstance(res, Exception):
                run.inconclusive.append('task %s: %r' % (tk['id'], res))
                continue
            if res.get('error'):
                run.inconclusive.append('%s: %s' % (tk['id'], res['error']))
                continue
            for o in res['obls']:
                cex = o.pop('cex', None)
                ok = run.obligation(o['name'], o['verdict'], o['expect'], o['secs'], lift_s=res.get('lift_s'))
                if not ok and o['verdict'] == 'sat':
                    replay(run, tk, o, cex, paths, rng)
            if tk['kind'] != 'round' or tk.get('first'):
                run.log(tk['id'], tk['kind'], ' '.join('%s/%.1f' % (o['verdict'], o['secs']) for o in res['obls']))
        run.samples = [o for o in run.obls if 'lane' in o['name']][:2] + [o for o in run.obls if 'bytes' in o['name']][:3]
        run.assumptions += ['the sponge obligations treat KeccakF as an uninterpreted function (lock-step congruence); its meaning is supplied by the round lemma + schedule obligations of the same run',
                            'quick tier proves the round lemma for rounds %s only (thorough: all 24); the round gadget is the same code for every round, only the constant differs' % rounds,
                            'messages are whole bytes; InputSize == len(InputData)']
        run.finish(
            explanation='(1) For the selected rounds the real 11200-constraint R1CS of KeccakRound is lifted to Boolean functions and each of the 25 output lanes is proven equal (QF_BV unsat) to the reference round on '
                        '64-bit lanes with all 1600 state bits symbolic. (2) KeccakF is shown to chain 24 rounds in order with the standard constants. (3) For every listed message length and both domains, with all '
                        'message bits symbolic, the state entering every permutation call equals the reference pad10*1 sponge state and the 256 output bits are the first four lanes LSB-first; no constraint can fail.',
            trusted_base=['z3 5.1.0 (QF_BV/SAT)', 'gnark v0.8.0 frontend', 'engine/r2s lifter', 'keccak_ref.py (cross-checked against hashlib.sha3_256 and x/crypto at replay)'],
            functions=['keccak.KeccakRound/KeccakF/KeccakGadget/Xor5/Xor5Round/Xor/Rot/And/Not .DefineGadget', 'keccak.NewKeccak256', 'keccak.NewSHA3_256'],
            bounds='rounds %s; keccak-256 lengths (bytes) %s; sha3-256 lengths %s; all message contents' % (rounds, lens if len(lens) < 60 else '%d..%d every length + production lengths' % (lens[0], 545), sha_lens if len(sha_lens) < 40 else '0..139 + block boundaries'))
    main_guard(run, body)


def replay(run, tk, o, cex, paths, rng):
    try:
        if tk['kind'] == 'round':
            if cex:
                d = json.load(open(tk['path']))
                bad, failed = keccak_check.round_replay(d, cex)
                if bad:
                    run.violation('%s: the real round R1CS does not accept the reference round output for the model\'s state' % o['name'], {'round': cex['r'], 'state_bits': cex['state_bits'], 'failed': failed}, key='keccak-round')
                    return
            run.inconclusive.append(o['name'] + ': did not reproduce')
            return
        if tk['kind'] == 'schedule':
            run.inconclusive.append(o['name'] + ': structural mismatch (%s); see sponge obligations for a concrete digest' % cex)
            return
        n, sha3 = tk['n'], tk['sha3']
        msgs = []
        if cex and 'msg_bits' in cex:
            msgs.append(bytes(sum(cex['msg_bits'][8 * i + t] << t for t in range(8)) for i in range(n)))
        msgs += [bytes(rng.randrange(256) for _ in range(n)), b'\x00' * n, b'\xff' * n]
        H = keccak_ref.sha3_256 if sha3 else keccak_ref.keccak256
        bits = lambda bs: [(bs[i // 8] >> (i % 8)) & 1 for i in range(8 * len(bs))]
        for m in msgs:
            dg = H(m)
            if tk.get('prefix') is not None:
                ins = bits(m) + bits(H(m[:tk['prefix']])) + bits(dg)
                g = dumper_solve({'id': 'x', 'kind': 'keccak_hist', 'a': n, 'b': -tk['prefix'] if sha3 else tk['prefix']}, ins)
            else:
                ins = bits(m) + bits(dg)
                g = dumper_solve({'id': 'x', 'kind': 'keccak', 'a': n, 'b': 1 if sha3 else 0}, ins)
            if not g['solved']:
                run.violation('%s: gnark\'s solver rejects the real circuit on a %d-byte message with the standard %s digest' % (o['name'], n, 'SHA3-256' if sha3 else 'Keccak-256'),
                              {'message_hex': m.hex(), 'digest_hex': dg.hex(), 'sha3': sha3, 'gnark_error': g['error'][:300]}, key='keccak-digest')
                return
        run.inconclusive.append(o['name'] + ': did not reproduce on the real circuit')
    except (Inconclusive, Exception) as e:  # noqa
        run.inconclusive.append('%s: replay failed: %r' % (o['name'], e))


main()
