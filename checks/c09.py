"""C09: /prove status table for every method, body-decoding outcome and prover outcome (GOSYM on proveHandler.ServeHTTP, Error.send, Prove*)."""
from common import Run, main_guard
import driver, stubs

ANCHORS = ['server/server.go', 'prover/marshal.go', 'prover/insertion_proving_system.go', 'prover/deletion_proving_system.go']


def main():
    run = Run('C09', anchors=ANCHORS)

    def body():
        e = 'VerifHarness_C09_Handler'
        prog, secs = driver.load('server', 'server', ['c09_harness.go', 'c09_intr_sym.go'], [e])
        run.log('SSA of %d functions built in %.1fs' % (len(prog['funcs']), secs))
        stubs.HAVOC_BOUND['n'] = 3 if run.thorough else 2
        res, ex = driver.run_entry(run, prog, e, stubs.make_stubs(), loop_bound=16, max_paths=200000, trace_calls=(').ProveInsertion', ').ProveDeletion', 'Parameters).UnmarshalJSON'))
        run.log(e, run.extra['paths'].get(e), 'solver calls', ex.solver_calls, '%.1fs' % ex.solver_time)
        fails = [r for r in res if r.status in ('assert', 'panic')]
        seen = set()
        for r in fails:
            msg = r.info['msg'] if r.status == 'assert' else str(r.info)
            if msg in seen:
                continue
            seen.add(msg)
            hit = None
            for mode in ('deletion', 'insertion'):
                try:
                    failed, panicked, out = driver.replay_native('server', 'server', ['c09_native.go', 'deploy_native.go'], 'VerifHarness_C09_Native', {'str:mode': mode}, timeout=1500)
                except Exception as x:  # noqa
                    run.inconclusive.append('native replay failed to run: %r' % (x,))
                    continue
                if failed or panicked:
                    hit = (mode, failed, out)
                    break
            if hit:
                run.violation('%s: %s -- native run of the real handler (httptest, real proving system, %s mode) fails: %s' % (e, msg, hit[0], (hit[1] or ['panic'])[:3]),
                              {'harness': e, 'assertion': msg, 'mode': hit[0], 'native_failed': hit[1], 'native_output_tail': hit[2][-1500:]}, key='C09:' + msg[:50])
            else:
                run.inconclusive.append('%s: "%s" fails under the stub contracts but the native request scenarios pass' % (e, msg[:80]))
        run.assumptions += sorted(stubs.USED) + ['decoded parameter arrays have length <= %d; depth,batch <= 2' % stubs.HAVOC_BOUND['n'],
                                                  'that a 200 body verifies is C07 (+C10); liveness after a request = no shared writes (C13)']
        run.samples = run.obls[:4]
        run.finish(
            explanation='proveHandler.ServeHTTP is executed symbolically from go/ssa with a symbolic method string, an arbitrary body (io.ReadAll / encoding/json as nondeterministic contract stubs feeding the real '
                        'UnmarshalJSON, fromHex, ValidateShape, Prove*), and a recording ResponseWriter. On every path: one WriteHeader; non-POST -> 405 without body; unreadable/undecodable -> 400 malformed_body; '
                        'decoded but wrong dimensions / NewWitness or Prove failure -> 400 proving_error; otherwise 200 with the proof JSON; no path panics.',
            trusted_base=['z3', 'go/ssa', 'engine/gosym + listed stubs'],
            functions=['server.proveHandler.ServeHTTP', 'server.(*Error).send/MarshalJSON', 'server.malformedBodyError/provingError/unexpectedError', 'prover.(*InsertionParameters).UnmarshalJSON', 'prover.(*DeletionParameters).UnmarshalJSON', 'prover.(*ProvingSystem).ProveInsertion/ProveDeletion'],
            bounds='all methods; all decoder outcomes with array lengths <= %d; all prover outcomes; both modes' % stubs.HAVOC_BOUND['n'])
    main_guard(run, body)


main()
