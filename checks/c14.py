"""C14: graceful shutdown. Goroutine / channel / http.Server events are extracted from go/ssa of Run, spawnServerJob, SpawnJob, CombineJobs
(real code, symbolic execution), the interleavings are decided on a timestamp (partial-order) SMT encoding with net/http as a contract automaton."""
import json
from common import Run, main_guard, load_findings
import driver, stubs
from conc_model import Model

ANCHORS = ['server/job.go', 'server/server.go', 'main.go']
H = ['c14_harness.go', 'c14_intr_sym.go']


def main():
    run = Run('C14', level='model_checking', anchors=ANCHORS)

    def body():
        e = 'VerifHarness_C14_RunStop'
        prog, secs = driver.load('server', 'server', H, [e])
        run.log('SSA of %d functions built in %.1fs' % (len(prog['funcs']), secs))
        from gosym import Exec, Unsupported
        ex = Exec(prog, stubs.make_stubs(), loop_bound=12)
        full = [n for n in prog['funcs'] if n.endswith('.' + e)][0]
        try:
            res = ex.run(full)
            oks = [r for r in res if r.status == 'ok']
            if not oks or len(oks) != len(res):
                raise Unsupported('main thread of the harness has paths %s' % ([r.status for r in res],))
            finals = []
            for r in oks:
                finals += ex.run_threads(r)
        except Unsupported as x:
            run.inconclusive.append('event extraction unsupported: %s' % x)
            run.obligation('event extraction from go/ssa completes', 'unsupported', 'unsat', 0.0)
            run.finish('event extraction failed')
            return
        ks = [0, 1] if not run.thorough else [0, 1, 2, 3]
        states = transitions = 0
        cex = []
        outcomes = []
        for st in finals:
            evs = [ev for ev in st.events if ev[0] in ('cev', 'note')]
            if evs not in outcomes:
                outcomes.append(evs)
        nthreads = len(set(ev[1] for ev in outcomes[0] if ev[0] == 'cev'))
        run.log('extracted %d events of %d goroutines (%d distinct stub-outcome combinations)' % (len(outcomes[0]), nthreads, len(outcomes)))
        run.extra['extracted_events'] = [list(map(str, ev)) for ev in outcomes[0]]
        for oi, evs in enumerate(outcomes):
          for k in ks:
            m = Model(evs, k_requests=k)
            if getattr(m, 'deadlock_feasible', False):
                # the scenario (e.g. a dropped non-blocking send) must itself be schedulable for the deadlock to be real
                r, secs, s = m.solve([], 60)
                if r != 'sat':
                    continue
            states += len(m.T)
            transitions += len(m.cons)
            for pb in m.problems:
                run.obligation('k=%d structural: %s' % (k, pb), 'sat', 'unsat', 0.0)
                cex.append((k, pb, None, m))
            r, secs, s = m.solve([], 60)
            run.obligation('k=%d twin / deadlock freedom: a complete schedule exists and every wait has an unconditional wake-up' % k, r if not m.problems else 'unsat', 'sat', secs)
            if r == 'unsat' and not m.problems:
                cex.append((k, 'stop and wait never deadlock', None, m))
            for name, viol in m.properties():
                r, secs, s = m.solve([viol], 60)
                run.obligation('k=%d in-flight requests per server: %s' % (k, name), r, 'unsat', secs)
                if r == 'sat':
                    cex.append((k, name, m.schedule(s.model()), m))
        run.samples = [{'schedule': c[2][:40]} for c in cex if c[2]][:2] or [{'events': run.extra['extracted_events'][:12]}]
        # ---- replay of counterexample schedules on the real build (real sockets)
        seen = set()
        for k, name, sched, m in cex:
            scen = 'inflight' if ('request' in name or 'Shutdown' in name) else 'rebind'
            if scen in seen:
                continue
            seen.add(scen)
            try:
                failed, panicked, out = driver.replay_native('server', 'server', ['c14_native.go'], 'VerifHarness_C14_Native', {'str:scenario': scen}, timeout=900)
            except Exception as x:  # noqa
                run.inconclusive.append('native replay failed to run: %r' % (x,))
                continue
            if failed or panicked:
                run.violation('%s -- counterexample schedule found by the solver, reproduced on the real build (scenario %s): %s' % (name, scen, (sorted(set(failed)) or ['panic'])[:2]),
                              {'property': name, 'k': k, 'schedule': sched, 'native_scenario': scen, 'native_failed': sorted(set(failed)), 'native_output_tail': out[-1500:]},
                              key='C14:' + ('listener-bound-after-await' if scen == 'rebind' else 'inflight'))
            else:
                run.inconclusive.append('"%s": schedule exists in the model (k=%d) but the native %s scenario did not reproduce it in its time budget' % (name, k, scen))
        # conformance of the model with the real build when no counterexample exists: the native scenarios must pass
        if not cex:
            for scen in ['rebind', 'inflight']:
                try:
                    failed, panicked, out = driver.replay_native('server', 'server', ['c14_native.go'], 'VerifHarness_C14_Native', {'str:scenario': scen}, timeout=900)
                except Exception as x:  # noqa
                    run.inconclusive.append('native conformance run failed to start: %r' % (x,))
                    continue
                seen.add(scen)
                run.obligation('conformance: native scenario "%s" on the real build (real sockets) agrees with the model\'s verdict (not a solver obligation)' % scen, 'unsat' if not (failed or panicked) else 'sat', 'unsat', 0.0)
                if failed or panicked:
                    run.violation('the model proves the shutdown properties but the real build fails scenario %s: %s' % (scen, (sorted(set(failed)) or ['panic'])[:2]),
                                  {'native_scenario': scen, 'native_failed': sorted(set(failed)), 'native_output_tail': out[-1500:]}, key='C14:native-' + scen)
        run.assumptions += sorted(stubs.USED) + ['net/http contract automaton (ListenAndServe: check flag / bind / track / serve; Shutdown: flag+close tracked listeners, wait for in-flight; Close: immediate)',
                                                  'requests always finish; OS signal delivery and the kernel releasing a closed socket are outside the model',
                                                  'goroutines are straight-line and do not branch on received data (checked during extraction)']
        run.finish(
            explanation='The harness does what the CLI start command does (Run, RequestStop, AwaitStop). Symbolic execution of the real SSA extracts every goroutine with its channel and http.Server events; '
                        'an SMT timestamp encoding of all interleavings (complete for this loop-free code) with k in-flight requests per server decides: Shutdown returned, accepted requests completed, no listener '
                        'bound when AwaitStop returns, no double close, no deadlock.',
            trusted_base=['z3 (difference logic / LIA)', 'go/ssa', 'engine/gosym event extraction', 'net/http contract automaton'],
            functions=['server.SpawnJob', 'server.CombineJobs', 'server.spawnServerJob', 'server.Run', 'server.(*RunningJob).RequestStop/AwaitStop'],
            bounds='k = %s in-flight requests per server; all interleavings' % ks,
            coverage_extra={'states': max(states, 1), 'transitions': max(transitions, 1), 'traces_validated_against_impl': len(seen)})
    main_guard(run, body)


main()
