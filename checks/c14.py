"""C14: graceful shutdown. Goroutine / channel / http.Server events are extracted from go/ssa of Run, spawnServerJob, SpawnJob, CombineJobs
(real code, symbolic execution), the interleavings are decided on a timestamp (partial-order) SMT encoding with net/http as a contract automaton."""
import json
from common import Run, main_guard, load_findings
from gosym import Unsupported, NIL as NIL_
import driver, stubs
from conc_model import Model

ANCHORS = ['server/job.go', 'server/server.go', 'main.go']
H = ['c14_harness.go', 'c14_intr_sym.go']


def native_sigint(run):
    """build the binary, start the server, put a request in flight, send SIGINT twice during the drain: the request must get its 200 and
    the process must exit with status 0"""
    import os, signal, socket, subprocess, tempfile, time
    from common import REPO, GOENV, scratch
    d = tempfile.mkdtemp(prefix='sig_', dir=scratch())
    exe = os.path.join(d, 'gnark-mbu')
    out = {'failed': [], 'log': []}
    p = subprocess.run(['go', 'build', '-o', exe, '.'], cwd=REPO, env=GOENV, stdout=subprocess.PIPE, stderr=subprocess.STDOUT, text=True)
    if p.returncode:
        out['log'].append('build failed: ' + p.stdout[-400:])
        return out
    keys = os.path.join(d, 'keys')
    q = subprocess.run([exe, 'setup', '--mode', 'deletion', '--output', keys, '--tree-depth', '2', '--batch-size', '1'], cwd=d, stdout=subprocess.PIPE, stderr=subprocess.PIPE, text=True, timeout=600)
    body = subprocess.run([exe, 'gen-test-params', '--mode', 'deletion', '--tree-depth', '2', '--batch-size', '1'], cwd=d, stdout=subprocess.PIPE, stderr=subprocess.PIPE, text=True, timeout=600).stdout.strip().encode()
    if q.returncode or not body.startswith(b'{'):
        out['log'].append('setup / gen-test-params failed')
        return out

    def free():
        s_ = socket.socket()
        s_.bind(('127.0.0.1', 0))
        a = s_.getsockname()[1]
        s_.close()
        return a
    pa, ma = free(), free()
    srv = subprocess.Popen([exe, 'start', '--mode', 'deletion', '--keys-file', keys, '--prover-address', '127.0.0.1:%d' % pa, '--metrics-address', '127.0.0.1:%d' % ma], cwd=d, stdout=subprocess.PIPE, stderr=subprocess.PIPE)
    try:
        conn = None
        for _ in range(200):
            try:
                conn = socket.create_connection(('127.0.0.1', pa), timeout=2)
                break
            except OSError:
                time.sleep(0.1)
        if conn is None:
            out['log'].append('server did not come up')
            return out
        half = len(body) // 2
        conn.sendall(b'POST /prove HTTP/1.1\r\nHost: x\r\nContent-Type: application/json\r\nContent-Length: %d\r\n\r\n' % len(body) + body[:half])
        time.sleep(0.6)
        srv.send_signal(signal.SIGINT)
        time.sleep(1.0)
        if srv.poll() is None:
            srv.send_signal(signal.SIGINT)         # an impatient operator
        time.sleep(1.0)
        resp = b''
        try:
            conn.sendall(body[half:])
            conn.settimeout(120)
            while True:
                chunk = conn.recv(65536)
                if not chunk:
                    break
                resp += chunk
        except OSError as x:
            out['log'].append('socket: %r' % (x,))
        ok = resp.startswith(b'HTTP/1.1 200') and b'"ar"' in resp
        out['log'].append('response: %r' % resp[:60])
        if not ok:
            out['failed'].append('the request accepted before the stop receives its full 200 response')
        try:
            rc = srv.wait(timeout=120)
        except subprocess.TimeoutExpired:
            rc = None
        out['log'].append('exit status %r' % (rc,))
        if rc != 0:
            out['failed'].append('the process exits with status 0 after the drain (got %r)' % (rc,))
    finally:
        if srv.poll() is None:
            srv.kill()
    return out


def main():
    run = Run('C14', level='model_checking', anchors=ANCHORS)

    def body():
        e = 'VerifHarness_C14_RunStop'
        prog, secs = driver.load('server', 'server', H, [e])
        run.log('SSA of %d functions built in %.1fs' % (len(prog['funcs']), secs))
        from gosym import Exec, Unsupported
        ex = Exec(prog, stubs.make_stubs(), loop_bound=12)
        full = [n for n in prog['funcs'] if n.endswith('.' + e)][0]
        try:
            res = ex.run(full)
            oks = [r for r in res if r.status == 'ok']
            if not oks or len(oks) != len(res):
                raise Unsupported('main thread of the harness has paths %s' % ([r.status for r in res],))
            finals = []
            for r in oks:
                finals += ex.run_threads(r)
        except Unsupported as x:
            run.inconclusive.append('event extraction unsupported: %s' % x)
            run.obligation('event extraction from go/ssa completes', 'unsupported', 'unsat', 0.0)
            run.finish('event extraction failed')
            return
        ks = [0, 1] if not run.thorough else [0, 1, 2, 3]
        states = transitions = 0
        cex = []
        outcomes = []
        for st in finals:
            evs = [ev for ev in st.events if ev[0] in ('cev', 'note')]
            if evs not in outcomes:
                outcomes.append(evs)
        nthreads = len(set(ev[1] for ev in outcomes[0] if ev[0] == 'cev'))
        run.log('extracted %d events of %d goroutines (%d distinct stub-outcome combinations)' % (len(outcomes[0]), nthreads, len(outcomes)))
        run.extra['extracted_events'] = [list(map(str, ev)) for ev in outcomes[0]]
        for oi, evs in enumerate(outcomes):
          for k in ks:
            m = Model(evs, k_requests=k)
            if getattr(m, 'deadlock_feasible', False):
                # the scenario (e.g. a dropped non-blocking send) must itself be schedulable for the deadlock to be real
                r, secs, s = m.solve([], 60)
                if r != 'sat':
                    continue
            states += len(m.T)
            transitions += len(m.cons)
            for pb in m.problems:
                run.obligation('k=%d structural: %s' % (k, pb), 'sat', 'unsat', 0.0)
                cex.append((k, pb, None, m))
            r, secs, s = m.solve([], 60)
            run.obligation('k=%d twin / deadlock freedom: a complete schedule exists and every wait has an unconditional wake-up' % k, r if not m.problems else 'unsat', 'sat', secs)
            if r == 'unsat' and not m.problems:
                cex.append((k, 'stop and wait never deadlock', None, m))
            for name, viol in m.properties():
                r, secs, s = m.solve([viol], 60)
                run.obligation('k=%d in-flight requests per server: %s' % (k, name), r, 'unsat', secs)
                if r == 'sat':
                    cex.append((k, name, m.schedule(s.model()), m))
        run.samples = [{'schedule': c[2][:40]} for c in cex if c[2]][:2] or [{'events': run.extra['extracted_events'][:12]}]
        # ---- replay of counterexample schedules on the real build (real sockets)
        seen = set()
        for k, name, sched, m in cex:
            scen = 'inflight' if ('request' in name or 'Shutdown' in name) else 'rebind'
            if scen in seen:
                continue
            seen.add(scen)
            try:
                failed, panicked, out = driver.replay_native('server', 'server', ['c14_native.go'], 'VerifHarness_C14_Native', {'str:scenario': scen}, timeout=900)
            except Exception as x:  # noqa
                run.inconclusive.append('native replay failed to run: %r' % (x,))
                continue
            if failed or panicked:
                run.violation('%s -- counterexample schedule found by the solver, reproduced on the real build (scenario %s): %s' % (name, scen, (sorted(set(failed)) or ['panic'])[:2]),
                              {'property': name, 'k': k, 'schedule': sched, 'native_scenario': scen, 'native_failed': sorted(set(failed)), 'native_output_tail': out[-1500:]},
                              key='C14:' + ('listener-bound-after-await' if scen == 'rebind' else 'inflight'))
            else:
                run.inconclusive.append('"%s": schedule exists in the model (k=%d) but the native %s scenario did not reproduce it in its time budget' % (name, k, scen))
        # conformance of the model with the real build when no counterexample exists: the native scenarios must pass
        if not cex:
            for scen in ['rebind', 'inflight']:
                try:
                    failed, panicked, out = driver.replay_native('server', 'server', ['c14_native.go'], 'VerifHarness_C14_Native', {'str:scenario': scen}, timeout=900)
                except Exception as x:  # noqa
                    run.inconclusive.append('native conformance run failed to start: %r' % (x,))
                    continue
                seen.add(scen)
                run.obligation('conformance: native scenario "%s" on the real build (real sockets) agrees with the model\'s verdict (not a solver obligation)' % scen, 'unsat' if not (failed or panicked) else 'sat', 'unsat', 0.0)
                if failed or panicked:
                    run.violation('the model proves the shutdown properties but the real build fails scenario %s: %s' % (scen, (sorted(set(failed)) or ['panic'])[:2]),
                                  {'native_scenario': scen, 'native_failed': sorted(set(failed)), 'native_output_tail': out[-1500:]}, key='C14:native-' + scen)
        # ---- the command-line server (main.go: start, start-from-s3): SIGINT stays handled until waiting-for-stop has returned
        cli_findings = []
        try:
            import cli_model
            progm = cli_model.load_main()
            smm, table, flagdefs, _ = cli_model.command_table(progm)
            for cmd in [c for c in ('start', 'start-from-s3') if c in table]:
                rs, exc = cli_model.run_command(progm, smm, table, flagdefs, cmd)
                good = [r for r in rs if r.status == 'ok' and (r.ret is NIL_ or r.ret is None)]
                badp = [r for r in rs if r.status not in ('ok', 'infeasible')]
                if badp or exc.incomplete:
                    run.inconclusive.append('%s: %s' % (cmd, exc.incomplete or ('path ends with %s: %s' % (badp[0].status, str(badp[0].info)[:150]))))
                    continue

                def order_ok(r):
                    names = [e[1] for e in r.state.events if e[0] == 'api']
                    if 'server.Run' not in names or 'RequestStop' not in names or 'AwaitStop' not in names or 'signal.Subscribe' not in names:
                        return False
                    i_run, i_sub, i_req, i_aw = names.index('server.Run'), names.index('signal.Subscribe'), names.index('RequestStop'), names.index('AwaitStop')
                    if not (i_sub < i_req < i_aw and i_run < i_req):
                        return False
                    return not any(n == 'signal.Unsubscribe' and i < i_aw for i, n in enumerate(names))
                viol = [r for r in good if not order_ok(r)]
                run.obligation('%s: on every successful path the server is run, SIGINT is subscribed to before the stop is requested, and the subscription is kept until waiting-for-stop has returned '
                               '(a repeated SIGINT during the drain cannot terminate the process) (%d paths)' % (cmd, len(good)), 'unsat' if not viol and good else ('sat' if viol else 'unknown'), 'unsat', 0.0)
                if viol:
                    cli_findings.append(cmd)
        except Unsupported as x:
            run.inconclusive.append('command-line server: unsupported by the encoder: %s' % x)
        if cli_findings:
            out = native_sigint(run)
            if out['failed']:
                run.violation('%s: the SIGINT subscription is dropped before the drain has finished -- reproduced with the built binary: %s' % (cli_findings[0], out['failed'][:2]),
                              {'commands': cli_findings, 'native': out}, key='C14:sigint')
            else:
                run.inconclusive.append('%s: SIGINT handling differs from the model but the native double-SIGINT scenario behaves: %s' % (cli_findings[0], out['log'][-2:]))
        run.assumptions += sorted(stubs.USED) + ['net/http contract automaton (ListenAndServe: check flag / bind / track / serve; Shutdown: flag+close tracked listeners, wait for in-flight; Close: immediate)',
                                                  'requests always finish; OS signal delivery and the kernel releasing a closed socket are outside the model',
                                                  'goroutines are straight-line and do not branch on received data (checked during extraction)']
        run.finish(
            explanation='The harness does what the CLI start command does (Run, RequestStop, AwaitStop). Symbolic execution of the real SSA extracts every goroutine with its channel and http.Server events; '
                        'an SMT timestamp encoding of all interleavings (complete for this loop-free code) with k in-flight requests per server decides: Shutdown returned, accepted requests completed, no listener '
                        'bound when AwaitStop returns, no double close, no deadlock.',
            trusted_base=['z3 (difference logic / LIA)', 'go/ssa', 'engine/gosym event extraction', 'net/http contract automaton'],
            functions=['server.SpawnJob', 'server.CombineJobs', 'server.spawnServerJob', 'server.Run', 'server.(*RunningJob).RequestStop/AwaitStop'],
            bounds='k = %s in-flight requests per server; all interleavings' % ks,
            coverage_extra={'states': max(states, 1), 'transitions': max(transitions, 1), 'traces_validated_against_impl': len(seen)})
    main_guard(run, body)


main()
