"""C11 (round trip of proving-system files) and C15 (truncated files) share one engine run; this script serves both ids."""
import sys
from common import Run, main_guard
import driver, stubs


def main(pid):
    run = Run(pid, anchors=['prover/marshal.go', 'main.go'])

    def body():
        entries = ['VerifHarness_C11_RoundTrip'] if pid == 'C11' else ['VerifHarness_C15_TruncatedReader', 'VerifHarness_C15_TruncatedFile']
        H = ['c11_harness.go', 'c11_intr_sym.go', 'c07_intr_sym.go']
        prog, secs = driver.load('prover', 'prover', H, entries)
        run.log('SSA of %d functions built in %.1fs' % (len(prog['funcs']), secs))
        anyfail = []
        for e in entries:
            res, ex = driver.run_entry(run, prog, e, stubs.make_stubs(), loop_bound=12)
            run.log(e, run.extra['paths'].get(e), 'solver calls', ex.solver_calls)
            for r in res:
                if r.status in ('assert', 'panic'):
                    anyfail.append((e, r.info['msg'] if r.status == 'assert' else str(r.info), r, ex))
        seen = set()
        native = None
        for e, msg, r, ex in anyfail:
            if msg in seen:
                continue
            seen.add(msg)
            if native is None:
                try:
                    d0 = driver.model_draws(r.state, r.info['model']) if r.status == 'assert' else {}
                    native = driver.replay_native('prover', 'prover', ['c11_native.go'], 'VerifHarness_C11_Native', {k: v for k, v in d0.items() if k in ('depth', 'batch')}, timeout=2400)
                except Exception as x:  # noqa
                    run.inconclusive.append('native replay failed to run: %r' % (x,))
                    break
            failed, panicked, out = native
            rel = [f for f in failed if ('prefix' in f) == (pid == 'C15')] or failed
            if failed or panicked:
                draws = driver.model_draws(r.state, r.info['model']) if r.status == 'assert' else {}
                run.violation('%s: %s -- native run on a real proving-system file fails: %s' % (e, msg, (rel or ['panic'])[:3]),
                              {'harness': e, 'assertion': msg, 'symbolic_draws': draws, 'native_failed': failed, 'native_output_tail': out[-1200:]}, key='%s:%s' % (pid, msg[:50]))
            else:
                run.inconclusive.append('%s: "%s" fails under the section contracts but the native file scenarios pass' % (e, msg[:80]))
        if pid == 'C15':
            # callers: the commands that load a keys file stop when loading fails (they never go on with the half-loaded system)
            try:
                import cli_model
                from gosym import Unsupported
                stubs.HAVOC_BOUND['n'] = 0        # the decoded parameters play no role in this rule: empty arrays keep the path count small
                progm = cli_model.load_main()
                smm, table, flagdefs, _ = cli_model.command_table(progm)
                hl = cli_model.half_loaded_rule(run, progm, smm, table, flagdefs, [c for c in ('prove', 'verify', 'start') if c in table])
                if hl:
                    o2 = cli_model.native_truncated_cli()
                    if o2['failed']:
                        run.violation('%s: goes on to %s with a proving system whose loading failed -- reproduced with the built binary: %s' % (hl[0][0], hl[0][1], o2['failed'][:2]),
                                      {'findings': hl, 'native': o2}, key='C15:half-loaded-caller')
                    else:
                        run.inconclusive.append('%s uses the system after a failed load (%s) but the built binary behaves on truncated files' % hl[0])
            except Unsupported as x:
                run.inconclusive.append('command-line callers: unsupported by the encoder: %s' % x)
        run.assumptions += sorted(stubs.USED) + ['gnark key/constraint-system serialisers are opaque sections (contract), validated natively on a real file at replay']
        run.samples = run.obls[:4]
        if pid == 'C11':
            expl = ('WriteTo/WriteRawTo/UnsafeReadFrom are executed symbolically from go/ssa over a token stream: for all (depth,batch) in uint32^2 (real PutUint32/Uint32 bit-vector semantics) the reloaded '
                    'depth/batch equal the originals, and the three sections are written and read in the same order depth,batch,pk,vk,cs in both formats; convert-to-raw = read then WriteRawTo.')
        else:
            expl = ('UnsafeReadFrom and ReadSystemFromFile (with its deferred Close handler) are executed symbolically on a file of 8+n1+n2+n3 bytes (section sizes symbolic) cut at every symbolic offset c < total: '
                    'the result is always a non-nil error, whichever error (io.EOF included) the truncated section reader reports and whether Close fails or not.')
        run.finish(explanation=expl, trusted_base=['z3', 'go/ssa', 'engine/gosym + listed stubs'],
                   functions=['prover.(*ProvingSystem).WriteTo/WriteRawTo/UnsafeReadFrom', 'prover.ReadSystemFromFile'],
                   bounds='all uint32 depth/batch; all cut offsets and section sizes; both formats')
    main_guard(run, body)


if __name__ == '__main__':
    main('C11')
