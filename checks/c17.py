"""C17: the committed Lean model is what extraction produces now at (30,4). Both texts are parsed (LEANM) and compared definition by
definition in SMT with uninterpreted gates (equivalent iff no interpretation of the gates separates them); referenced identifiers exist;
the extract-circuit command writes exactly the extraction result into a truncated file."""
import difflib, glob, os, re, subprocess, sys, tempfile, time
import z3
from common import Run, main_guard, REPO, GOENV, scratch, build_go, sh
import common
sys.path.insert(0, os.path.join(common.VERIF, 'engine', 'leanm'))
import leanm

ANCHORS = ['prover/extractor.go', 'prover/circuit_utils.go', 'prover/keccak/keccak.go', 'prover/poseidon/poseidon.go', 'formal-verification/FormalVerification.lean', 'formal-verification/Main.lean', 'main.go']


def main():
    run = Run('C17', level='translation_validation', anchors=ANCHORS)

    def body():
        exe = os.path.join(scratch(), 'r2sdump')
        if not os.path.exists(exe):
            build_go('engine/r2s/dump', 'r2sdump')
        fresh_path = os.path.join(scratch(), 'fresh.lean')
        p = sh([exe, 'lean', '30', '4', fresh_path], check=False, timeout=900)
        if p.returncode:
            run.inconclusive.append('ExtractLean(30,4) failed: ' + p.stderr[-300:])
            run.finish('extraction failed')
            return
        fresh_txt = open(fresh_path).read()
        p2 = sh([exe, 'lean', '30', '4', fresh_path + '.2'], check=False, timeout=900)
        again = open(fresh_path + '.2').read()
        run.obligation('two extractions in fresh processes give the same text (supplementary concrete check)', 'unsat' if again == fresh_txt else 'sat', 'unsat', 0.0)
        comm_path = os.path.join(REPO, 'formal-verification', 'FormalVerification.lean')
        comm_txt = open(comm_path).read()
        try:
            cd, chdr = leanm.parse_file(comm_txt)
            fd, fhdr = leanm.parse_file(fresh_txt)
        except SyntaxError as x:
            run.inconclusive.append('Lean model does not parse: %s' % x)
            run.finish('parse error')
            return
        findings = []
        run.obligation('the committed model and the fresh extraction define the same %d names in the same order' % len(fd), 'unsat' if list(cd) == list(fd) else 'sat', 'unsat', 0.0,
                       only_committed=sorted(set(cd) - set(fd))[:5], only_fresh=sorted(set(fd) - set(cd))[:5])
        if list(cd) != list(fd):
            findings.append('definition sets differ: only in committed %s, only in fresh %s' % (sorted(set(cd) - set(fd))[:4], sorted(set(fd) - set(cd))[:4]))
        run.obligation('preamble (imports, namespace, field order declaration) identical', 'unsat' if chdr == fhdr else 'sat', 'unsat', 0.0)
        if chdr != fhdr:
            findings.append('preamble differs')
        encc, encf = leanm.Enc(cd), leanm.Enc(fd)
        encf.fn, encf.nil = encc.fn, encc.nil     # same uninterpreted symbols on both sides
        ndiff = 0
        samples = []
        for name in fd:
            if name not in cd:
                continue
            t = time.time()
            try:
                if [(n, str(ty)) for n, ty in cd[name].params] != [(n, str(ty)) for n, ty in fd[name].params]:
                    r = 'sat'
                    why = 'signature differs'
                else:
                    a, b = encc.encode(cd[name]), encf.encode(fd[name])
                    s = z3.Solver()
                    s.set('timeout', 120000)
                    s.add(a != b)
                    r = str(s.check())
                    why = 'bodies separable'
            except SyntaxError as x:
                r, why = 'parse-error', str(x)
            ok = run.obligation('definition %s: committed <=> freshly extracted (gates uninterpreted)' % name, r, 'unsat', time.time() - t)
            if len(samples) < 3:
                samples.append({'definition': name, 'verdict': r, 'committed_head': cd[name].text[:160]})
            if r == 'sat':
                ndiff += 1
                findings.append('definition %s differs (%s)' % (name, why))
        # identifiers used by the proofs exist in the model
        used = set()
        for f in [os.path.join(REPO, 'formal-verification', 'Main.lean')] + glob.glob(os.path.join(REPO, 'formal-verification', 'FormalVerification', '*.lean')):
            used |= set(re.findall(r'SemaphoreMTB\.([A-Za-z_][A-Za-z0-9_]*)', open(f).read()))
        known = set(fd) | {'F', 'Order'}
        missing = sorted(u for u in used if u not in known)
        run.obligation('every SemaphoreMTB.* identifier used by the proof files (%d) is defined by the current extraction' % len(used), 'unsat' if not missing else 'sat', 'unsat', 0.0, missing=missing[:8])
        if missing:
            findings.append('proof files refer to definitions that extraction no longer produces: %s' % missing[:5])
        # the CLI command writes the extraction result into a truncated file (history independence of the generated model)
        cli_ok, cli_info = cli_extract(run, fresh_txt)
        run.obligation('extract-circuit over an existing longer file leaves exactly the extraction result (supplementary concrete check of the CLI path)', 'unsat' if cli_ok else 'sat', 'unsat', 0.0, info=cli_info)
        if not cli_ok:
            findings.append('extract-circuit does not leave exactly the extracted model in the output file: %s' % cli_info)
        run.samples = samples
        if findings:
            # replay = the concrete texts: show where the committed file and the current extraction differ
            diff = list(difflib.unified_diff(comm_txt.splitlines(), fresh_txt.splitlines(), 'committed FormalVerification.lean', 'ExtractLean(30,4) now', lineterm='', n=0))
            if diff or not cli_ok or missing:
                run.violation('%s -- reproduced concretely: %s' % (findings[0], ('%d differing lines between the committed model and the current extraction' % len([l for l in diff if l[:1] in '+-' and l[:3] not in ('+++', '---')])) if diff else cli_info or missing),
                              {'findings': findings, 'diff_head': [l[:300] for l in diff[:40]], 'cli': cli_info}, key='C17:' + findings[0][:40])
            else:
                run.inconclusive.append('semantic difference reported (%s) but the texts are identical: encoder problem' % findings[0])
        run.assumptions += ['gate and gadget semantics are uninterpreted: equivalence is decided up to renaming/reordering that every interpretation respects (stronger than needed)',
                            'extractor determinism across processes is only sampled (two fresh processes); Lean def <=> R1CS is not claimed here (C01-C06 cover the R1CS)']
        run.finish(
            explanation='The model extracted now by prover.ExtractLean(30,4) and the committed FormalVerification.lean are parsed; for each of the %d definitions the SMT query "committed(args) != fresh(args)" with every '
                        'gate and gadget uninterpreted must be unsat; names, order, signatures, preamble, and the identifiers the proof files use are compared; the CLI extraction path is exercised over a stale file.' % len(fd),
            trusted_base=['z3 (EUF)', 'engine/leanm parser', 'gnark-lean-extractor as the extraction tool under test'],
            functions=['prover.ExtractLean', 'every DefineGadget reached by it', 'main.go extract-circuit'],
            bounds='dimensions (30,4) as committed',
            coverage_extra={'programs': len(fd), 'disagreements_checked': ndiff})
    main_guard(run, body)


def cli_extract(run, fresh_txt):
    d = tempfile.mkdtemp(prefix='c17_', dir=scratch())
    exe = os.path.join(d, 'gnark-mbu')
    p = subprocess.run(['go', 'build', '-o', exe, '.'], cwd=REPO, env=GOENV, stdout=subprocess.PIPE, stderr=subprocess.STDOUT, text=True)
    if p.returncode:
        return False, 'build failed: ' + p.stdout[-300:]
    out = os.path.join(d, 'FormalVerification.lean')
    open(out, 'w').write(fresh_txt + '\n-- stale tail from a previous, longer model\n' * 50)
    q = subprocess.run([exe, 'extract-circuit', '--output', out, '--tree-depth', '30', '--batch-size', '4'], stdout=subprocess.PIPE, stderr=subprocess.PIPE, text=True, cwd=d)
    if q.returncode:
        return False, 'extract-circuit exited %d' % q.returncode
    got = open(out).read()
    if got != fresh_txt:
        return False, 'file has %d bytes, extraction result %d bytes' % (len(got), len(fresh_txt))
    return True, ''


main()
