"""C16: parameter JSON round-trips exactly and rejects non-numbers (GOSYM on the real Marshal/UnmarshalJSON, fromHex, toHex)."""
from common import Run, main_guard
import driver, stubs

ANCHORS = ['prover/marshal.go']
HARNESS = ['c16_harness.go']


def main():
    run = Run('C16', anchors=ANCHORS)

    def body():
        entries = ['VerifHarness_C16_InsertionRoundTrip', 'VerifHarness_C16_DeletionRoundTrip', 'VerifHarness_C16_InsertionStrict', 'VerifHarness_C16_DeletionStrict']
        prog, secs = driver.load('prover', 'prover', HARNESS, entries + ['VerifHarness_C16_IndexRange'])
        run.log('SSA of %d functions built in %.1fs' % (len(prog['funcs']), secs))
        stubs.PARAMS['maxlen'] = 3 if run.thorough else 2
        sm = stubs.make_stubs()
        for e in entries:
            res, ex = driver.run_entry(run, prog, e, sm, loop_bound=16, max_paths=200000)
            run.log(e, run.extra['paths'].get(e), 'solver calls', ex.solver_calls, '%.1fs' % ex.solver_time)
            driver.report(run, ex, 'prover', 'prover', HARNESS, e, res)
        # structural obligation on the mirror structs that encoding/json decodes into: index fields are 32-bit unsigned, so json rejects larger numbers
        def ftype(struct, field):
            tid = prog_types.get('worldcoin/gnark-mbu/prover.' + struct)
            if tid is None:
                return None
            t = prog['types'][prog['types'][tid]['under']]
            for f in t['fields']:
                if f['name'] == field:
                    return prog['types'][f['type']]
            return None
        prog_types = {t['str']: i for i, t in enumerate(prog['types']) if t}
        a = ftype('InsertionParametersJSON', 'StartIndex')
        b = ftype('DeletionParametersJSON', 'DeletionIndices')
        okw = bool(a and a.get('basic') == 'int' and a.get('bits') == 32 and not a.get('signed') and b and b['kind'] == 'slice' and prog['types'][b['elem']].get('bits') == 32
                   and not prog['types'][b['elem']].get('signed'))
        run.obligation('index fields of the JSON mirror structs are uint32 (so encoding/json rejects indices outside 32 bits)', 'unsat' if okw else 'sat', 'unsat', 0.0)
        if not okw:
            failed, panicked, out = driver.replay_native('prover', 'prover', HARNESS, 'VerifHarness_C16_IndexRange', {})
            if failed:
                run.violation('an index outside 32 bits is decoded without error: %s' % failed, {'harness': 'VerifHarness_C16_IndexRange', 'failed': failed, 'native_output_tail': out[-800:]}, key='C16:index-range')
            else:
                run.inconclusive.append('mirror struct index type changed but out-of-range indices are still rejected natively')
        run.assumptions += sorted(stubs.USED) + ['array lengths <= %d (ragged proofs and empty arrays included); values < 2^256' % stubs.PARAMS['maxlen'],
                                                  'uint32 range of indices and JSON syntax are encoding/json\'s contract (not re-verified)']
        run.samples = run.obls[:4]
        run.finish(
            explanation='Insertion/DeletionParameters MarshalJSON/UnmarshalJSON, toHex and fromHex are executed symbolically from go/ssa. Round trip: Unmarshal(Marshal(p)) == p field by field for symbolic lengths '
                        'and all 256-bit values. Strictness: with arbitrary (opaque) strings in every numeric position, decoding succeeds iff all of them are numbers (uninterpreted isNumber/numval = big.Int.SetString(s,0)) and yields their values.',
            trusted_base=['z3 (QF_ABV + strings + UF)', 'go/ssa', 'engine/gosym + listed stubs'],
            functions=['prover.(*InsertionParameters).MarshalJSON/UnmarshalJSON', 'prover.(*DeletionParameters).MarshalJSON/UnmarshalJSON', 'prover.toHex', 'prover.fromHex'],
            bounds='array lengths 0..%d; all values' % stubs.PARAMS['maxlen'])
    main_guard(run, body)


main()
