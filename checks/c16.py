"""C16: parameter JSON round-trips exactly and rejects non-numbers (GOSYM on the real Marshal/UnmarshalJSON, fromHex, toHex)."""
from common import Run, main_guard
import driver, stubs

ANCHORS = ['prover/marshal.go']
HARNESS = ['c16_harness.go']


def main():
    run = Run('C16', anchors=ANCHORS)

    def body():
        entries = ['VerifHarness_C16_InsertionRoundTrip', 'VerifHarness_C16_DeletionRoundTrip', 'VerifHarness_C16_InsertionStrict', 'VerifHarness_C16_DeletionStrict']
        prog, secs = driver.load('prover', 'prover', HARNESS, entries)
        run.log('SSA of %d functions built in %.1fs' % (len(prog['funcs']), secs))
        stubs.PARAMS['maxlen'] = 3 if run.thorough else 2
        sm = stubs.make_stubs()
        for e in entries:
            res, ex = driver.run_entry(run, prog, e, sm, loop_bound=6, max_paths=20000)
            run.log(e, run.extra['paths'].get(e), 'solver calls', ex.solver_calls, '%.1fs' % ex.solver_time)
            driver.report(run, ex, 'prover', 'prover', HARNESS, e, res)
        run.assumptions += sorted(stubs.USED) + ['array lengths <= %d (ragged proofs and empty arrays included); values < 2^256' % stubs.PARAMS['maxlen'],
                                                  'uint32 range of indices and JSON syntax are encoding/json\'s contract (not re-verified)']
        run.samples = run.obls[:4]
        run.finish(
            explanation='Insertion/DeletionParameters MarshalJSON/UnmarshalJSON, toHex and fromHex are executed symbolically from go/ssa. Round trip: Unmarshal(Marshal(p)) == p field by field for symbolic lengths '
                        'and all 256-bit values. Strictness: with arbitrary (opaque) strings in every numeric position, decoding succeeds iff all of them are numbers (uninterpreted isNumber/numval = big.Int.SetString(s,0)) and yields their values.',
            trusted_base=['z3 (QF_ABV + strings + UF)', 'go/ssa', 'engine/gosym + listed stubs'],
            functions=['prover.(*InsertionParameters).MarshalJSON/UnmarshalJSON', 'prover.(*DeletionParameters).MarshalJSON/UnmarshalJSON', 'prover.toHex', 'prover.fromHex'],
            bounds='array lengths 0..%d; all values' % stubs.PARAMS['maxlen'])
    main_guard(run, body)


main()
