"""C20: request metrics account for every /prove response exactly once. The middleware wiring built by server.Run and
serveMuxWithMetrics.Handle is extracted by symbolic execution of the real SSA (promhttp/promauto/prometheus as tagged opaque constructors);
the extracted handler chain is interpreted under the documented promhttp contracts and an SMT query over all request histories <= N asks for
a (method, code) whose counter differs from the tally of responses."""
import collections, time
import z3
from common import Run, main_guard
import driver, stubs
from gosym import Exec, Unsupported, Opaque, Iface, Ptr, Struct, Slice, Str

ANCHORS = ['server/wrapped_http/serve_mux.go', 'server/server.go']


def lit(s):
    if isinstance(s, Str) and s.num is None:
        z = z3.simplify(s.z)
        if z3.is_string_value(z):
            return z.as_string()
    return None


def callee(o):
    return o.callee.split('/')[-1] if isinstance(o, Opaque) and o.tag == 'ext' else None


def unw(v):
    return v.v if isinstance(v, Iface) else v


def main():
    run = Run('C20', level='model_checking', anchors=ANCHORS)

    def body():
        e = 'VerifHarness_C14_RunStop'
        prog, secs = driver.load('server', 'server', ['c14_harness.go', 'c09_harness.go', 'c09_intr_sym.go'], [e, 'VerifHarness_C09_Handler'])
        run.log('SSA of %d functions built in %.1fs' % (len(prog['funcs']), secs))
        ex = Exec(prog, stubs.make_stubs(), loop_bound=12)
        full = [n for n in prog['funcs'] if n.endswith('.' + e)][0]
        try:
            res = ex.run(full)
            oks = [r for r in res if r.status == 'ok']
            if len(oks) != 1 or len(res) != 1:
                raise Unsupported('Run has paths %s' % [r.status for r in res])
            st = ex.run_threads(oks[0])[0]
        except Unsupported as x:
            run.inconclusive.append('wiring extraction unsupported: %s' % x)
            run.obligation('wiring extraction completes', 'unsupported', 'unsat', 0.0)
            run.finish('wiring extraction failed')
            return
        T = {t['str']: i for i, t in enumerate(prog['types']) if t}
        srv_t = prog['types'][prog['types'][T['net/http.Server']]['under']] if prog['types'][T['net/http.Server']]['kind'] == 'named' else prog['types'][T['net/http.Server']]
        fidx = {f['name']: i for i, f in enumerate(srv_t['fields'])}
        servers, deadlines = {}, {}
        for ev in st.events:
            if ev[0] == 'cev' and ev[2] == 'las':
                sid = ev[3]
                sv = st.heap[sid[1]]
                servers[lit(sv.f[fidx['Addr']])] = sv.f[fidx['Handler']]
                deadlines[lit(sv.f[fidx['Addr']])] = {k: z3.simplify(sv.f[fidx[k]]) for k in ('ReadTimeout', 'WriteTimeout') if k in fidx}
        handles = [ev for ev in st.events if ev[0] == 'ext' and ev[1].endswith('.Handle')]
        findings = []

        def ob(name, ok, info=None):
            run.obligation(name, 'unsat' if ok else 'sat', 'unsat', 0.0, info=info)
            if not ok:
                findings.append(name)
        # --- metrics endpoint: its own server, plain mux, /metrics -> promhttp.HandlerFor(registry)
        mh = servers.get('localhost:9998')
        ph = servers.get('localhost:3001')
        mmux = unw(mh)
        metrics_reg = None
        okm = False
        for ev in handles:
            mux, pat, h = ev[2][0], lit(ev[2][1]), unw(ev[2][2])
            if pat == '/metrics' and mux is mmux and callee(h) == 'promhttp.HandlerFor':
                metrics_reg = unw(h.args[0])
                okm = callee(mmux) == 'http.NewServeMux'
        ob('the metrics address serves a plain mux whose /metrics is promhttp.HandlerFor(registry) (nothing shared with the prover server in front of it)', okm)
        # --- a response that the handler wrote is a response the client receives: no read/write deadline can cut a long proof off
        dl = deadlines.get('localhost:3001', {})
        nodl = all(z3.is_bv_value(v) and v.as_long() == 0 for v in dl.values()) and bool(dl)
        ob('the prover server sets no read/write deadline (a proof that outlasts it would be counted as sent while the connection is closed on the client)', nodl, info={k: str(v) for k, v in dl.items()})
        slow_needed = not nodl
        # --- prover server handler is the instrumented mux itself
        pm = unw(ph)
        okp = isinstance(pm, Ptr) and 'serveMuxWithMetrics' in str(prog['types'][ph.t]['str']) if isinstance(ph, Iface) else False
        ob('the prover address serves the metrics-instrumented mux directly (no outer handler can answer instead of it)', okp, info=str(ph)[:120])
        chain, inner, reg_ok, labels_ok = [], None, True, True
        gauge_n = counter_n = 0
        if okp:
            smux = st.heap[pm.obj]
            tmux = smux.f[0]      # *httptrace.ServeMux
            okh = False
            for ev in handles:
                mux, pat, h = ev[2][0], lit(ev[2][1]), unw(ev[2][2])
                base = mux.args[0] if callee(mux) and callee(mux).startswith('field#') else mux
                if pat == '/prove' and base is unw(tmux):
                    okh = True
                    cur = h
                    while isinstance(cur, Opaque) and cur.tag == 'ext':
                        c = callee(cur)
                        chain.append(c)
                        coll = unw(cur.args[0])
                        if c == 'promhttp.InstrumentHandlerInFlight':
                            gauge_n += 1
                        elif c == 'promhttp.InstrumentHandlerCounter':
                            counter_n += 1
                            names = [lit(x) for x in ex.cells(st, coll.args[2])] if isinstance(coll, Opaque) and len(coll.args) > 2 and isinstance(coll.args[2], Slice) else []
                            labels_ok = labels_ok and sorted(names) == ['code', 'method'] and lit(coll.args[1].f[2]) == 'http_requests_total'
                        elif c not in ('promhttp.InstrumentHandlerDuration', 'promhttp.InstrumentHandlerRequestSize', 'promhttp.InstrumentHandlerResponseSize'):
                            chain.append('UNMODELLED')
                            break
                        if c in ('promhttp.InstrumentHandlerInFlight', 'promhttp.InstrumentHandlerCounter'):
                            # collector registered (promauto) on a registerer wrapping the registry that /metrics serves, labelled with the pattern
                            try:
                                w = unw(coll.args[0].args[0])
                                reg_ok = reg_ok and callee(w) == 'prometheus.WrapRegistererWith' and unw(w.args[1]) is metrics_reg
                            except Exception:  # noqa
                                reg_ok = False
                        cur = unw(cur.args[1])
                    inner = cur
            ob('the mux registers /prove exactly once, on the mux the server serves', okh)
        ob('the handler chain consists only of promhttp instrumentation around the real prove handler: %s' % chain, bool(chain) and 'UNMODELLED' not in chain and isinstance(inner, Struct))
        ob('the in-flight gauge and the (method, code) counter are registered on the registry that /metrics serves, labelled by endpoint pattern', reg_ok and metrics_reg is not None)
        ob('the request counter is http_requests_total partitioned by exactly the labels method and code', labels_ok and counter_n >= 1)
        # --- SMT over histories: counters as the chain computes them vs the tally of responses (codes per the /prove status table, C09)
        N = 4 if not run.thorough else 6
        m = [z3.Int('method_%d' % i) for i in range(N)]
        c = [z3.Int('code_%d' % i) for i in range(N)]
        nreq = z3.Int('n')
        cons = [nreq >= 0, nreq <= N]
        for i in range(N):
            cons += [m[i] >= 0, m[i] <= 2, z3.If(m[i] == 1, z3.Or(c[i] == 200, c[i] == 400), c[i] == 405)]
        M, C = z3.Int('M'), z3.Int('C')
        tally = z3.Sum([z3.If(z3.And(i < nreq, m[i] == M, c[i] == C), 1, 0) for i in range(N)])
        counted = z3.Sum([z3.If(z3.And(i < nreq, m[i] == M, c[i] == C), counter_n, 0) for i in range(N)])
        gauge = z3.Sum([z3.If(i < nreq, gauge_n - gauge_n, 0) for i in range(N)])     # +1 on entry, -1 on exit for every InFlight wrapper
        s = z3.Solver()
        s.add(*cons)
        s.add(z3.Or(tally != counted, gauge != 0))
        t = time.time()
        r = str(s.check())
        run.obligation('for every history of <= %d requests (symbolic method, code per the status table): counter[method,code] == responses sent with (method,code), gauge == 0 at quiescence' % N, r, 'unsat', time.time() - t)
        if r == 'sat':
            findings.append('history with counter != tally: %s' % s.model())
        ob('exactly one in-flight wrapper tracks the gauge', gauge_n == 1)
        # --- one status line per request (promhttp counts the code of the last WriteHeader, the client sees the first)
        stubs.HAVOC_BOUND['n'] = 1
        res9, ex9 = driver.run_entry(run, prog, 'VerifHarness_C09_Handler', stubs.make_stubs(), loop_bound=16, max_paths=200000, trace_calls=(').ProveInsertion', ').ProveDeletion', 'Parameters).UnmarshalJSON'))
        bad9 = [r for r in res9 if r.status == 'assert' and 'status line' in r.info['msg']]
        if bad9:
            findings.append('the handler writes more than one status line on some path (counted code != sent code)')
        run.samples = [{'handler_chain': chain, 'servers': {k: str(v)[:80] for k, v in servers.items()}}]
        run.extra['handler_chain'] = chain
        if findings or any(o['verdict'] != o['expect'] for o in run.obls):
            scen = 'concurrent' if not okm else ('slow' if (not okp or slow_needed) else 'mix')
            failed, panicked, out = [], False, ''
            for sc in [scen] + [x for x in ('concurrent', 'mix') if x != scen]:
                try:
                    failed, panicked, out = driver.replay_native('server', 'server', ['c20_native.go'], 'VerifHarness_C20_Native', {'str:scenario': sc}, timeout=1500)
                except Exception as x:  # noqa
                    failed, panicked, out = [], False, repr(x)
                    run.inconclusive.append('native replay failed to run: %r' % (x,))
                if failed or panicked:
                    break
            if failed or panicked:
                run.violation('%s -- reproduced natively (real server, request mix, /metrics scrape): %s' % ((findings or ['metrics wiring'])[0], (sorted(set(failed)) or ['panic'])[:2]),
                              {'findings': findings, 'native_failed': sorted(set(failed)), 'native_output_tail': out[-1500:]}, key='C20:' + (findings or ['x'])[0][:40])
            else:
                run.inconclusive.append('wiring deviates from the modelled shape (%s) but the native request mix is accounted correctly' % (findings or ['?'])[0][:100])
        run.assumptions += sorted(stubs.USED) + ['promhttp contracts: InstrumentHandlerCounter adds 1 to vec[method, code of the response] per request, InstrumentHandlerInFlight +1/-1 around the request, the other wrappers are transparent',
                                                  'promhttp/prometheus internals and their atomics under concurrency are outside the claim; codes per request come from the C09 status table']
        run.finish(
            explanation='server.Run and serveMuxWithMetrics.Handle are executed symbolically; the registered handler term (InFlight(gauge, Counter(vec{method,code}, Duration(RequestSize(ResponseSize(handler)))))), the registry '
                        'identity chain and the two http.Server objects are extracted from the final heap; structure obligations + an SMT query over all histories <= N requests decide that per-(method,code) totals equal the '
                        'responses sent and the gauge returns to 0; the C09 harness supplies "exactly one status line per request".',
            trusted_base=['z3', 'go/ssa', 'engine/gosym', 'promhttp contract'], functions=['server.Run', 'wrapped_http.(*serveMuxWithMetrics).Handle', 'wrapped_http.NewWrappedServeMuxWithMetrics', 'server.proveHandler.ServeHTTP'],
            bounds='request histories <= %d with symbolic method and outcome' % N,
            coverage_extra={'states': N * 9, 'transitions': len(chain) + 1, 'traces_validated_against_impl': 0})
    main_guard(run, body)


main()
