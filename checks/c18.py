"""C18: poseidon_tree == dense recomputation after any update history; returned paths authenticate old and new value (GOSYM)."""
from common import Run, main_guard
import driver, stubs

ANCHORS = ['poseidon_tree/poseidon_tree.go']
HARNESS = ['c18_harness.go']


def main():
    run = Run('C18', anchors=ANCHORS)

    def body():
        e = 'VerifHarness_C18_Updates'
        prog, secs = driver.load('poseidon_tree', 'poseidon_tree', HARNESS, [e, 'VerifHarness_C18_Deep', 'VerifHarness_C18_IndexBit'])
        run.log('SSA of %d functions built in %.1fs' % (len(prog['funcs']), secs))
        # unit lemma on the index bit for all depths 1..32 (replayed natively with the model's depth and index)
        res, ex = driver.run_entry(run, prog, 'VerifHarness_C18_IndexBit', stubs.make_stubs(), loop_bound=40)
        driver.report(run, ex, 'poseidon_tree', 'poseidon_tree', HARNESS, 'VerifHarness_C18_IndexBit', res)
        if any(r.status in ('assert', 'panic') for r in res) and not run.violations:
            failed, panicked, out = driver.replay_native('poseidon_tree', 'poseidon_tree', HARNESS, 'VerifHarness_C18_Deep', {}, timeout=1200)
            run._deep_done = True
            if failed or panicked:
                run.violation('index bit lemma fails and the native run over depths 1..32 fails: %s' % (sorted(set(failed))[:3] or 'panic'),
                              {'harness': 'VerifHarness_C18_Deep', 'native_failed': sorted(set(failed)), 'native_output_tail': out[-1200:]}, key='C18:deep')
        cfgs = [(1, 3), (2, 3), (3, 3), (4, 2)] if not run.thorough else [(1, 4), (2, 4), (3, 3), (3, 4), (4, 3), (5, 2)]
        for depth, ups in cfgs:
            stubs.PARAMS['depth'], stubs.PARAMS['updates'] = depth, ups
            stubs.PARAMS['alias'] = 1 if depth <= 2 else 0      # the same big.Int object written to several leaves (shared backing array): small depths only
            label = '%s[depth=%d,updates=%d]' % (e, depth, ups)
            res, ex = driver.run_entry(run, prog, e, stubs.make_stubs(), loop_bound=160, max_paths=200000, label=label)
            run.log(label, run.extra['paths'].get(label), 'solver calls', ex.solver_calls, '%.1fs' % ex.solver_time)
            nv = len(run.violations)
            driver.report(run, ex, 'poseidon_tree', 'poseidon_tree', HARNESS, e, res, label=label)
            failing = [r for r in res if r.status in ('assert', 'panic')]
            if failing and len(run.violations) == nv and not getattr(run, '_deep_done', False):
                # not reproduced at this size with these draws: the same assertions on depths 1..32 natively (sparse reference)
                run._deep_done = True
                failed, panicked, out = driver.replay_native('poseidon_tree', 'poseidon_tree', HARNESS, 'VerifHarness_C18_Deep', {}, timeout=1200)
                if failed or panicked:
                    run.violation('%s: native run over depths 1..32 fails: %s' % (label, sorted(set(failed))[:3] or 'panic'),
                                  {'harness': 'VerifHarness_C18_Deep', 'native_failed': sorted(set(failed)), 'native_output_tail': out[-1200:]}, key='C18:deep')
        run.assumptions += sorted(stubs.USED) + ['Poseidon uninterpreted: roots are equal for every hash function iff the hashed trees are identical terms',
                                                  'depth/updates in %s; indices and values symbolic (repeated indices, writing 0, first/last leaf included)' % (cfgs,)]
        run.samples = run.obls[:4]
        run.finish(
            explanation='NewTree/Update/withValue/writeProof/initHash/indexIsLeft are executed symbolically from go/ssa (interfaces, recursion, pointers) with symbolic indices and values; after every update of every '
                        'history within the bound Root() equals the dense bottom-up recomputation over the symbolic leaf array (so untouched leaves keep their values) and the returned sibling path folds the old value to the old root and the new value to the new root.',
            trusted_base=['z3', 'go/ssa', 'engine/gosym + listed stubs'],
            functions=['poseidon_tree.NewTree', '(*PoseidonTree).Update/Root', '(*PoseidonFullNode).withValue/writeProof/initHash/value', '(*PoseidonEmptyNode).withValue/writeProof/value', 'poseidon_tree.indexIsLeft'],
            bounds='(depth,updates) in %s' % (cfgs,))
    main_guard(run, body)


main()
