"""C05: the in-circuit Poseidon1/Poseidon2 R1CS equals textbook Poseidon (Grain-generated parameters) for all inputs.
Whole-gadget lifting: every product wire is a structural fmul atom, everything else exact linear algebra mod p."""
import json, random, time
import z3
from common import Run, run_dump, main_guard, dumper_oracle, dumper_solve
from common import BuildError as common_BuildError
from lift import Lifter, ONE, Inconclusive, eval_r1cs
import poseidon_ref

ANCHORS = ['prover/poseidon/poseidon.go', 'prover/poseidon/constants.go']


def ref_hash(L, inputs, cuts=False):
    """textbook Poseidon over the lifter's LE algebra; inputs are LEs; returns output LE (and the per-round states)"""
    P = L.P

    def mul(a, b):
        if not a or not b:
            return {}
        if set(a) == {ONE}:
            return L.scale(b, a[ONE])
        if set(b) == {ONE}:
            return L.scale(a, b[ONE])
        return L.fmul(a, b)
    st, cs = poseidon_ref.generic([{}] + list(inputs), mul, lambda a, b: L.add(a, b), lambda a, g: L.scale(a, g), lambda c: ({ONE: c % P} if c % P else {}))
    return (st[0], cs) if cuts else st[0]


def tr_le(L, x):
    """trace value -> LE over atoms"""
    if x is None:
        raise Inconclusive('missing trace value')
    if 'const' in x:
        c = int(x['const']) % L.P
        return {ONE: c} if c else {}
    if 'le' in x:
        v = L.lin(x['le'])
        if v is None:
            raise Inconclusive('trace refers to an unvalued wire')
        return v
    raise Inconclusive('unsupported trace value %s' % x)


def decide_eq(L, a, b, timeout=20):
    """SMT: a != b unsat? (linear arithmetic mod p + congruence/field axioms on the product atoms)"""
    diff = L.add(a, b, L.P - 1)
    used = set()
    f = L.zeqzero(diff, used)
    s = z3.SimpleSolver()
    s.set('timeout', timeout * 1000)
    s.add(*L.closure(used))
    s.add(z3.Not(f))
    t = time.time()
    r = str(s.check())
    return r, time.time() - t, (not diff)


def outputs_of(L, nout):
    """harness pattern AssertIsEqual(h_k, O_k): recover h_k = residue + O_k from the k-th assertion"""
    res = []
    for A in L.assertions:
        if A['kind'] == 'booltype':
            continue
        if A['kind'] != 'le':
            raise Inconclusive('unexpected assertion shape %s' % A['kind'])
        res.append(A['cases'][0][1] if len(A['cases']) == 1 else None)
    return res


def main():
    run = Run('C05', anchors=ANCHORS)

    def body():
        tr = ['poseidon.Poseidon1', 'poseidon.Poseidon2', 'poseidon.poseidon', 'poseidon.fullRound', 'poseidon.halfRound']
        jobs = [{'id': 'p2', 'kind': 'poseidon2', 'trace': tr}, {'id': 'p1', 'kind': 'poseidon1', 'trace': tr},
                {'id': 'pm', 'kind': 'poseidon_multi', 'trace': tr}, {'id': 'pc', 'kind': 'poseidon_const', 'trace': tr},
                {'id': 'ins22', 'kind': 'insproof', 'a': 2, 'b': 2, 'trace': ['poseidon.Poseidon2']},
                {'id': 'del31', 'kind': 'delproof', 'a': 3, 'b': 1, 'trace': ['poseidon.Poseidon2']}]
        t = time.time()
        paths = run_dump(jobs)
        run.log('compiled %d circuits in %.1fs' % (len(jobs), time.time() - t))
        rng = random.Random(run.seed)
        # reference parameters vs iden3 on sample points (cross-validation of the oracle, not deciding)
        pts = [[0], [1], [poseidon_ref.P - 1], [0, 0], [31213, 132], [poseidon_ref.P - 1, poseidon_ref.P - 2], [1 << 200, 3],
               [rng.randrange(poseidon_ref.P)], [rng.randrange(poseidon_ref.P), rng.randrange(poseidon_ref.P)]]
        got = dumper_oracle([{'op': 'poseidon', 'args': [str(x) for x in p]} for p in pts])
        bad = [p for p, g in zip(pts, got) if str(poseidon_ref.hash(p)) != g]
        run.extra['reference_vs_iden3_points'] = len(pts)
        if bad:
            run.inconclusive.append('textbook reference (Grain parameters) disagrees with iden3 on %s' % bad[:2])
        vec = {(0,): 0x2a09a9fd93c590c26b91effbb2499f07e8f7aa12e2b4940a3aed2411cb65e11c, (0, 0): 0x2098f5fb9e239eab3ceac3f27b81e481dc3124d55ffed523a839ee8446b64864,
               (31213, 132): 0x303f59cd0831b5633bcda50514521b33776b5d4280eb5868ba1dbbe2e4d76ab5}
        for k, v in vec.items():
            if poseidon_ref.hash(list(k)) != v:
                run.inconclusive.append('reference disagrees with the published vector for %s' % (k,))

        def load(jid):
            d = json.load(open(paths[jid]))
            if d.get('Error'):
                raise Inconclusive('compile %s: %s' % (jid, d['Error']))
            return d

        def cex_replay(jid, job, d, what, nin, expect_fn):
            """sat: find a concrete input where the real R1CS output differs from the reference (random + edge points)"""
            P = poseidon_ref.P
            cands = [[0] * nin, [1] * nin, [P - 1] * nin, [P - 2] * nin] + [[rng.randrange(P) for _ in range(nin)] for _ in range(6)]
            for ins in cands:
                exp = expect_fn(ins)
                wires, failed = eval_r1cs(d, ins + exp)
                if failed:
                    g = dumper_solve({k: v for k, v in job.items() if k != 'trace'}, ins + exp)
                    if not g['solved']:
                        run.violation('%s: on inputs %s the compiled gadget does not produce the reference Poseidon value' % (what, ins[:3]),
                                      {'job': jid, 'inputs': [str(x) for x in ins], 'expected_outputs': [str(x) for x in exp], 'failed_constraints': failed[:4], 'gnark_solver_error': g['error'][:300]}, key='poseidon-value')
                        return True
            return False

        # ---- single-call harnesses: whole-chain equality + per-round cut points
        for jid, nin in (('p2', 2), ('p1', 1)):
            d = load(jid)
            L = Lifter(d)
            ins = [L.val[1 + i] for i in range(nin)]
            O = L.val[1 + nin]
            res = outputs_of(L, 1)
            real = L.add(res[0], O) if res[0].get(list(O)[0]) == L.P - 1 else L.add(L.scale(res[0], L.P - 1), O)
            ref, cuts = ref_hash(L, ins, cuts=True)
            r, secs, structural = decide_eq(L, real, ref)
            ok = run.obligation('%s: R1CS output == textbook Poseidon(t=%d) for all inputs' % (jid, nin + 1), r, 'unsat', secs, constraints=len(d['Constraints']),
                                product_atoms=L.stats['fm'], structurally_identical=structural)
            run.obligation('%s: gadget contains no assertion constraint besides the harness equality' % jid, 'unsat' if len(L.assertions) == 1 else 'sat', 'unsat', 0.0)
            # round boundaries from the call trace (localisation + schedule/constant-row order)
            rounds = [e for e in d['Trace'] if e['gadget'] in ('poseidon.fullRound', 'poseidon.halfRound')]
            nbad = 0
            t0 = time.time()
            if len(rounds) != len(cuts):
                run.obligation('%s: %d round gadgets in the call trace, reference schedule has %d' % (jid, len(rounds), len(cuts)), 'sat', 'unsat', 0.0)
                nbad = 1
            else:
                kinds = ['poseidon.fullRound' if (i < 4 or i >= len(cuts) - 4) else 'poseidon.halfRound' for i in range(len(cuts))]
                first = None
                for i, (e, c) in enumerate(zip(rounds, cuts)):
                    outs = [tr_le(L, x) for x in e['out']]
                    if e['gadget'] != kinds[i] or len(outs) != len(c) or any(L.canon(a) != L.canon(b) and decide_eq(L, a, b, 10)[0] != 'unsat' for a, b in zip(outs, c)):
                        nbad += 1
                        first = i
                        break      # later rounds inherit the difference; the first differing round localises it
                run.obligation('%s: state after each of the %d rounds == reference state (4 full, %d partial, 4 full)' % (jid, len(cuts), len(cuts) - 8),
                               'unsat' if not nbad else 'sat', 'unsat', time.time() - t0, first_bad_round=first)
            if not ok or nbad:
                if not cex_replay(jid, jobs[0 if jid == 'p2' else 1], d, jid, nin, lambda ins: [poseidon_ref.hash(ins)]):
                    run.inconclusive.append('%s: difference in the abstraction did not reproduce concretely' % jid)
            # translator validation: gnark's solver vs raw evaluator vs reference on seeded points
            for _ in range(3):
                ins_c = [rng.randrange(poseidon_ref.P) for _ in range(nin)]
                h = poseidon_ref.hash(ins_c)
                g = dumper_solve({'id': 'x', 'kind': 'poseidon%d' % nin}, ins_c + [h])
                w, failed = eval_r1cs(d, ins_c + [h])
                if g['solved'] and (failed or [int(x) for x in g['wires']] != w):
                    run.inconclusive.append('translator validation failed on %s' % jid)
        # ---- repeated calls in one circuit (state / table aliasing across calls)
        d = load('pm')
        L = Lifter(d)
        A, B, C, S = (L.val[i] for i in (1, 2, 3, 4))
        D0, D1 = L.val[5], L.val[6]
        Os = [L.val[7 + i] for i in range(7)]
        res = outputs_of(L, 7)
        if len(res) != 7:
            raise Inconclusive('multi harness: expected 7 equality assertions, found %d' % len(res))
        reals = []
        for r_, O in zip(res, Os):
            if r_ is None:
                reals.append(None)
                continue
            reals.append(L.add(r_, O) if r_.get(list(O)[0]) == L.P - 1 else L.add(L.scale(r_, L.P - 1), O))
        twoA = L.scale(A, 2)
        h1 = ref_hash(L, [A, B])
        refs = [h1, ref_hash(L, [C]), ref_hash(L, [B, h1]), None, ref_hash(L, [twoA, B]), ref_hash(L, [twoA, B]), ref_hash(L, [twoA])]
        for k, nm in ((0, 'Poseidon2(A,B)'), (1, 'Poseidon1(C)'), (2, 'Poseidon2(B,h1) after other calls'), (4, 'Poseidon2(2A,B) first use of a computed operand'),
                      (5, 'Poseidon2(2A,B) second use of the same operand'), (6, 'Poseidon1(2A) third use')):
            r, secs, structural = decide_eq(L, reals[k], refs[k])
            run.obligation('multi-call circuit: %s == reference' % nm, r, 'unsat', secs, structurally_identical=structural)
        # per-call obligations from the trace, in the multi harness and inside real Merkle gadgets (unsummarised)
        for jid in ('pm', 'ins22', 'del31'):
            d = load(jid) if jid != 'pm' else d
            Lx = L if jid == 'pm' else Lifter(d)
            calls = [e for e in d['Trace'] if e['gadget'] in ('poseidon.Poseidon1', 'poseidon.Poseidon2')]
            bad, t0 = 0, time.time()
            for e in calls:
                if bad:
                    break
                ins = [tr_le(Lx, e['in']['In'])] if e['gadget'].endswith('1') else [tr_le(Lx, e['in']['In1']), tr_le(Lx, e['in']['In2'])]
                out = tr_le(Lx, e['out'])
                ref = ref_hash(Lx, ins)
                if Lx.canon(out) != Lx.canon(ref) and decide_eq(Lx, out, ref, 10)[0] != 'unsat':
                    bad += 1
            run.obligation('%s: each of the %d Poseidon calls in the circuit returns the reference hash of the operands it was given' % (jid, len(calls)),
                           'unsat' if not bad else 'sat', 'unsat', time.time() - t0, calls=len(calls), bad_calls=bad)
        if any(o['verdict'] != o['expect'] for o in run.obls if o['name'].startswith(('multi', 'pm', 'ins22', 'del31'))) and not run.violations:
            def exp(ins):
                a, b, c, s, d0, d1 = ins
                P = poseidon_ref.P
                h1 = poseidon_ref.hash([a, b])
                def pr(dirb, h, sib):
                    return poseidon_ref.hash([h, sib]) if dirb else poseidon_ref.hash([sib, h])
                cur = a
                cur = pr(d0, b, cur)
                cur = pr(d1, c, cur)
                return [h1, poseidon_ref.hash([c]), poseidon_ref.hash([b, h1]), cur, poseidon_ref.hash([2 * a % P, b]), poseidon_ref.hash([2 * a % P, b]), poseidon_ref.hash([2 * a % P])]
            dm = load('pm')
            P = poseidon_ref.P
            found = False
            for _ in range(4):
                ins = [rng.randrange(P) for _ in range(4)] + [rng.randrange(2), rng.randrange(2)]
                e_ = exp(ins)
                w, failed = eval_r1cs(dm, ins + e_)
                if failed:
                    g = dumper_solve({'id': 'x', 'kind': 'poseidon_multi'}, ins + e_)
                    if not g['solved']:
                        run.violation('repeated Poseidon calls in one circuit: a call does not return the reference value (inputs %s...)' % ins[:2],
                                      {'job': 'poseidon_multi', 'inputs': [str(x) for x in ins], 'expected': [str(x) for x in e_], 'failed_constraints': failed[:4]}, key='poseidon-multi')
                        found = True
                        break
            if not found:
                run.inconclusive.append('multi-call difference did not reproduce concretely')
        # ---- operands that are compile-time constants (alone, zero, mixed with a variable)
        dc = json.load(open(paths['pc']))
        if dc.get('Error'):
            run.obligation('constant operands: the gadgets compile', 'sat', 'unsat', 0.0)
            run.violation('defining Poseidon1/Poseidon2 on compile-time constant operands fails in gnark\'s compiler: %s' % dc['Error'][:200], {'job': 'poseidon_const', 'error': dc['Error'][:2000]}, key='poseidon-const')
        else:
            Lc = Lifter(dc)
            X = Lc.val[1]
            Oc = [Lc.val[2 + i] for i in range(6)]
            resc = outputs_of(Lc, 6)
            K = lambda c: ({ONE: c} if c else {})
            refs = [ref_hash(Lc, [K(3), K(5)]), ref_hash(Lc, [K(0), K(0)]), ref_hash(Lc, [K(7)]), ref_hash(Lc, [K(0)]), ref_hash(Lc, [K(11), X]), ref_hash(Lc, [X, K(0)])]
            names = ['Poseidon2(3,5)', 'Poseidon2(0,0)', 'Poseidon1(7)', 'Poseidon1(0)', 'Poseidon2(11,X)', 'Poseidon2(X,0)']
            badc = []
            if len(resc) != 6 or any(r_ is None for r_ in resc):
                raise Inconclusive('constant harness: expected 6 equality assertions')
            for r_, O, ref, nm in zip(resc, Oc, refs, names):
                real = Lc.add(r_, O) if r_.get(list(O)[0]) == Lc.P - 1 else Lc.add(Lc.scale(r_, Lc.P - 1), O)
                r, secs, structural = decide_eq(Lc, real, ref)
                if not run.obligation('constant operands: %s == reference' % nm, r, 'unsat', secs, structurally_identical=structural):
                    badc.append(nm)
            if badc:
                P = poseidon_ref.P
                x = rng.randrange(P)
                exp = [poseidon_ref.hash([3, 5]), poseidon_ref.hash([0, 0]), poseidon_ref.hash([7]), poseidon_ref.hash([0]), poseidon_ref.hash([11, x]), poseidon_ref.hash([x, 0])]
                w, failed = eval_r1cs(dc, [x] + exp)
                g = dumper_solve({'id': 'x', 'kind': 'poseidon_const'}, [x] + exp)
                if failed and not g['solved']:
                    run.violation('with compile-time constant operands (%s) the compiled gadget does not produce the reference Poseidon value' % ', '.join(badc),
                                  {'job': 'poseidon_const', 'x': str(x), 'expected': [str(e_) for e_ in exp], 'failed_constraints': failed[:4], 'gnark_solver_error': g['error'][:300]}, key='poseidon-const')
                else:
                    run.inconclusive.append('constant-operand difference did not reproduce concretely')
        # ---- purity of the gadget definitions (GOSYM): no write to state that exists before the definition (tables, package-level config)
        try:
            import driver, stubs
            from gosym import Exec, Unsupported
            e = 'VerifHarness_C05_Purity'
            prog, secs = driver.load('prover/poseidon', 'poseidon', ['c05_harness.go', 'c05_intr_sym.go'], [e])
            ex = Exec(prog, stubs.make_stubs(stubs.gadget_exec_stubs()), loop_bound=400, max_paths=200)
            t0 = time.time()
            res = ex.run([n for n in prog['funcs'] if n.endswith('.' + e)][0])
            writes, reads, bad = [], 0, [r for r in res if r.status != 'ok']
            for r in res:
                begun = False
                for ev in r.state.events:
                    if ev[0] == 'invocation-begin':
                        begun = True
                    elif begun and ev[0] == 'shared_write':
                        writes.append(ev)
                    elif begun and ev[0] == 'shared_read':
                        reads += 1
            if bad:
                run.inconclusive.append('purity harness: path ends with %s: %s' % (bad[0].status, str(bad[0].info)[:200]))
            run.obligation('defining Poseidon1/Poseidon2 writes no pre-existing state (package tables/config are only read: %d reads), so concurrent or repeated definitions cannot interfere' % reads,
                           'unsat' if not writes and not bad else ('sat' if writes else 'unknown'), 'unsat', time.time() - t0, writes=[str(w[3]) for w in writes[:5]])
            if writes:
                failed, panicked, out = driver.replay_native('prover/poseidon', 'poseidon', ['c05_native.go'], 'VerifHarness_C05_Native', {}, timeout=900)
                if failed or panicked:
                    run.violation('gadget definition writes shared state at %s -- natively, concurrent/sequential definitions of Poseidon1 and Poseidon2 do not give the reference hash: %s' % (writes[0][3], (failed or ['panic'])[:2]),
                                  {'writes': [str(w) for w in writes[:5]], 'native_failed': failed, 'native_output_tail': out[-1200:]}, key='poseidon-shared-state')
                else:
                    run.inconclusive.append('shared write at %s during gadget definition, but the native concurrent run gives reference values' % (writes[0][3],))
        except common_BuildError as x:
            run.inconclusive.append('purity harness does not build: %s' % str(x)[-300:])
        except Unsupported as x:
            run.inconclusive.append('purity harness: unsupported by the encoder: %s' % x)
        run.samples = run.obls[:3]
        run.assumptions += ['"textbook Poseidon with Grain-generated parameters == iden3/circomlib optimised Poseidon for all inputs" is a third-party polynomial identity: cross-validated on %d points each run, not proven' % len(pts),
                            'equality is decided in linear arithmetic mod p + congruence on structural product atoms (commutative, power products flattened)']
        run.finish(
            explanation='The whole R1CS of Poseidon1/Poseidon2 (all 64/65 rounds) is lifted to one canonical linear expression over structural product atoms and proven equal (SMT unsat of the '
                        'disequality) to textbook Poseidon built in the same algebra from independently generated parameters; the same at every round boundary of the call trace, for repeated '
                        'calls in one circuit (aliasing), and for every Poseidon call inside real InsertionProof/DeletionProof circuits.',
            trusted_base=['z3 5.1.0', 'gnark v0.8.0 frontend', 'Grain-LFSR parameter generator (cross-checked vs iden3)'],
            functions=['poseidon.Poseidon1/Poseidon2/poseidon/fullRound/halfRound/sbox/mds .DefineGadget'],
            bounds='all field inputs; t=2 and t=3; all rounds; constant and mixed operands (6 calls); multi-call harness with 7 results; every call in insproof(2,2) and delproof(3,1)')
    main_guard(run, body)


main()
