"""C19: CLI commands return an error (=> non-zero exit) exactly when something failed; prove writes exactly one line to stdout.
The Action closures of main.go are executed symbolically from go/ssa with symbolic flags and every callee at the repository's API
boundary as a may-fail stub; main itself is executed up to cli.App.Run to obtain the command table and the Fatal-on-error tail."""
import collections, os, subprocess, tempfile, time, json
import z3
from common import Run, main_guard, REPO, GOENV, scratch
import common, driver, stubs, gosym
from gosym import Exec, Unsupported, Opaque, Iface, Ptr, Struct, Slice, Str, Func, NIL, Forks

ANCHORS = ['main.go', 'logging/logger.go']


def lit(s):
    if isinstance(s, Str) and s.num is None:
        z = z3.simplify(s.z)
        if z3.is_string_value(z):
            return z.as_string()
    return None


def is_nil_err(v):
    return v is NIL or v is None


def main():
    run = Run('C19', anchors=ANCHORS)

    def body():
        cfg = {'dir': REPO, 'overlay': {}, 'patterns': ['.'], 'entries': ['worldcoin/gnark-mbu.main'], 'follow': ['worldcoin/gnark-mbu'], 'extra': []}
        try:
            prog = gosym.load_program(cfg, scratch())
        except RuntimeError as x:
            raise common.BuildError(str(x))
        if prog['errors']:
            raise common.BuildError('\n'.join(prog['errors'][:5]))
        table = {}
        flagdefs = {}

        def app_run(ex, st, args, ctx):
            app = ex.load(st, args[0])
            T = {t['str']: i for i, t in enumerate(prog['types']) if t}
            appt = prog['types'][prog['types'][T['github.com/urfave/cli/v2.App']]['under']]
            ci = [i for i, f in enumerate(appt['fields']) if f['name'] == 'Commands'][0]
            cmdt = prog['types'][prog['types'][T['github.com/urfave/cli/v2.Command']]['under']]
            ni = [i for i, f in enumerate(cmdt['fields']) if f['name'] == 'Name'][0]
            ai = [i for i, f in enumerate(cmdt['fields']) if f['name'] == 'Action'][0]
            fi = [i for i, f in enumerate(cmdt['fields']) if f['name'] == 'Flags'][0]
            for c in ex.cells(st, app.f[ci]):
                cv = ex.load(st, c)
                table[lit(cv.f[ni])] = cv.f[ai]
                defaults = {}
                for fl in (ex.cells(st, cv.f[fi]) if cv.f[fi] is not NIL else []):
                    flv = ex.load(st, fl.v) if isinstance(fl, Iface) else None
                    if isinstance(flv, Struct) and 'StringFlag' in prog['types'][fl.t]['str']:
                        ft = prog['types'][prog['types'][prog['types'][fl.t]['elem']]['under']]
                        names = [f['name'] for f in ft['fields']]
                        defaults[lit(flv.f[names.index('Name')])] = lit(flv.f[names.index('Value')]) or ''
                flagdefs[lit(cv.f[ni])] = defaults
            ok = z3.Bool('app_run_ok')
            return Forks([(ok, NIL, None), (z3.Not(ok), Iface(-1, Opaque('error', msg=stubs.S('command failed'), origin=ctx['pos'])), None)])
        sm = stubs.make_stubs(dict(stubs.cli_stubs(), **{'(*github.com/urfave/cli/v2.App).Run': app_run}))
        ex = Exec(prog, sm, loop_bound=12)
        ex.skip_init = True
        res = ex.run('worldcoin/gnark-mbu.main')
        fatal = {bool(any(e[0] == 'fatal' for e in r.state.events)): r for r in res if r.status == 'ok'}
        okmain = len(res) == 2 and set(fatal) == {True, False}
        for r in res:
            if r.status == 'ok':
                had_err = not z3.is_true(z3.simplify(z3.And(*r.state.pc))) and any('Not(app_run_ok)' in str(c) for c in r.state.pc)
                has_fatal = any(e[0] == 'fatal' for e in r.state.events)
                okmain = okmain and (had_err == has_fatal)
        run.obligation('main: a command error is turned into a fatal log (non-zero exit), success is not', 'unsat' if okmain else 'sat', 'unsat', 0.0)
        want = ['setup', 'r1cs', 'import-setup', 'export-solidity', 'export-vk', 'gen-test-params', 'start', 'prove', 'verify', 'extract-circuit', 'convert-to-raw']
        run.obligation('command table contains %s' % want, 'unsat' if all(w in table for w in want) else 'sat', 'unsat', 0.0, found=sorted(k for k in table if k))
        findings = []

        execs = {}

        def analyse(cmd):
            f = table.get(cmd)
            if not isinstance(f, Func):
                run.inconclusive.append('command %s has no action' % cmd)
                return []
            exc = Exec(prog, sm, loop_bound=40, max_paths=20000)
            exc.skip_init = True
            execs[cmd] = exc
            t = time.time()
            try:
                rs = exc.run(f.name, args=[Opaque('clictx', flag_defaults=flagdefs.get(cmd, {}))])
            except Unsupported as x:
                run.inconclusive.append('%s: unsupported: %s' % (cmd, x))
                run.obligation('%s: symbolic execution completes' % cmd, 'unsupported', 'unsat', time.time() - t)
                return []
            if exc.incomplete:
                run.inconclusive.append('%s: %s' % (cmd, exc.incomplete))
            bad = [r for r in rs if r.status not in ('ok', 'infeasible')]
            run.obligation('%s: no path panics or needs unmodelled code (%d paths)' % (cmd, len(rs)), 'unsat' if not bad else 'sat', 'unsat', time.time() - t)
            if bad:
                run.inconclusive.append('%s: path ends with %s: %s' % (cmd, bad[0].status, str(bad[0].info)[:150]))
            return [r for r in rs if r.status == 'ok']

        def api(r, tag):
            return [e for e in r.state.events if e[0] == 'api' and e[1] == tag]

        def failed_any(r):
            return [e[1] for e in r.state.events if e[0] == 'api' and e[2] == 'err']

        def mode_is(r, exc, m):
            v = r.state.draws.get('flag:mode')
            if v is None:
                return None
            return exc_feasible(r, v == z3.StringVal(m))

        def exc_feasible(r, cond):
            s = z3.Solver()
            s.add(*r.state.pc)
            s.add(cond)
            return str(s.check()) == 'sat'

        def check(cmd, name, pred):
            """pred(path) -> True if the path respects the rule"""
            rs = paths[cmd]
            viol = [r for r in rs if not pred(r)]
            run.obligation('%s: %s' % (cmd, name), 'unsat' if not viol else 'sat', 'unsat', 0.0, paths=len(rs))
            if viol:
                findings.append((cmd, name, viol[0]))
        paths = {c: analyse(c) for c in want}

        def valid_mode_only(r):
            # on a path that returned nil the mode flag can only be insertion or deletion
            v = r.state.draws.get('flag:mode')
            if v is None:
                return False
            return not exc_feasible(r, z3.And(v != z3.StringVal('insertion'), v != z3.StringVal('deletion')))
        for cmd in ('setup', 'r1cs', 'import-setup', 'gen-test-params', 'start', 'prove', 'verify'):
            check(cmd, 'success (nil error) only with mode insertion or deletion: unknown or missing mode ends in an error', lambda r: not is_nil_err(r.ret) or valid_mode_only(r))
        def mode_given(r):
            p_ = r.state.draws.get('flagset:mode')
            return p_ is None and False or (p_ is not None and not exc_feasible(r, z3.Not(p_)))
        for cmd in ('setup', 'r1cs', 'gen-test-params', 'start', 'prove', 'verify'):
            check(cmd, 'success (nil error) requires the mode flag to be given: a missing mode ends in an error', lambda r: not is_nil_err(r.ret) or mode_given(r))
        for cmd in want:
            check(cmd, 'success (nil error) only if no step failed (keys file, decoding, proving, verifying, writing)', lambda r: not is_nil_err(r.ret) or not failed_any(r))
        # prove: exactly one stdout write on success, none on failure; the prover of the mode is used
        check('prove', 'exactly one line on stdout on success and nothing on failure', lambda r: len([e for e in r.state.events if e[0] == 'stdout']) == (1 if is_nil_err(r.ret) else 0))
        check('prove', 'success requires a proof from the prover of the selected mode',
              lambda r: not is_nil_err(r.ret) or (len(api(r, 'ProveInsertion') + api(r, 'ProveDeletion')) == 1 and
                                                  ((api(r, 'ProveInsertion') and not exc_feasible(r, r.state.draws['flag:mode'] != z3.StringVal('insertion'))) or
                                                   (api(r, 'ProveDeletion') and not exc_feasible(r, r.state.draws['flag:mode'] != z3.StringVal('deletion'))))))
        check('verify', 'success requires the verifier of the selected mode to have accepted',
              lambda r: not is_nil_err(r.ret) or (len(api(r, 'VerifyInsertion') + api(r, 'VerifyDeletion')) == 1 and all(e[2] == 'ok' for e in api(r, 'VerifyInsertion') + api(r, 'VerifyDeletion')) and
                                                  ((api(r, 'VerifyInsertion') and not exc_feasible(r, r.state.draws['flag:mode'] != z3.StringVal('insertion'))) or
                                                   (api(r, 'VerifyDeletion') and not exc_feasible(r, r.state.draws['flag:mode'] != z3.StringVal('deletion'))))))
        def hash_is_flag(r):
            # the input hash handed to the verifier is the number --input-hash denotes (Go literal syntax, base prefix selected)
            fl = r.state.draws.get('flag:input-hash')
            for e in api(r, 'VerifyInsertion') + api(r, 'VerifyDeletion'):
                h = e[3][1] if len(e) > 3 and len(e[3]) > 1 else None
                hv = getattr(h, 'v', None)
                if fl is None or hv is None or not z3.is_expr(hv):
                    return False
                nv = stubs.uf(execs['verify'], 'numval_base0', z3.StringSort(), z3.BitVecSort(stubs.BIG))
                isn = stubs.uf(execs['verify'], 'isNumber_base0', z3.StringSort(), z3.BoolSort())
                if exc_feasible(r, z3.Or(hv != nv(fl), z3.Not(isn(fl)))):
                    return False
            return True
        check('verify', 'the hash given to the verifier is the number the --input-hash flag denotes (any Go number syntax), and only numbers are accepted', hash_is_flag)
        check('verify', 'a verifier rejection is returned as an error', lambda r: not any(e[2] == 'err' for e in api(r, 'VerifyInsertion') + api(r, 'VerifyDeletion')) or not is_nil_err(r.ret))
        check('start', 'success only after the server was run, stopped and awaited', lambda r: not is_nil_err(r.ret) or (api(r, 'server.Run') and api(r, 'RequestStop') and api(r, 'AwaitStop')))
        for cmd in ('setup', 'import-setup', 'convert-to-raw'):
            check(cmd, 'success requires the proving system to have been written', lambda r: not is_nil_err(r.ret) or (api(r, 'WriteRawTo') and api(r, 'WriteRawTo')[0][2] == 'ok'))
        def read_before_create(r):
            idx = {e[1]: i for i, e in enumerate(r.state.events) if e[0] == 'api' and e[1] in ('ReadSystemFromFile', 'os.Create')}
            return 'os.Create' not in idx or ('ReadSystemFromFile' in idx and idx['ReadSystemFromFile'] < idx['os.Create'])
        check('convert-to-raw', 'the input file is read completely before the output file is created (converting a file in place must not destroy it)', read_before_create)
        import cli_model
        hl = cli_model.half_loaded_rule(run, prog, sm, table, flagdefs, [c for c in want if c in paths], paths=paths)
        for cmd, api_ in hl:
            findings.append((cmd, 'when loading the keys file fails the command ends there (it goes on to %s)' % api_, None))
        # vacuity: every command has a succeeding path
        for cmd in want:
            run.obligation('%s twin: a succeeding path exists' % cmd, 'sat' if any(is_nil_err(r.ret) for r in paths[cmd]) else 'unsat', 'sat', 0.0)
        run.samples = [{'command': c, 'paths': len(p)} for c, p in paths.items()][:6]
        if findings:
            out = native_cli(run)
            if hl:
                o2 = cli_model.native_truncated_cli()
                out['failed'] += o2['failed']
                out['log'] += o2['log']
            if out['failed']:
                cmd, name, r = findings[0]
                run.violation('%s: %s -- reproduced with the built binary: %s' % (cmd, name, out['failed'][:3]), {'symbolic_findings': [(c, n) for c, n, _ in findings], 'native': out}, key='C19:%s:%s' % (cmd, name[:30]))
            else:
                run.inconclusive.append('%s: "%s" violated under the API stubs but the native CLI scenarios behave' % (findings[0][0], findings[0][1][:80]))
        run.assumptions += sorted(stubs.USED) + ['the exit status plumbing of zerolog Fatal (os.Exit(1)) and of pipes is the OS/library contract', 'what each API does is covered by C07-C11, C15, C16']
        run.finish(
            explanation='Every Action closure registered in main.go is executed symbolically with symbolic flag values and each repository API (ReadSystemFromFile, Setup*, Prove*, Verify*, json decoding, file creation/writing) '
                        'as a stub that may fail. Decided on all paths: nil is returned only for mode in {insertion, deletion} and only if no step failed; prove writes exactly one stdout line iff it succeeds; verify returns the '
                        'verifier\'s error; main turns any error into Fatal.',
            trusted_base=['z3 (strings, bit-vectors)', 'go/ssa', 'engine/gosym + API stubs'], functions=['main.main and its %d command Action closures' % len(table)],
            bounds='all flag values (strings arbitrary), all combinations of stub outcomes')
    main_guard(run, body)


def native_cli(run):
    """build the binary from the tree and drive setup / gen-test-params / prove / verify through files and pipes"""
    d = tempfile.mkdtemp(prefix='cli_', dir=scratch())
    exe = os.path.join(d, 'gnark-mbu')
    p = subprocess.run(['go', 'build', '-o', exe, '.'], cwd=REPO, env=GOENV, stdout=subprocess.PIPE, stderr=subprocess.STDOUT, text=True)
    out = {'failed': [], 'log': []}
    if p.returncode:
        out['log'].append('build failed: ' + p.stdout[-500:])
        return out

    def sh(args, stdin=None, timeout=600):
        q = subprocess.run([exe] + args, input=stdin, stdout=subprocess.PIPE, stderr=subprocess.PIPE, text=True, timeout=timeout, cwd=d)
        return q.returncode, q.stdout, q.stderr

    def expect(name, cond):
        out['log'].append('%s: %s' % ('ok' if cond else 'FAIL', name))
        if not cond:
            out['failed'].append(name)
    for mode in ('deletion', 'insertion'):
        keys = os.path.join(d, 'keys_' + mode)
        rc, so, se = sh(['setup', '--mode', mode, '--output', keys, '--tree-depth', '2', '--batch-size', '1'])
        expect('%s setup exits 0' % mode, rc == 0)
        rc, params, se = sh(['gen-test-params', '--mode', mode, '--tree-depth', '2', '--batch-size', '1'])
        expect('%s gen-test-params exits 0 and prints one JSON document' % mode, rc == 0 and params.strip().startswith('{') and len(params.strip().splitlines()) == 1)
        try:
            h = json.loads(params)['inputHash']
        except Exception:  # noqa
            continue
        rc, proof, se = sh(['prove', '--mode', mode, '--keys-file', keys], stdin=params)
        expect('%s prove exits 0 with exactly one JSON line on stdout' % mode, rc == 0 and len(proof.strip().splitlines()) == 1 and proof.strip().startswith('{'))
        rc, so, se = sh(['verify', '--mode', mode, '--keys-file', keys, '--input-hash', h], stdin=proof)
        expect('%s verify exits 0 for the right hash' % mode, rc == 0)
        hv = int(h, 16)
        for form in (str(hv), '0X' + ('%X' % hv), '0x0' + ('%x' % hv), '0b' + bin(hv)[2:], '0o' + oct(hv)[2:]):
            rc, so, se = sh(['verify', '--mode', mode, '--keys-file', keys, '--input-hash', form], stdin=proof)
            expect('%s verify exits 0 for the right hash written as %s...' % (mode, form[:6]), rc == 0)
        for form in ('', 'zz', h + 'g', '0x'):
            rc, so, se = sh(['verify', '--mode', mode, '--keys-file', keys, '--input-hash', form], stdin=proof)
            expect('%s verify exits non-zero for the non-number %r' % (mode, form[-6:]), rc != 0)
        rc, so, se = sh(['verify', '--mode', mode, '--keys-file', keys, '--input-hash', hex(int(h, 16) + 1)], stdin=proof)
        expect('%s verify exits non-zero for hash+1' % mode, rc != 0)
        rc, so, se = sh(['gen-test-params', '--tree-depth', '2', '--batch-size', '1'])
        expect('gen-test-params without --mode exits non-zero', rc != 0)
        for bad in (['--mode', 'garbage'], []):
            rc, so, se = sh(['verify'] + bad + ['--keys-file', keys, '--input-hash', h], stdin=proof)
            expect('%s verify with mode %s exits non-zero' % (mode, bad or 'missing'), rc != 0 or (not bad and mode == 'insertion' and False))
            rc, so, se = sh(['prove'] + bad + ['--keys-file', keys], stdin=params)
            expect('%s prove with mode %s exits non-zero and prints nothing' % (mode, bad or 'missing'), rc != 0 and so.strip() == '')
        bp = json.loads(params)
        bp['postRoot'] = '0x1234'
        rc, so, se = sh(['prove', '--mode', mode, '--keys-file', keys], stdin=json.dumps(bp))
        expect('%s prove of unprovable parameters exits non-zero and prints nothing on stdout' % mode, rc != 0 and so.strip() == '')
        rc, so, se = sh(['prove', '--mode', mode, '--keys-file', keys + '_missing'], stdin=params)
        expect('%s prove with a missing keys file exits non-zero' % mode, rc != 0)
        kc = keys + '_inplace'
        open(kc, 'wb').write(open(keys, 'rb').read())
        rc, so, se = sh(['convert-to-raw', '--input', kc, '--output', kc])
        rc2, so2, se2 = sh(['verify', '--mode', mode, '--keys-file', kc, '--input-hash', h], stdin=proof)
        expect('%s convert-to-raw in place exits 0 and the file still verifies' % mode, rc == 0 and rc2 == 0)
        data = open(keys, 'rb').read()
        for cut in (len(data) - 1, len(data) - 1000, len(data) - len(data) // 50):
            tk = keys + '_cut'
            open(tk, 'wb').write(data[:cut])
            rc, so, se = sh(['verify', '--mode', mode, '--keys-file', tk, '--input-hash', h], stdin=proof)
            expect('%s verify with a keys file truncated at %d of %d bytes exits non-zero' % (mode, cut, len(data)), rc != 0)
            rc, so, se = sh(['prove', '--mode', mode, '--keys-file', tk], stdin=params)
            expect('%s prove with a truncated keys file exits non-zero and prints nothing' % mode, rc != 0 and so.strip() == '')
        rc, so, se = sh(['verify', '--mode', mode, '--keys-file', keys, '--input-hash', h], stdin=proof.replace('0x', '0y', 1))
        expect('%s verify of a tampered proof exits non-zero' % mode, rc != 0)
    return out


main()
