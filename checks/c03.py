"""C03: the public input binds the batch (real top-level circuits, Keccak/Merkle gadgets summarised, comparator justified here)."""
import json, time
from common import Run, run_dump, pool_map, main_guard, dumper_solve
import random, treeref, keccak_ref, merkle
import packing, bitgadgets
from lift import Inconclusive

ANCHORS = ['prover/insertion_circuit.go', 'prover/deletion_circuit.go', 'prover/circuit_utils.go', 'prover/keccak/keccak.go']


def task(t):
    return bitgadgets.run_task(t) if t['kind'] == 'rmod' else packing.run_task(t)


def main():
    run = Run('C03', anchors=ANCHORS)

    def body():
        if run.thorough:
            sizes = [(k, 3, b) for k in ('ins', 'del') for b in range(1, 17)] + [('ins', 30, 4), ('del', 30, 4), ('ins', 2, 100), ('del', 2, 100)]
        else:
            sizes = [(k, 3, b) for k in ('ins', 'del') for b in (1, 2, 3, 4)] + [('ins', 30, 1), ('del', 30, 1)]
        jobs, tasks = [], []
        for k, D, B in sizes:
            jid = '%sfull_%d_%d' % (k, D, B)
            jobs.append({'id': jid, 'kind': k + '_full', 'a': D, 'b': B,
                         'abstract': ['keccak.KeccakGadget', 'prover.ReducedModRCheck', 'prover.InsertionProof' if k == 'ins' else 'prover.DeletionProof']})
            tasks.append({'kind': k, 'D': D, 'B': B, 'id': jid, 'timeout': 600 if run.thorough else 120})
        # the comparator summary is justified for exactly the widths these circuits use (32: no constraint needed, 256: real comparator)
        for n in (32, 256):
            jobs.append({'id': 'rmod_%d' % n, 'kind': 'rmod', 'a': n, 'field': 'bn254', 'nowrap': True})
            tasks.append({'kind': 'rmod', 'field': 'bn254', 'n': n, 'id': 'rmod_%d' % n})
        t = time.time()
        paths = run_dump(jobs)
        run.log('compiled %d circuits in %.1fs' % (len(jobs), time.time() - t))
        for tk in tasks:
            tk['path'] = paths[tk['id']]
        tasks.sort(key=lambda t: -(t.get('B', 0)))
        for tk, res in pool_map(task, tasks):
            if isinstance(res, Exception):
                run.inconclusive.append('task %s: %r' % (tk['id'], res))
                continue
            if res.get('error'):
                run.inconclusive.append('%s: %s' % (tk['id'], res['error']))
                continue
            for o in res['obls']:
                cex = o.pop('cex', None)
                ok = run.obligation(o['name'], o['verdict'], o['expect'], o['secs'], constraints=res.get('constraints'))
                if not ok and o['verdict'] == 'sat' and o['expect'] == 'unsat':
                    replay(run, tk, o, cex, paths)
                elif not ok and o['expect'] == 'unsat' and cex and 'probe_field' in cex:
                    alias_probe(run, tk, o, cex)
                elif not ok and o['expect'] == 'sat' and o['verdict'] == 'unsat':
                    run.inconclusive.append('vacuity twin unsat: ' + o['name'])
            run.log(tk['id'], ' '.join('%s/%.1f' % (o['verdict'], o['secs']) for o in res['obls']))
        run.samples = run.obls[:4]
        run.assumptions += ['KeccakGadget summarised as the uninterpreted K_n of one application (its semantics is C04); its 256 outputs are bits',
                            'Insertion/DeletionProof summarised by a free root (their semantics is C01/C02)',
                            'ReducedModRCheck summarised by sum b_i 2^i < p, justified inside this run by the QF_BV comparator obligations at widths 32 and 256',
                            'injectivity of the fixed-width packing and collision resistance of Keccak are what turn "equals the hash of the canonical packing" into "binds the batch"']
        run.finish(
            explanation='The real InsertionMbuCircuit/DeletionMbuCircuit are compiled by gnark; ToReducedBigEndian\'s ToBinary, the byte-order swaps, FromBinaryBigEndian and the top-level equalities are the real wires. '
                        'With every bit-decomposition hint free, SMT proves per packed field that the bits fed to Keccak at its position are the big-endian bytes (LSB-first per byte) of the unique canonical value '
                        '(so no alias v+k*r, no swapped/misplaced/mis-sized field), that InputHash is the digest read big-endian mod p, that InputHash is the only public wire, that the Merkle gadget sees the same wires, '
                        'and completeness with honest hints.',
            trusted_base=['z3 5.1.0', 'gnark v0.8.0 frontend', 'engine/r2s lifter'],
            functions=['prover.InsertionMbuCircuit.Define', 'prover.DeletionMbuCircuit.Define', 'prover.ToReducedBigEndian.DefineGadget', 'prover.FromBinaryBigEndian.DefineGadget', 'prover.ReducedModRCheck.DefineGadget (bn254, n=32,256)'],
            bounds='(mode,depth,batch) in %s; all field values; all hint outputs' % (sizes,))
    main_guard(run, body)


def full_inputs(kind, D, B, flat, hash_override=None):
    """harness-order flat inputs (treeref) -> real circuit order with the on-chain input hash in front"""
    if kind == 'ins':
        rest = list(flat)
    else:
        pre, post = flat[0], flat[1]
        idxs, idc, proofs = flat[2:2 + B], flat[2 + B:2 + 2 * B], flat[2 + 2 * B:]
        rest = list(idxs) + [pre, post] + list(idc) + list(proofs)
    h = packing.on_chain_hash(kind, D, B, [0] + rest)
    return [h if hash_override is None else hash_override] + rest


def end_to_end(run, kind, D, B, why):
    """real circuit (BuildR1CS*) + gnark's solver: a valid batch with its on-chain hash must be accepted; the same batch with a wrong
    post-root / wrong first index (hash recomputed for the forged values) must be rejected. Returns True if a violation was reported."""
    rng = random.Random(7)
    job = {'id': 'x', 'kind': 'build_ins' if kind == 'ins' else 'build_del', 'a': D, 'b': B}
    flat = None
    for _ in range(20):
        flat = treeref.insertion_batch(D, B, rng) if kind == 'ins' else treeref.deletion_batch(D, B, rng)
        if kind != 'ins' or flat[0] >= 1 or (1 << D) == B:
            break
    if not merkle.oracle(kind, D, B, flat)[0]:
        return False
    g = dumper_solve(job, full_inputs(kind, D, B, flat))
    if not g['solved']:
        run.violation('%s -- the real %s circuit (depth %d, batch %d, gnark solver) rejects a valid batch with its on-chain input hash: %s' % (why, kind, D, B, g['error'][:160]),
                      {'kind': kind, 'D': D, 'B': B, 'inputs': [str(x) for x in full_inputs(kind, D, B, flat)], 'gnark_error': g['error'][:400]}, key='c03-e2e-rejects-valid')
        return True
    forged = list(flat)
    pi = 2 if kind == 'ins' else 1          # post root position in harness order
    forged[pi] = flat[1] if kind == 'ins' else flat[0]      # claim post-root = pre-root
    g = dumper_solve(job, full_inputs(kind, D, B, forged))
    if g['solved']:
        run.violation('%s -- the real %s circuit (depth %d, batch %d) accepts a batch whose claimed post-root is the pre-root (public input = hash of the forged values)' % (why, kind, D, B),
                      {'kind': kind, 'D': D, 'B': B, 'inputs': [str(x) for x in full_inputs(kind, D, B, forged)]}, key='c03-e2e-accepts-forged')
        return True
    return False


def alias_probe(run, tk, o, cex):
    """solver answered unknown for a packed field: try the concrete alias witnesses v + k*p for that field (each decomposition hint
    of the field alone and all together); a hit is a real violation, a miss leaves the obligation inconclusive."""
    try:
        d = json.load(open(tk['path']))
        P = int(d['Field'])
        nsec = len(d['Secret'])
        w, n = cex['probe_field'], cex['width']
        his = cex['nbits_hints']
        subsets = [[h] for h in his] + ([his] if len(his) > 1 else [])
        for v in (5, 0):
            for k in (1, 2, 5):
                if v + k * P >= (1 << n):
                    continue
                for sub in subsets:
                    ins = [1] + [(11 * i + 3) for i in range(nsec)]
                    ins[w - 1] = v
                    hints = {'%d,%d' % (h, j): ((v + k * P) >> j) & 1 for h in sub for j in range(n)}
                    rep = packing.replay(tk['kind'], tk['D'], tk['B'], d, {'inputs': ins, 'hints': hints})
                    if rep['circuit_accepts'] and not rep['bound']:
                        rep.update({'obligation': o['name'], 'alias': 'field wire %d: value %d encoded as value + %d*p through hint(s) %s' % (w, v, k, sub)})
                        run.violation('%s: (solver unknown; directed alias probe) the circuit accepts the non-canonical encoding v+%d*p: public input is the hash of the forged bytes' % (o['name'], k), rep, key='c03-unbound')
                        return
    except (Inconclusive, Exception) as e:  # noqa
        run.inconclusive.append('%s: alias probe failed: %r' % (o['name'], e))


def replay(run, tk, o, cex, paths):
    try:
        if tk['kind'] == 'rmod':
            d = json.load(open(tk['path']))
            if cex and 'bits_le' in cex:
                r = bitgadgets.rmod_replay(d, cex['bits_le'])
                if r['circuit_accepts'] != r['value_lt_p']:
                    run.violation('%s: the comparator used by ToReducedBigEndian %s a 256-bit pattern whose value is %s p: a non-canonical encoding v+k*r can be hashed' %
                                  (o['name'], 'accepts' if r['circuit_accepts'] else 'rejects', '<' if r['value_lt_p'] else '>='), dict(cex, **r), key='c03-comparator')
                    return
            elif cex and ('untyped_inputs' in cex or 'digits' in cex):
                n = tk['n']
                which = cex.get('digits') or [int(x[2:]) for x in cex.get('untyped_inputs', [])]
                for w in which[-4:]:
                    bits = [0] * n
                    bits[w - 1] = 1
                    r = bitgadgets.rmod_replay(d, bits)
                    if r['circuit_accepts'] and not r['value_lt_p']:
                        run.violation('%s: comparator ignores digit %d: value 2^%d >= p accepted' % (o['name'], w - 1, w - 1), {'bits_le': bits}, key='c03-comparator')
                        return
            P = int(d['Field'])
            for v in (P - 1, P - 2, 0, 1):
                bits = [(v >> i) & 1 for i in range(tk['n'])]
                r = bitgadgets.rmod_replay(d, bits)
                if r['circuit_accepts'] != r['value_lt_p']:
                    run.violation('%s: the comparator %s the canonical value %s' % (o['name'], 'accepts' if r['circuit_accepts'] else 'rejects', 'p-1' if v == P - 1 else v), {'value': str(v), 'bits_le': bits}, key='c03-comparator')
                    return
            run.inconclusive.append(o['name'] + ': counterexample did not reproduce')
            return
        d = json.load(open(tk['path']))
        if 'public' in (cex or {}) and 'only public wires' in o['name']:
            run.violation('%s: the compiled circuit exposes public wires %s (direct observation of the R1CS gnark compiles from the tree)' % (o['name'], cex['public']), cex, key='c03-public-wires')
            return
        if cex is None or 'got' in (cex or {}):
            # a structural obligation failed (glue to the Merkle gadget, Keccak call parameters): end-to-end scenarios on the real circuit
            sizes = [(tk['kind'], min(tk['D'], 3), tk['B'])]
            if 'got' in (cex or {}):
                # parameters only matter where they change the number of absorbed blocks: look for such a batch size
                got, want = cex['got'], cex['want']
                for b in range(1, 40):
                    n = want['InputSize'] - (want['InputSize'] // 1) + 0
                    nb = (tk['B'] and 0) + b
                    true_bits = (32 + 256 * (nb + 2)) if tk['kind'] == 'ins' else (32 * nb + 512)
                    claimed = true_bits + (got['InputSize'] - want['InputSize'])
                    if -(-(true_bits + 8) // 1088) != -(-(claimed + 8) // 1088):
                        sizes = [(tk['kind'], 2, b)]
                        break
            for k_, D_, B_ in sizes:
                if getattr(run, '_e2e_done', set()) and (k_, D_, B_) in run._e2e_done:
                    return
                run._e2e_done = getattr(run, '_e2e_done', set()) | {(k_, D_, B_)}
                if end_to_end(run, k_, D_, B_, o['name']):
                    return
            run.inconclusive.append(o['name'] + ': structural deviation, but the end-to-end scenarios on the real circuit behave')
            return
        honest = 'completeness' in o['name']
        rep = packing.replay(tk['kind'], tk['D'], tk['B'], d, cex, honest=honest)
        rep['obligation'] = o['name']
        if 'completeness' in o['name']:
            if not rep['circuit_accepts'] and rep['on_chain_hash_of_witness_values'] is not None:
                run.violation('%s: canonical values are rejected by the circuit' % o['name'], rep, key='c03-rejects-canonical')
                return
        elif rep['circuit_accepts'] and not rep['bound']:
            run.violation('%s: circuit accepts with public input %s..., but the on-chain packing of the witness values hashes to %s' %
                          (o['name'], rep['public_input'][:20], (rep['on_chain_hash_of_witness_values'] or 'n/a (value out of range)')[:20]), rep, key='c03-unbound')
            return
        run.inconclusive.append(o['name'] + ': counterexample did not reproduce on the R1CS with real gadget semantics')
    except (Inconclusive, Exception) as e:  # noqa
        run.inconclusive.append('%s: replay failed: %r' % (o['name'], e))


main()
