"""C13: concurrent prove requests are isolated. The shared-state footprint (reads/writes of objects that exist before the invocation,
mutex sections, objects handed to sync.Pool) of one handler invocation is extracted by symbolic execution of the real SSA on every path;
two invocations are interleaved in SMT (timestamps, program order, mutex exclusion): a conflicting adjacent pair = a race."""
import collections, itertools, time
import z3
from common import Run, main_guard
import driver, stubs

ANCHORS = ['server/server.go', 'prover/insertion_proving_system.go', 'prover/deletion_proving_system.go', 'prover/marshal.go']


def footprint(state):
    """[(kind, location, lockset, pos)] after the invocation began"""
    begun, held, out = False, [], []
    for ev in state.events:
        if ev[0] == 'invocation-begin':
            begun = True
        elif not begun:
            continue
        elif ev[0] == 'lock':
            held.append(ev[1])
        elif ev[0] == 'unlock':
            if ev[1] in held:
                held.remove(ev[1])
        elif ev[0] in ('shared_write', 'shared_read'):
            kind = 'w' if ev[0] == 'shared_write' else 'r'
            if state.obj_epoch.get(ev[1]) == -2:
                kind = 'p'      # access to an object after it was released to a sync.Pool: the next owner writes it concurrently
            out.append((kind, (ev[1], ev[2]), tuple(sorted(map(str, held))), ev[3]))
    return out


def all_accesses(events, state):
    """every access (private ones included) of an invocation with its lockset"""
    begun, held, out, seen = False, [], [], set()
    for ev in events:
        if ev[0] == 'invocation-begin':
            begun = True
        elif not begun:
            continue
        elif ev[0] == 'lock':
            held.append(ev[1])
        elif ev[0] == 'unlock':
            if ev[1] in held:
                held.remove(ev[1])
        elif ev[0] in ('shared_write', 'shared_read', 'priv_write', 'priv_read'):
            a = ('w' if ev[0].endswith('write') else 'r', (ev[1], ev[2]), tuple(sorted(map(str, held))), ev[3])
            if (a[0], a[1][0], a[2], a[3]) not in seen:
                seen.add((a[0], a[1][0], a[2], a[3]))
                out.append(a)
    return out


def race_query(a, b):
    """two invocations, access a in the first and b in the second: is there a schedule in which they are adjacent (unordered)?
    program order is irrelevant for a single pair; the only ordering source is a common mutex (critical sections exclude each other)."""
    ta, tb = z3.Int('t_a'), z3.Int('t_b')
    cons = [ta >= 0, tb >= 0]
    for m in set(a[2]) & set(a[2] if False else b[2]):
        la, ua, lb, ub = z3.Int('lock_a_' + m), z3.Int('unlock_a_' + m), z3.Int('lock_b_' + m), z3.Int('unlock_b_' + m)
        cons += [la < ta, ta < ua, lb < tb, tb < ub, z3.Or(ua < lb, ub < la)]
    s = z3.Solver()
    s.add(*cons)
    s.add(z3.Or(tb == ta + 1, ta == tb + 1))
    t = time.time()
    r = str(s.check())
    return r, time.time() - t


def main():
    run = Run('C13', level='model_checking', anchors=ANCHORS)

    def body():
        prog, secs = driver.load('server', 'server', ['c13_harness.go', 'c09_intr_sym.go'], ['VerifHarness_C13_Setup', 'VerifHarness_C13_Invoke'])
        run.log('SSA of %d functions built in %.1fs' % (len(prog['funcs']), secs))
        stubs.HAVOC_BOUND['n'] = 2 if run.thorough else 1
        from gosym import Exec, Unsupported
        name = lambda e: [n for n in prog['funcs'] if n.endswith('.' + e)][0]
        try:
            ex0 = Exec(prog, stubs.make_stubs(), loop_bound=12)
            setups = [r for r in ex0.run(name('VerifHarness_C13_Setup')) if r.status == 'ok']
            res, second, mid_bad = [], [], []
            for s0 in setups:
                ex = Exec(prog, stubs.make_stubs(), loop_bound=12, max_paths=200000)
                ex.skip_init = True
                ex.snapshots = []
                st = s0.state.clone()
                st.events = []
                r1 = ex.run(name('VerifHarness_C13_Invoke'), state=st)
                res += r1
                # an invocation that starts while another one is in mid-flight: from every distinct unlock point of the first
                seen_mid = set()
                for pos, snap in ex.snapshots:
                    sig = (pos, tuple(sorted(set((ev[1], ev[2]) for ev in snap.events if ev[0] == 'shared_write'))))
                    if sig in seen_mid or not sig[1] or len(seen_mid) >= 6:
                        continue
                    seen_mid.add(sig)
                    ex3 = Exec(prog, stubs.make_stubs(), loop_bound=12, max_paths=200000)
                    ex3.skip_init = True
                    ex3.time_budget = 120
                    st3 = snap.clone()
                    st3.frames = []
                    st3.events = []
                    st3.pc = list(snap.pc)
                    for r3 in ex3.run(name('VerifHarness_C13_Invoke'), state=st3):
                        if r3.status == 'shared_recv' or (r3.status == 'panic' and 'deadlock' in str(r3.info)):
                            mid_bad.append((pos, r3))
                # distinct shared end-states in which the invocation changed or published shared state: a later invocation starts from them
                sigs = {}
                for r in r1:
                    if r.status == 'ok' and any(ev[0] == 'shared_write' for ev in r.state.events):
                        sig = tuple(sorted(set((ev[1], ev[2]) for ev in r.state.events if ev[0] == 'shared_write')))
                        sigs.setdefault(sig, r)
                for sig, r in list(sigs.items())[:4]:
                    ex2 = Exec(prog, stubs.make_stubs(), loop_bound=12, max_paths=200000)
                    ex2.skip_init = True
                    st2 = r.state.clone()
                    first_events = list(st2.events)
                    st2.events = []
                    for r2 in ex2.run(name('VerifHarness_C13_Invoke'), state=st2):
                        if r2.status == 'ok':
                            second.append((first_events, r.state, r2))
        except Unsupported as x:
            run.inconclusive.append('footprint extraction unsupported: %s' % x)
            run.obligation('footprint extraction completes', 'unsupported', 'unsat', 0.0)
            run.finish('footprint extraction failed')
            return
        paths = [r for r in res if r.status == 'ok']
        xchan = [r for r in res if r.status == 'shared_recv']
        bad = [r for r in res if r.status not in ('ok', 'infeasible', 'shared_recv')]
        run.obligation('every path of one invocation runs to completion (%d paths)' % len(paths), 'unsat' if not bad else 'sat', 'unsat', 0.0, statuses=dict(collections.Counter(r.status for r in res)))
        if bad:
            run.inconclusive.append('invocation path ends with %s: %s' % (bad[0].status, str(bad[0].info)[:200]))
        # blocking state (mutexes held, semaphore slots taken) must be the same after an invocation as before it, on every path:
        # otherwise whether another request gets an answer at all depends on this one
        def blocking(st):
            return sorted((str(k), str(v if k[0] == 'mutex' else len(v[0]))) for k, v in st.heap.items() if isinstance(k, tuple) and k and ((k[0] == 'mutex' and v) or (k[0] == 'chanbuf' and v[0])))
        base_block = blocking(setups[0].state) if setups else []
        leaks = [r for r in paths if blocking(r.state) != base_block]
        dead = [r for r in res if r.status == 'panic' and 'deadlock' in str(r.info)]
        run.obligation('every path of one invocation gives back every mutex and semaphore slot it took (no request can starve the others)', 'unsat' if not (leaks or dead) else 'sat', 'unsat', 0.0)
        accesses = collections.OrderedDict()
        for r in paths:
            for a in footprint(r.state):
                accesses.setdefault((a[0], a[1], a[2]), a)
        acc = list(accesses.values())
        writes = [a for a in acc if a[0] == 'w']
        pooled = [a for a in acc if a[0] == 'p']
        for a in pooled:
            # the other invocation obtains the object from the pool and writes into it: always a conflicting pair unless a common lock orders them
            writes.append(('w', a[1], (), 'sync.Pool.Get + write by the next owner'))
        run.log('%d paths; %d distinct shared accesses (%d writes)' % (len(paths), len(acc), len(writes)))
        run.extra['shared_accesses'] = [{'kind': a[0], 'location': str(a[1]), 'lockset': list(a[2]), 'pos': a[3]} for a in acc]
        races = []
        nq = 0
        for w in writes:
            for b in acc:
                if b[1][0] != w[1][0] or (b[1][1] != w[1][1] and not (b[1][1][:len(w[1][1])] == w[1][1] or w[1][1][:len(b[1][1])] == b[1][1])):
                    continue
                r, secs = race_query(w, b)
                nq += 1
                run.obligation('no schedule of two invocations puts the write at %s next to the %s at %s (same location, no common lock)' % (w[3], 'write' if b[0] == 'w' else 'read', b[3]), r, 'unsat', secs)
                if r == 'sat':
                    races.append((w, b))
        # an invocation that starts after another one has published state: its accesses to objects the earlier one still uses
        n2 = 0
        for first_events, st1, r2 in second[:200]:
            a1 = all_accesses(first_events, st1)
            for b in footprint(r2.state):
                for a in a1:
                    if a[1][0] != b[1][0] or (a[0] != 'w' and b[0] != 'w'):
                        continue
                    r, secs = race_query(a, b)
                    n2 += 1
                    if r == 'sat' and not any(x[0][3] == a[3] and x[1][3] == b[3] for x in races):
                        run.obligation('a later invocation\'s %s at %s is ordered against the earlier invocation\'s %s at %s on the object it published' % ('write' if b[0] == 'w' else 'read', b[3], 'write' if a[0] == 'w' else 'read', a[3]), r, 'unsat', secs)
                        races.append((a, b))
        run.extra['second_invocation_pairs'] = n2
        run.obligation('shared writes of one invocation: every one is ordered against every access of another invocation (%d candidate pairs, %d with a preceding invocation)' % (nq, n2), 'unsat' if not races else 'sat', 'unsat', 0.0)
        run.samples = run.extra['shared_accesses'][:6] or [{'note': 'no shared access'}]
        run.obligation('no invocation takes its result from a channel shared with the other invocations', 'unsat' if not xchan else 'sat', 'unsat', 0.0)
        run.obligation('an invocation that starts while another is in mid-flight (after any of its unlocks) neither waits on nor takes its result from what the other one published', 'unsat' if not mid_bad else 'sat', 'unsat', 0.0)
        if (leaks or dead or xchan or mid_bad) and not races:
            what = ('started after the other invocation\'s unlock at %s: %s' % (mid_bad[0][0], mid_bad[0][1].info)) if mid_bad and not xchan else str(xchan[0].info) if xchan else ('a path of one invocation ends with blocking state %s still taken' % blocking(leaks[0].state)) if leaks else str(dead[0].info)
            try:
                failed, panicked, out = driver.replay_native('server', 'server', ['c13_native.go', 'deploy_native.go'], 'VerifHarness_C13_Native', {}, timeout=900, race=True)
            except Exception as x:  # noqa
                failed, panicked, out = [], False, repr(x)
                run.inconclusive.append('native replay failed to run: %r' % (x,))
            if failed or panicked:
                run.violation('%s: later/overlapping requests depend on it -- reproduced natively (overlapping requests, three rounds: %s)' % (what, (sorted(set(failed)) or ['hang / panic'])[:1]),
                              {'leak': what, 'native_failed': sorted(set(failed))[:5], 'native_output_tail': out[-2000:]}, key='C13:blocking-state')
            else:
                run.inconclusive.append('blocking-state leak (%s) not reproduced by the native run' % what)
        if races:
            w, b = races[0]
            try:
                failed, panicked, out = driver.replay_native('server', 'server', ['c13_native.go', 'deploy_native.go'], 'VerifHarness_C13_Native', {}, timeout=1500, race=True)
            except Exception as x:  # noqa
                failed, panicked, out = [], False, repr(x)
                run.inconclusive.append('native replay failed to run: %r' % (x,))
            if failed or panicked:
                run.violation('data race between two overlapping requests: write at %s vs %s at %s -- reproduced natively (overlapping requests under -race: %s)' %
                              (w[3], 'write' if b[0] == 'w' else 'read', b[3], 'DATA RACE reported' if 'DATA RACE' in out else (failed or ['panic'])[:1]),
                              {'write': str(w), 'other': str(b), 'native_failed': sorted(set(failed))[:5], 'race_report': 'WARNING: DATA RACE' in out, 'native_output_tail': out[-2000:]}, key='C13:race')
            else:
                run.inconclusive.append('race candidate (write at %s) not reproduced by the native -race run' % w[3])
        run.assumptions += sorted(stubs.USED) + ['races inside gnark, net/http, zerolog are outside the claim; the footprint of stubs: json.Unmarshal writes its target, Prove reads the proving system',
                                                  'two invocations suffice: all invocations run the same code, a conflict between k exists iff one between 2 does']
        run.finish(
            explanation='One handler invocation is executed symbolically on every path with all pre-existing objects (handler, proving system, package-level variables) marked shared; its reads/writes of shared '
                        'locations with their locksets, and objects released to sync.Pool, are extracted. For each shared write and each access to the same location the SMT query asks for a schedule of two invocations '
                        'in which they are adjacent; unsat (or no shared write at all) = isolated.',
            trusted_base=['z3', 'go/ssa', 'engine/gosym footprint extraction'], functions=['server.proveHandler.ServeHTTP and everything it calls in the repository'],
            bounds='all paths of one invocation (decoded arrays <= %d), pairs of invocations' % stubs.HAVOC_BOUND['n'],
            coverage_extra={'states': max(1, len(paths)), 'transitions': max(1, len(acc)), 'traces_validated_against_impl': 1 if races else 0})
    main_guard(run, body)


main()
