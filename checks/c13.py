"""C13: concurrent prove requests are isolated. The shared-state footprint (reads/writes of objects that exist before the invocation,
mutex sections, objects handed to sync.Pool) of one handler invocation is extracted by symbolic execution of the real SSA on every path;
two invocations are interleaved in SMT (timestamps, program order, mutex exclusion): a conflicting adjacent pair = a race."""
import collections, itertools, time
import z3
from common import Run, main_guard
import driver, stubs

ANCHORS = ['server/server.go', 'prover/insertion_proving_system.go', 'prover/deletion_proving_system.go', 'prover/marshal.go']


def _canon(state):
    """package-level variables are materialised on first use, so their heap identity differs from path to path: name them by variable"""
    inv = {oid: 'g:' + name for name, oid in state.globals.items()}

    def c(x):
        if isinstance(x, tuple) and len(x) == 3 and x[0] == 'mutex':
            return ('mutex', inv.get(x[1], x[1]), x[2])
        return inv.get(x, x) if not isinstance(x, (tuple, list, dict)) else x
    return c


def footprint(state):
    """[(kind, location, lockset, pos)] after the invocation began"""
    begun, held, out = False, [], []
    cn = _canon(state)
    for ev in state.events:
        if ev[0] == 'invocation-begin':
            begun = True
        elif not begun:
            continue
        elif ev[0] == 'lock':
            held.append(cn(ev[1]))
        elif ev[0] == 'unlock':
            if cn(ev[1]) in held:
                held.remove(cn(ev[1]))
        elif ev[0] in ('shared_write', 'shared_read'):
            kind = 'w' if ev[0] == 'shared_write' else 'r'
            if state.obj_epoch.get(ev[1]) == -2:
                kind = 'p'      # access to an object after it was released to a sync.Pool: the next owner writes it concurrently
            out.append((kind, (cn(ev[1]), ev[2]), tuple(sorted(map(str, held))), ev[3]))
    return out


def all_accesses(events, state):
    """every access (private ones included) of an invocation with its lockset, from its first write to shared state on: what it did to
    an object before publishing it is ordered before everything a later invocation does to that object, provided the publication itself
    (a shared write, checked pairwise by the first family of queries) is ordered against the later invocation's reads of it"""
    begun, held, out, seen = False, [], [], set()
    cn = _canon(state)
    published = False
    for ev in events:
        if ev[0] == 'shared_write':
            published = True
        if ev[0] in ('priv_write', 'priv_read') and not published:
            continue
        if ev[0] == 'invocation-begin':
            begun = True
        elif not begun:
            continue
        elif ev[0] == 'lock':
            held.append(cn(ev[1]))
        elif ev[0] == 'unlock':
            if cn(ev[1]) in held:
                held.remove(cn(ev[1]))
        elif ev[0] in ('shared_write', 'shared_read', 'priv_write', 'priv_read'):
            a = ('w' if ev[0].endswith('write') else 'r', (cn(ev[1]), ev[2]), tuple(sorted(map(str, held))), ev[3])
            if (a[0], a[1][0], a[2], a[3]) not in seen:
                seen.add((a[0], a[1][0], a[2], a[3]))
                out.append(a)
    return out


def race_query(a, b):
    """two invocations, access a in the first and b in the second: is there a schedule in which they are adjacent (unordered)?
    program order is irrelevant for a single pair; the only ordering source is a common mutex (critical sections exclude each other)."""
    ta, tb = z3.Int('t_a'), z3.Int('t_b')
    cons = [ta >= 0, tb >= 0]
    for m in set(a[2]) & set(a[2] if False else b[2]):
        la, ua, lb, ub = z3.Int('lock_a_' + m), z3.Int('unlock_a_' + m), z3.Int('lock_b_' + m), z3.Int('unlock_b_' + m)
        cons += [la < ta, ta < ua, lb < tb, tb < ub, z3.Or(ua < lb, ub < la)]
    s = z3.Solver()
    s.add(*cons)
    s.add(z3.Or(tb == ta + 1, ta == tb + 1))
    t = time.time()
    r = str(s.check())
    return r, time.time() - t


def _consts(t, acc):
    todo, seen = [t], set()
    while todo:
        e = todo.pop()
        if e.get_id() in seen:
            continue
        seen.add(e.get_id())
        if z3.is_const(e) and e.decl().kind() == z3.Z3_OP_UNINTERPRETED:
            acc[e.decl().name()] = e
        else:
            todo.extend(e.children())


def _earlier(name):
    m = name.rsplit('!', 1)
    return len(m) == 2 and m[1].isdigit() and 100000 < int(m[1]) < 200000


def observable(state):
    """z3 terms that decide what the client sees: status line(s), error code, and for a proof the public input and system it is bound to"""
    o = []
    proofs = [e[1] for e in state.events if e[0] == 'proof_marshalled']
    for e in state.events:
        if e[0] == 'WriteHeader':
            o.append(e[1] if isinstance(e[1], z3.ExprRef) else z3.StringVal(str(e[1])))
        elif e[0] == 'Write':
            doc = stubs._last_body(state)
            if isinstance(doc, stubs.JsonDoc) and isinstance(doc.value, stubs.MapVal):
                for k, v in doc.value.items:
                    kz = z3.simplify(k.z) if getattr(k, 'z', None) is not None else None
                    if kz is not None and z3.is_string_value(kz) and kz.as_string() == 'code' and getattr(v, 'z', None) is not None:
                        o.append(v.z)
    for p in proofs:
        o.append(z3.StringVal('proof of system %s' % getattr(p, 'sys', None)))
        w = getattr(p, 'witness', None)
        if w is not None and 'InputHash' in getattr(w, 'fields', {}):
            o.append(z3.URem(stubs.wit_big(None, w.fields['InputHash']), stubs.bvval(stubs.BN254_R, stubs.BIG)))
        # the private part of the witness the proof was made from: a proof answers "this batch is valid", so the batch it was made
        # from must be the request's own (a memoised proof is fine exactly when the path forces the two batches to be equal)
        if w is not None:
            def leaves(v, d=0):
                if d > 6:
                    return
                if isinstance(v, stubs.Iface):
                    v = v.v
                if isinstance(v, stubs.Big):
                    o.append(v.v)
                elif z3.is_expr(v):
                    o.append(v)
                elif isinstance(v, (stubs.Struct,)):
                    for x in v.f:
                        leaves(x, d + 1)
                elif isinstance(v, (stubs.Array,)):
                    for x in v.e:
                        leaves(x, d + 1)
                elif isinstance(v, (list, tuple)):
                    for x in v:
                        leaves(x, d + 1)
            for k in sorted(getattr(w, 'fields', {})):
                if k != 'InputHash':
                    try:
                        leaves(w.fields[k])
                    except Exception:  # noqa
                        pass
    return o


def noninterference(pc, obs):
    """exists two earlier requests (same later request, same path) for which the later answer differs?"""
    cs = {}
    for t in obs:
        _consts(t, cs)
    dep = sorted(n for n in cs if _earlier(n))
    if not dep:
        return 'unsat', 0.0, []           # syntactically independent of the earlier invocation
    for c in pc:
        _consts(c, cs)
    sub = [(e, z3.Const(n + "'", e.sort())) for n, e in cs.items() if _earlier(n)]
    s = z3.Solver()
    s.set('timeout', 60000)
    for c in pc:
        s.add(c, z3.substitute(c, *sub))
    s.add(z3.Or(*[t != z3.substitute(t, *sub) for t in obs if z3.is_expr(t)]))
    t0 = time.time()
    r = str(s.check())
    return r, time.time() - t0, dep


def main():
    run = Run('C13', level='model_checking', anchors=ANCHORS)

    def body():
        prog, secs = driver.load('server', 'server', ['c13_harness.go', 'c09_intr_sym.go'], ['VerifHarness_C13_Setup', 'VerifHarness_C13_Invoke'])
        run.log('SSA of %d functions built in %.1fs' % (len(prog['funcs']), secs))
        stubs.HAVOC_BOUND['n'] = 2 if run.thorough else 1
        from gosym import Exec, Unsupported
        name = lambda e: [n for n in prog['funcs'] if n.endswith('.' + e)][0]
        try:
            ex0 = Exec(prog, stubs.make_stubs(), loop_bound=12)
            setups = [r for r in ex0.run(name('VerifHarness_C13_Setup')) if r.status == 'ok']
            res, second, mid_bad = [], [], []
            for si, s0 in enumerate(setups):
                ex = Exec(prog, stubs.make_stubs(), loop_bound=12, max_paths=200000)
                ex.skip_init = True
                ex.fresh = 100000        # symbols of the first invocation: 100001..199999 (its request, its draws)
                ex.snapshots = []
                st = s0.state.clone()
                st.events = []
                r1 = ex.run(name('VerifHarness_C13_Invoke'), state=st)
                for r in r1:
                    r.setup_i = si      # heap identities (mutexes, globals touched lazily) are only comparable within one configuration
                res += r1
                # an invocation that starts while another one is in mid-flight: from every distinct unlock point of the first
                seen_mid = set()
                for pos, snap in ex.snapshots:
                    sig = (pos, tuple(sorted(set((ev[1], ev[2]) for ev in snap.events if ev[0] == 'shared_write'))))
                    if sig in seen_mid or not sig[1] or len(seen_mid) >= 6:
                        continue
                    seen_mid.add(sig)
                    ex3 = Exec(prog, stubs.make_stubs(), loop_bound=12, max_paths=200000)
                    ex3.skip_init = True
                    ex3.fresh = 300000
                    ex3.time_budget = 120
                    st3 = snap.clone()
                    st3.frames = []
                    st3.events = []
                    st3.pc = list(snap.pc)
                    for r3 in ex3.run(name('VerifHarness_C13_Invoke'), state=st3):
                        if r3.status == 'shared_recv' or (r3.status == 'panic' and 'deadlock' in str(r3.info)):
                            mid_bad.append((pos, r3))
                # distinct shared end-states in which the invocation changed or published shared state: a later invocation starts from them
                sigs = {}
                for r in r1:
                    if r.status == 'ok' and any(ev[0] == 'shared_write' for ev in r.state.events):
                        sig = tuple(sorted(set((ev[1], ev[2]) for ev in r.state.events if ev[0] == 'shared_write')))
                        sigs.setdefault(sig, r)
                for sig, r in list(sigs.items())[:4]:
                    ex2 = Exec(prog, stubs.make_stubs(), loop_bound=12, max_paths=200000)
                    ex2.skip_init = True
                    ex2.fresh = 200000   # the later invocation's own symbols
                    st2 = r.state.clone()
                    first_events = list(st2.events)
                    st2.events = []
                    for r2 in ex2.run(name('VerifHarness_C13_Invoke'), state=st2):
                        if r2.status == 'ok':
                            second.append((first_events, r.state, r2))
        except Unsupported as x:
            run.inconclusive.append('footprint extraction unsupported: %s' % x)
            run.obligation('footprint extraction completes', 'unsupported', 'unsat', 0.0)
            run.finish('footprint extraction failed')
            return
        paths = [r for r in res if r.status == 'ok']
        xchan = [r for r in res if r.status == 'shared_recv']
        bad = [r for r in res if r.status not in ('ok', 'infeasible', 'shared_recv')]
        run.obligation('every path of one invocation runs to completion (%d paths)' % len(paths), 'unsat' if not bad else 'sat', 'unsat', 0.0, statuses=dict(collections.Counter(r.status for r in res)))
        if bad:
            run.inconclusive.append('invocation path ends with %s: %s' % (bad[0].status, str(bad[0].info)[:200]))
        # blocking state (mutexes held, semaphore slots taken) must be the same after an invocation as before it, on every path:
        # otherwise whether another request gets an answer at all depends on this one
        def blocking(st):
            return sorted((str(k), str(v if k[0] == 'mutex' else len(v[0]))) for k, v in st.heap.items() if isinstance(k, tuple) and k and ((k[0] == 'mutex' and v) or (k[0] == 'chanbuf' and v[0])))
        base_block = blocking(setups[0].state) if setups else []
        leaks = [r for r in paths if blocking(r.state) != base_block]
        dead = [r for r in res if r.status == 'panic' and 'deadlock' in str(r.info)]
        run.obligation('every path of one invocation gives back every mutex and semaphore slot it took (no request can starve the others)', 'unsat' if not (leaks or dead) else 'sat', 'unsat', 0.0)
        accesses = collections.OrderedDict()
        for r in paths:
            for a in footprint(r.state):
                accesses.setdefault((r.setup_i, a[0], a[1], a[2]), a + (r.setup_i,))
        acc = list(accesses.values())
        writes = [a for a in acc if a[0] == 'w']
        pooled = [a for a in acc if a[0] == 'p']
        for a in pooled:
            # the other invocation obtains the object from the pool and writes into it: always a conflicting pair unless a common lock orders them
            writes.append(('w', a[1], (), 'sync.Pool.Get + write by the next owner', a[4]))
        run.log('%d paths; %d distinct shared accesses (%d writes)' % (len(paths), len(acc), len(writes)))
        run.extra['shared_accesses'] = [{'kind': a[0], 'location': str(a[1]), 'lockset': list(a[2]), 'pos': a[3]} for a in acc]
        races = []
        nq = 0
        for w in writes:
            for b in acc:
                if b[4] != w[4] or b[1][0] != w[1][0] or (b[1][1] != w[1][1] and not (b[1][1][:len(w[1][1])] == w[1][1] or w[1][1][:len(b[1][1])] == b[1][1])):
                    continue
                r, secs = race_query(w, b)
                nq += 1
                run.obligation('no schedule of two invocations puts the write at %s next to the %s at %s (same location, no common lock)' % (w[3], 'write' if b[0] == 'w' else 'read', b[3]), r, 'unsat', secs)
                if r == 'sat':
                    races.append((w, b))
        # an invocation that starts after another one has published state: its accesses to objects the earlier one still uses
        n2 = 0
        for first_events, st1, r2 in second[:200]:
            a1 = all_accesses(first_events, st1)
            for b in footprint(r2.state):
                for a in a1:
                    if a[1][0] != b[1][0] or (a[0] != 'w' and b[0] != 'w'):
                        continue
                    r, secs = race_query(a, b)
                    n2 += 1
                    if r == 'sat' and not any(x[0][3] == a[3] and x[1][3] == b[3] for x in races):
                        run.obligation('a later invocation\'s %s at %s is ordered against the earlier invocation\'s %s at %s on the object it published' % ('write' if b[0] == 'w' else 'read', b[3], 'write' if a[0] == 'w' else 'read', a[3]), r, 'unsat', secs)
                        races.append((a, b))
        run.extra['second_invocation_pairs'] = n2
        # non-interference (self-composition): what a later invocation answers (status, error code, the public input / system its
        # proof is bound to) must not vary with the earlier invocation's request once the later request and the path are fixed
        flows, nf, tf = [], 0, 0.0
        for first_events, st1, r2 in second[:400]:
            o = observable(r2.state)
            verdict, secs, dep = noninterference(r2.state.pc, o)
            nf += 1
            tf += secs
            if verdict != 'unsat':
                flows.append((verdict, dep, o))
        run.obligation('the answer of a later invocation (status, error code, public input and system of the returned proof) is a function of its own request: '
                       'renaming the earlier request\'s values cannot change it (%d end states x paths, self-composition queries)' % nf,
                       'unsat' if not flows else flows[0][0], 'unsat', tf)
        run.obligation('shared writes of one invocation: every one is ordered against every access of another invocation (%d candidate pairs, %d with a preceding invocation)' % (nq, n2), 'unsat' if not races else 'sat', 'unsat', 0.0)
        run.samples = run.extra['shared_accesses'][:6] or [{'note': 'no shared access'}]
        run.obligation('no invocation takes its result from a channel shared with the other invocations', 'unsat' if not xchan else 'sat', 'unsat', 0.0)
        run.obligation('an invocation that starts while another is in mid-flight (after any of its unlocks) neither waits on nor takes its result from what the other one published', 'unsat' if not mid_bad else 'sat', 'unsat', 0.0)
        _native = []

        def native(timeout):
            if not _native:
                try:
                    _native.append(driver.replay_native('server', 'server', ['c13_native.go', 'deploy_native.go'], 'VerifHarness_C13_Native', {}, timeout=timeout, race=True))
                except Exception as x:  # noqa
                    _native.append(([], False, repr(x)))
                    run.inconclusive.append('native replay failed to run: %r' % (x,))
            return _native[0]
        if flows:
            dep = flows[0][1]
            failed, panicked, out = native(1500)
            if failed or panicked:
                run.violation('the answer to a request depends on an earlier request (through %s kept in shared state) -- reproduced natively (%s)' % (', '.join(dep[:3]), (sorted(set(failed)) or ['hang / panic'])[:1]),
                              {'depends_on': dep[:8], 'native_failed': sorted(set(failed))[:5], 'native_output_tail': out[-2000:]}, key='C13:flow')
            else:
                run.inconclusive.append('information flow from an earlier request (%s) not reproduced by the native run' % ', '.join(dep[:3]))
        if (leaks or dead or xchan or mid_bad) and not races:
            what = ('started after the other invocation\'s unlock at %s: %s' % (mid_bad[0][0], mid_bad[0][1].info)) if mid_bad and not xchan else str(xchan[0].info) if xchan else ('a path of one invocation ends with blocking state %s still taken' % blocking(leaks[0].state)) if leaks else str(dead[0].info)
            failed, panicked, out = native(900)
            if failed or panicked:
                run.violation('%s: later/overlapping requests depend on it -- reproduced natively (overlapping requests, three rounds: %s)' % (what, (sorted(set(failed)) or ['hang / panic'])[:1]),
                              {'leak': what, 'native_failed': sorted(set(failed))[:5], 'native_output_tail': out[-2000:]}, key='C13:blocking-state')
            else:
                run.inconclusive.append('blocking-state leak (%s) not reproduced by the native run' % what)
        if races:
            w, b = races[0]
            failed, panicked, out = native(1500)
            if (failed or panicked) and ('DATA RACE' in out or not flows):
                run.violation('data race between two overlapping requests: write at %s vs %s at %s -- reproduced natively (overlapping requests under -race: %s)' %
                              (w[3], 'write' if b[0] == 'w' else 'read', b[3], 'DATA RACE reported' if 'DATA RACE' in out else (failed or ['panic'])[:1]),
                              {'write': str(w), 'other': str(b), 'native_failed': sorted(set(failed))[:5], 'race_report': 'WARNING: DATA RACE' in out, 'native_output_tail': out[-2000:]}, key='C13:race')
            elif not (flows and run.violations):
                run.inconclusive.append('race candidate (write at %s) not reproduced by the native -race run' % w[3])
        run.assumptions += sorted(stubs.USED) + ['races inside gnark, net/http, zerolog are outside the claim; the footprint of stubs: json.Unmarshal writes its target, Prove reads the proving system',
                                                  'two invocations suffice: all invocations run the same code, a conflict between k exists iff one between 2 does']
        run.finish(
            explanation='One handler invocation is executed symbolically on every path with all pre-existing objects (handler, proving system, package-level variables) marked shared; its reads/writes of shared '
                        'locations with their locksets, and objects released to sync.Pool, are extracted. For each shared write and each access to the same location the SMT query asks for a schedule of two invocations '
                        'in which they are adjacent; unsat (or no shared write at all) = isolated.',
            trusted_base=['z3', 'go/ssa', 'engine/gosym footprint extraction'], functions=['server.proveHandler.ServeHTTP and everything it calls in the repository'],
            bounds='all paths of one invocation (decoded arrays <= %d), pairs of invocations' % stubs.HAVOC_BOUND['n'],
            coverage_extra={'states': max(1, len(paths)), 'transitions': max(1, len(acc)), 'traces_validated_against_impl': 1 if races else 0})
    main_guard(run, body)


main()
