"""C12: construction paths instantiate the same circuit; one public input; deletion depth guard (GOSYM + R2S + supplementary digests)."""
import json
from common import Run, main_guard, run_dump
import driver, stubs

ANCHORS = ['prover/insertion_proving_system.go', 'prover/insertion_circuit.go', 'prover/deletion_proving_system.go', 'prover/deletion_circuit.go', 'prover/extractor.go']


def main():
    run = Run('C12', anchors=ANCHORS)

    def body():
        entries = ['VerifHarness_C12_Paths', 'VerifHarness_C12_Options', 'VerifHarness_C12_DepthGuard']
        H = ['c12_harness.go', 'c12_intr_sym.go']
        prog, secs = driver.load('prover', 'prover', H, entries + ['VerifHarness_C12_Roots'])
        run.log('SSA of %d functions built in %.1fs' % (len(prog['funcs']), secs))
        # structural obligation on the real SSA: nothing reachable from the circuit definitions or the construction paths iterates over a
        # map (Go randomises the order per run: constraint/wire order, hence the serialised system and the keys, would differ between processes)
        maprange = []
        for fn, f in prog['funcs'].items():
            if 'VerifHarness' in fn or '/harness' in (f.get('pos') or ''):
                continue
            for b in f.get('blocks', []):
                for ins in b.get('instrs', []):
                    if ins.get('op') == 'Range':
                        t = prog['types'][ins['x']['t']] if isinstance(ins.get('x'), dict) and 't' in ins['x'] else None
                        if t and str(t.get('str', '')).startswith('map['):
                            maprange.append('%s (%s)' % (fn, ins.get('pos', f.get('pos'))))
        run.obligation('no function reachable from the circuit definitions or the construction paths ranges over a map (%d functions scanned on the SSA)' % len(prog['funcs']),
                       'unsat' if not maprange else 'sat', 'unsat', 0.0, sites=maprange[:5])
        stubs.PARAMS['maxdim'] = 4 if run.thorough else 3
        fails = []
        for e in entries:
            res, ex = driver.run_entry(run, prog, e, stubs.make_stubs(), loop_bound=16)
            run.log(e, run.extra['paths'].get(e), 'solver calls', ex.solver_calls)
            fails += [(e, r) for r in res if r.status in ('assert', 'panic')]
            if ex.incomplete is None and any('Range' in s or 'Next' in s for s in run.inconclusive):
                pass
        # R2S: the compiled systems expose exactly {1, InputHash} as public wires; compiling twice gives the same serialisation (supplementary, concrete)
        jobs = []
        for k in ('ins', 'del'):
            for rep in range(2):
                jobs.append({'id': '%s_pub_%d' % (k, rep), 'kind': k + '_full', 'a': 2, 'b': 3, 'abstract': ['keccak.KeccakGadget', 'poseidon.Poseidon2']})
        paths = run_dump(jobs)
        digs = {}
        for j in jobs:
            d = json.load(open(paths[j['id']]))
            if d.get('Error'):
                run.inconclusive.append('compile error: ' + d['Error'])
                continue
            digs[j['id']] = d['Digest']
            if j['id'].endswith('_0'):
                run.obligation('%s: public wires of the compiled system are exactly the constant and InputHash' % j['id'][:3], 'unsat' if d['Public'] == ['1', 'InputHash'] else 'sat', 'unsat', 0.0)
                if d['Public'] != ['1', 'InputHash']:
                    run.violation('the compiled %s circuit has public wires %s' % (j['id'][:3], d['Public']), {'public': d['Public']}, key='C12:public')
        for k in ('ins', 'del'):
            same = digs.get(k + '_pub_0') == digs.get(k + '_pub_1')
            run.obligation('%s: two compilations in one process give the identical serialisation (supplementary concrete check, not a solver verdict)' % k, 'unsat' if same else 'sat', 'unsat', 0.0)
        nondet = any(o['verdict'] == 'sat' and 'identical serialisation' in o['name'] for o in run.obls)
        unsupported_range = any('instruction Range' in s or 'instruction Next' in s for s in run.inconclusive)
        if fails or nondet or unsupported_range or maprange:
            try:
                failed, panicked, out = driver.replay_native('prover', 'prover', ['c12_native.go'], 'VerifHarness_C12_Native', {}, timeout=2400)
            except Exception as x:  # noqa
                failed, panicked, out = [], False, repr(x)
                run.inconclusive.append('native replay failed to run: %r' % (x,))
            if failed or panicked:
                msg = fails[0][1].info['msg'] if fails and fails[0][1].status == 'assert' else ('nondeterministic compilation' if nondet else 'map iteration in circuit construction%s' % ((' at ' + maprange[0]) if maprange else ''))
                run.violation('%s -- native run of the real construction paths fails: %s' % (msg, (sorted(set(failed)) or ['panic'])[:3]),
                              {'assertion': msg, 'native_failed': sorted(set(failed)), 'native_output_tail': out[-1500:]}, key='C12:' + msg[:40])
            elif fails:
                run.inconclusive.append('"%s" fails symbolically but the native construction paths agree' % fails[0][1].info.get('msg', '')[:80])
        run.assumptions += sorted(stubs.USED) + ['byte identity across fresh processes / GOMAXPROCS is not claimed (gnark internals and the scheduler are not encodable); one in-process double compilation is a supplementary concrete check']
        run.samples = run.obls[:4]
        run.finish(
            explanation='BuildR1CSInsertion/Deletion, ImportInsertion/DeletionSetup and ExtractLean are executed symbolically from go/ssa with symbolic (depth,batch) <= %d and frontend.Compile / ExtractCircuits as '
                        'snapshot stubs: on every path the circuit struct handed to the compiler has Depth, BatchSize and every slice length equal to the arguments. DeletionMbuCircuit.Define is executed with a symbolic int '
                        'Depth: error iff Depth > 31. The R1CS dumped from the real compile has public wires {1, InputHash}.' % stubs.PARAMS['maxdim'],
            trusted_base=['z3', 'go/ssa', 'engine/gosym + listed stubs', 'gnark frontend (for the public-wire obligation)'],
            functions=['prover.BuildR1CSInsertion/Deletion', 'prover.ImportInsertionSetup/ImportDeletionSetup', 'prover.ExtractLean', 'prover.(*DeletionMbuCircuit).Define'],
            bounds='depth,batch 0..%d symbolic for the path obligations; all int64 Depth for the guard' % stubs.PARAMS['maxdim'])
    main_guard(run, body)


main()
