"""Shared plumbing for the checks: scratch dirs, Go builds against /repo's current tree, obligation bookkeeping,
evidence files, known findings, exit codes (0 held / 1 VIOLATION after native replay / 2 INCONCLUSIVE)."""
import atexit, hashlib, json, os, shutil, subprocess, sys, tempfile, time, traceback
from concurrent.futures import ProcessPoolExecutor, as_completed

VERIF = os.path.dirname(os.path.dirname(os.path.abspath(__file__)))
REPO = os.environ.get('VERIF_REPO', '/repo')
GOENV = dict(os.environ, GOFLAGS='-mod=mod', GOPROXY='off', GOSUMDB='off', GOTOOLCHAIN='local', CGO_ENABLED='0')
NCPU = min(16, os.cpu_count() or 4)
# one slot per core for forked solver processes; created before any pool forks, so every worker shares it (see portfolio_solve)
import multiprocessing as _mp
SOLVER_SLOTS = _mp.get_context('fork').BoundedSemaphore(NCPU)

_scratch = None


def scratch():
    global _scratch
    if _scratch is None:
        _scratch = tempfile.mkdtemp(prefix='verif_')
        atexit.register(lambda: shutil.rmtree(_scratch, ignore_errors=True))
    return _scratch


def sh(cmd, cwd=None, timeout=None, env=None, check=True):
    p = subprocess.run(cmd, cwd=cwd, timeout=timeout, env=env or GOENV, stdout=subprocess.PIPE, stderr=subprocess.PIPE, text=True)
    if check and p.returncode != 0:
        raise RuntimeError('command failed (%d): %s\n%s\n%s' % (p.returncode, ' '.join(cmd), p.stdout[-4000:], p.stderr[-4000:]))
    return p


def file_hashes(paths):
    out = {}
    for p in paths:
        fp = os.path.join(REPO, p)
        try:
            out[p] = hashlib.sha256(open(fp, 'rb').read()).hexdigest()[:16]
        except OSError:
            out[p] = 'missing'
    return out


# ----------------------------------------------------------------------------- Go tools, rebuilt every run
def build_go(moddir, name):
    """go build the module at /verif/<moddir> (which `replace`s the repo module by /repo) into the scratch dir."""
    out = os.path.join(scratch(), name)
    src = os.path.join(VERIF, moddir)
    # go.sum of the repo is the authority for module hashes (offline, GOFLAGS=-mod=mod)
    cmd = ['go', 'build', '-o', out, '.']
    if REPO != '/repo':
        # checks normally run against /repo; VERIF_REPO points them at another checkout (used to try seeded changes in scratch worktrees)
        mf = os.path.join(scratch(), name + '.mod')
        txt = open(os.path.join(src, 'go.mod')).read().replace('=> /repo', '=> ' + REPO)
        open(mf, 'w').write(txt)
        shutil.copy(os.path.join(src, 'go.sum'), os.path.join(scratch(), name + '.sum'))
        cmd = ['go', 'build', '-modfile=' + mf, '-o', out, '.']
    p = sh(cmd, cwd=src, check=False, timeout=900)
    if p.returncode != 0:
        raise BuildError(p.stdout + p.stderr)
    return out


class BuildError(Exception):
    pass


def run_dump(jobs, only=None, procs=None):
    """compile the jobs with the dumper built against the current /repo; returns {id: path of dump json}"""
    exe = os.path.join(scratch(), 'r2sdump')
    if not os.path.exists(exe):
        build_go('engine/r2s/dump', 'r2sdump')
    d = tempfile.mkdtemp(prefix='dump_', dir=scratch())
    jf = os.path.join(d, 'jobs.json')
    json.dump(jobs, open(jf, 'w'))
    # one dumper process per job chunk, in parallel
    np_ = min(procs or NCPU, NCPU, len(jobs))
    chunks = [jobs[i::np_] for i in range(np_)]
    procs = []
    for i, ch in enumerate(chunks):
        cf = os.path.join(d, 'jobs%d.json' % i)
        json.dump(ch, open(cf, 'w'))
        procs.append(subprocess.Popen([exe, cf, d], env=GOENV, stdout=subprocess.DEVNULL, stderr=subprocess.PIPE, text=True))
    for p in procs:
        _, err = p.communicate(timeout=3000)
        if p.returncode != 0:
            lines = [l for l in err.splitlines() if not l.startswith('r2sdump ') and not l.startswith('{')]
            raise BuildError('r2sdump exited %d: %s' % (p.returncode, '\n'.join(lines[-40:])[-3000:]))
    return {j['id']: os.path.join(d, j['id'] + '.json') for j in jobs}


def dumper_solve(job, values):
    exe = os.path.join(scratch(), 'r2sdump')
    if not os.path.exists(exe):
        build_go('engine/r2s/dump', 'r2sdump')
    d = tempfile.mkdtemp(prefix='solve_', dir=scratch())
    json.dump(job, open(d + '/job.json', 'w'))
    json.dump({'values': [str(v) for v in values]}, open(d + '/in.json', 'w'))
    sh([exe, 'solve', d + '/job.json', d + '/in.json', d + '/out.json'], timeout=3000)
    return json.load(open(d + '/out.json'))


def dumper_engine(job, values):
    """gnark test engine on a harness circuit over an arbitrary prime (job['field'] may be a decimal modulus)"""
    exe = os.path.join(scratch(), 'r2sdump')
    if not os.path.exists(exe):
        build_go('engine/r2s/dump', 'r2sdump')
    d = tempfile.mkdtemp(prefix='engine_', dir=scratch())
    json.dump(job, open(d + '/job.json', 'w'))
    json.dump({'values': [str(v) for v in values]}, open(d + '/in.json', 'w'))
    sh([exe, 'engine', d + '/job.json', d + '/in.json', d + '/out.json'], timeout=600)
    return json.load(open(d + '/out.json'))


def dumper_oracle(reqs):
    exe = os.path.join(scratch(), 'r2sdump')
    if not os.path.exists(exe):
        build_go('engine/r2s/dump', 'r2sdump')
    d = tempfile.mkdtemp(prefix='oracle_', dir=scratch())
    json.dump(reqs, open(d + '/in.json', 'w'))
    sh([exe, 'oracle', d + '/in.json', d + '/out.json'], timeout=600)
    return json.load(open(d + '/out.json'))


# ----------------------------------------------------------------------------- solving
def portfolio_solve(fs, timeout_s, on_sat=None, variants=8, stagger_s=None, grace_s=None):
    """Decide the conjunction of the z3 formulas `fs` with a restart portfolio, every attempt in a forked child that is killed
    at a hard deadline (z3's own timeout is a request: it has been seen to return after 857 s when asked for 180 s).

    Variant 0 is the query as built. z3's run time on the lifted R1CS queries is heavy-tailed in the ORDER of the assertions
    (same formula set: 12 s in one order, no answer in 850 s in another), so when variant 0 has not answered after `stagger_s`
    the other variants start beside it: the same formulas, shuffled with a fixed per-variant seed, solver random_seed = variant.
    Every variant decides the same formula set, so the first definitive verdict (sat / unsat) is the verdict; `unknown` is returned
    only when no variant answered before its deadline. `on_sat(solver)` runs in the child that found the model and must return
    picklable data (the model never crosses the process boundary otherwise).
    Solver processes of all pool workers share SOLVER_SLOTS (one per core): variant 0 waits for a slot, the extra variants only
    take slots that are free, so a tree on which many queries are hard does not starve the easy ones.
    Returns (verdict, seconds from start to verdict, on_sat payload or None, info dict)."""
    import pickle, random, select, signal
    stagger_s = min(timeout_s, stagger_s if stagger_s is not None else max(20.0, timeout_s / 8.0))
    grace_s = grace_s if grace_s is not None else (150.0 if on_sat else 15.0)
    fs = list(fs)
    live = {}          # read fd -> (pid, variant, hard deadline)
    bufs = {}
    info = {'variants_started': 0, 'answers': []}

    def start(k, block):
        if not SOLVER_SLOTS.acquire(block):
            return False
        r, w = os.pipe()
        sys.stdout.flush()
        sys.stderr.flush()
        pid = os.fork()
        if pid == 0:
            try:
                os.close(r)
                import z3
                fl = list(fs)
                s = z3.SimpleSolver()
                if k:
                    random.Random(k).shuffle(fl)
                    s.set('random_seed', k)
                s.set('timeout', int(timeout_s * 1000))
                s.add(*fl)
                t = time.time()
                v = str(s.check())
                secs = time.time() - t
                payload = on_sat(s) if (v == 'sat' and on_sat is not None) else None
                data = pickle.dumps((v, secs, payload, None))
            except BaseException as e:  # noqa
                data = pickle.dumps(('unknown', 0.0, None, repr(e)))
            try:
                with os.fdopen(w, 'wb') as f:
                    f.write(data)
            finally:
                os._exit(0)
        os.close(w)
        live[r] = (pid, k, time.time() + timeout_s + grace_s)
        bufs[r] = b''
        info['variants_started'] += 1
        return True

    def reap(fd, kill=False):
        pid, k, _ = live.pop(fd)
        if kill:
            try:
                os.kill(pid, signal.SIGKILL)
            except OSError:
                pass
        try:
            os.waitpid(pid, 0)
        except OSError:
            pass
        os.close(fd)
        SOLVER_SLOTS.release()
        return k

    verdict, payload, won = 'unknown', None, None
    pending = list(range(1, variants))
    try:
        start(0, True)
        t0 = time.time()
        while True:
            now = time.time()
            # extra variants: after the stagger (or as soon as variant 0 gave up), while the query's own budget lasts, on free slots only
            if pending and now - t0 < timeout_s and (now - t0 >= stagger_s or not live):
                while pending and start(pending[0], False):
                    pending.pop(0)
            if not live:
                if pending and now - t0 < timeout_s:
                    time.sleep(1.0)
                    continue
                break
            nxt = min(d for _, _, d in live.values())
            if pending:
                nxt = min(nxt, max(t0 + stagger_s, now + 1.0))
            ready, _, _ = select.select(list(live), [], [], max(0.0, min(nxt - now, 5.0)))
            for fd in ready:
                chunk = os.read(fd, 1 << 20)
                if chunk:
                    bufs[fd] += chunk
                    continue
                data = bufs.pop(fd)
                k = reap(fd)
                try:
                    v, secs, pl, err = pickle.loads(data)
                except Exception as e:  # noqa
                    v, secs, pl, err = 'unknown', 0.0, None, 'no answer from child: %r' % (e,)
                info['answers'].append({'variant': k, 'verdict': v, 'secs': round(secs, 2), **({'error': err} if err else {})})
                if v in ('sat', 'unsat') and won is None:
                    verdict, payload, won = v, pl, k
            if won is not None:
                break
            now = time.time()
            for fd in [fd for fd, (_, _, d) in live.items() if d <= now]:
                k = reap(fd, kill=True)
                bufs.pop(fd, None)
                info['answers'].append({'variant': k, 'verdict': 'killed at the hard deadline'})
    finally:
        for fd in list(live):
            reap(fd, kill=True)
    info['variant'] = won
    return verdict, time.time() - t0, payload, info


def z3_check(solver, timeout_s):
    import z3
    solver.set('timeout', int(timeout_s * 1000))
    t = time.time()
    r = solver.check()
    return str(r), time.time() - t


def cross_check_smt2(smt2_text, expect, timeout_s=120, solvers=('z3',)):
    """run dumped SMT-LIB2 through other solver binaries; returns {solver: verdict}"""
    out = {}
    d = tempfile.mkdtemp(prefix='smt_', dir=scratch())
    f = os.path.join(d, 'q.smt2')
    open(f, 'w').write('(set-logic ALL)\n' + smt2_text + '\n(check-sat)\n' if '(check-sat)' not in smt2_text else smt2_text)
    for s in solvers:
        cmd = {'z3': ['/usr/bin/z3', '-T:%d' % timeout_s, f], 'z3-new': ['z3-new', '-T:%d' % timeout_s, f],
               'cvc5': ['cvc5', '--tlimit=%d' % (timeout_s * 1000), f]}[s]
        try:
            p = subprocess.run(cmd, stdout=subprocess.PIPE, stderr=subprocess.PIPE, text=True, timeout=timeout_s + 30)
            txt = p.stdout.strip()
            if '(error' in txt or '(error' in p.stderr:
                out[s] = 'error'
            else:
                out[s] = txt.split('\n')[0] if txt else 'unknown'
        except subprocess.TimeoutExpired:
            out[s] = 'timeout'
    return out


# ----------------------------------------------------------------------------- run bookkeeping
class Run:
    def __init__(self, pid, level='other', anchors=()):
        self.pid = pid
        self.t0 = time.time()
        self.tier = 'quick'
        args = sys.argv[1:]
        if '--tier' in args:
            self.tier = args[args.index('--tier') + 1]
        elif os.environ.get('VERIF_TIER') in ('quick', 'thorough'):
            self.tier = os.environ['VERIF_TIER']
        self.replay = args[args.index('--replay') + 1] if '--replay' in args else None
        try:
            self.seed = int(os.environ.get('VERIF_SEED', '0'))
        except ValueError:
            self.seed = 0
        self.level = level
        self.obls = []          # dicts name, expect, verdict, secs, ...
        self.violations = []    # (what, replay path)
        self.known = []
        self.inconclusive = []
        self.reduced = []       # explorations cut by the budget after every assertion of the harness was reached and held: a smaller bound, stated
        self.notes = []
        self.assumptions = []
        self.samples = []
        self.extra = {}
        self.anchors = list(anchors)
        self.thorough = self.tier == 'thorough'
        self.findings = load_findings().get(pid, [])

    def log(self, *a):
        print('[%s %.1fs]' % (self.pid, time.time() - self.t0), *a, flush=True)

    def obligation(self, name, verdict, expect, secs=0.0, **kw):
        """record one solver obligation. verdict/expect in unsat|sat|unknown|..."""
        o = dict(name=name, verdict=verdict, expect=expect, secs=round(secs, 3))
        o.update(kw)
        self.obls.append(o)
        ok = verdict == expect
        if not ok and verdict not in ('sat', 'unsat'):
            self.inconclusive.append('%s: %s' % (name, verdict))
        return ok

    def violation(self, what, replay_obj, key=None):
        """a counterexample that reproduced against the real build. key identifies it for known_findings."""
        for f in self.findings:
            if f.get('status') == 'open' and key is not None and f.get('key') == key:
                self.known.append((what, key))
                return
        rdir = os.environ.get('VERIF_REPLAY_DIR') or os.path.join(VERIF, 'replays')
        os.makedirs(rdir, exist_ok=True)
        path = os.path.join(rdir, '%s_%d.json' % (self.pid, len(self.violations)))
        json.dump(replay_obj, open(path, 'w'), indent=1, default=str)
        self.violations.append((what, path))

    def finish(self, explanation, trusted_base=(), functions=(), bounds='', checker_cmd=None, coverage_extra=None):
        wall = time.time() - self.t0
        n = len(self.obls)
        disch = sum(1 for o in self.obls if o['verdict'] == o['expect'])
        cov = {
            'explanation': explanation,
            'obligations': n,
            'discharged': disch,
            'checker_cmd': checker_cmd or ('./check %s --tier %s' % (self.pid, self.tier)),
            'trusted_base': list(trusted_base),
            'functions_encoded': list(functions),
            'bounds': bounds,
            'solver_seconds': round(sum(o['secs'] for o in self.obls), 2),
            'queries': self.obls if n <= 400 else self.obls[:400],
            'queries_total': n,
            'samples': self.samples[:12] if self.samples else [o for o in self.obls[:3]],
            'evaluations': max(n, 1),
            'distinct_nontrivial': max(2, len(set(o['name'] for o in self.obls))),
            'rule': 'one evaluation = one SMT obligation (distinct by name); non-trivial = the solver was actually invoked on it',
            'source_hashes': file_hashes(self.anchors),
            'inconclusive': self.inconclusive,
            'reduced_bounds': self.reduced,
            'notes': self.notes,
            'known_findings_reported': [k for _, k in self.known],
        }
        cov.update(self.extra)
        if coverage_extra:
            cov.update(coverage_extra)
        ev = {'property_id': self.pid, 'tier': self.tier, 'seed': self.seed, 'level': self.level, 'coverage': cov,
              'assumptions': self.assumptions, 'wall_s': round(wall, 2), 'violations': len(self.violations)}
        evdir = os.environ.get('VERIF_EVIDENCE_DIR') or os.path.join(VERIF, 'evidence')
        os.makedirs(evdir, exist_ok=True)
        json.dump(ev, open(os.path.join(evdir, self.pid + '.json'), 'w'), indent=1, default=str)
        for what, key in self.known:
            print('KNOWN-FINDING: property=%s %s (%s)' % (self.pid, key, what))
        if self.violations:
            for what, path in self.violations:
                print('VIOLATION property=%s replay=%s' % (self.pid, path))
                print('  ' + what)
            sys.exit(1)
        if self.inconclusive or disch != n:
            for o in self.obls:
                if o['verdict'] != o['expect']:
                    print('INCONCLUSIVE property=%s obligation=%s verdict=%s expected=%s' % (self.pid, o['name'], o['verdict'], o['expect']))
            for s in self.inconclusive:
                print('INCONCLUSIVE property=%s %s' % (self.pid, s))
            sys.exit(2)
        for s in self.reduced:
            print('REDUCED-BOUND property=%s %s' % (self.pid, s))
        print('OK property=%s tier=%s obligations=%d wall=%.1fs' % (self.pid, self.tier, n, wall))
        sys.exit(0)

    def abort_inconclusive(self, why):
        self.inconclusive.append(why)
        self.finish('aborted: ' + why)


def load_findings():
    p = os.path.join(VERIF, 'known_findings.json')
    if not os.path.exists(p):
        return {}
    out = {}
    for f in json.load(open(p)).get('findings', []):
        out.setdefault(f['property'], []).append(f)
    return out


def pool_map(fn, tasks, workers=None):
    """run fn(task) in a process pool; yields (task, result or exception)"""
    workers = workers or NCPU
    if len(tasks) <= 1 or workers == 1:
        for t in tasks:
            try:
                yield t, fn(t)
            except Exception as e:  # noqa
                yield t, e
        return
    with ProcessPoolExecutor(max_workers=min(workers, len(tasks))) as ex:
        futs = {ex.submit(fn, t): t for t in tasks}
        for f in as_completed(futs):
            try:
                yield futs[f], f.result()
            except Exception as e:  # noqa
                yield futs[f], e


def main_guard(run, body):
    """run body(); unexpected exceptions -> INCONCLUSIVE (exit 2), BuildError likewise with the compiler message."""
    try:
        body()
    except SystemExit:
        raise
    except BuildError as e:
        print('INCONCLUSIVE property=%s harness does not build against the tree:\n%s' % (run.pid, str(e)[-3000:]))
        run.inconclusive.append('build error')
        run.finish('harness build failed')
    except Exception as e:  # noqa
        traceback.print_exc()
        run.inconclusive.append('exception: %r' % (e,))
        run.finish('exception')
