"""Reference Keccak-f[1600] / Keccak-256 / SHA3-256 written from the Keccak specification: round constants from the LFSR,
rotation offsets from the (t+1)(t+2)/2 walk. `permute` is generic over the lane type (Python ints or z3 bit-vectors)."""
MASK = (1 << 64) - 1


def _rc():
    out = []
    R = 1
    for rnd in range(24):
        rc = 0
        for j in range(7):
            # rc bit at position 2^j - 1 is the LFSR output
            if R & 1:
                rc |= 1 << ((1 << j) - 1)
            R <<= 1
            if R & 0x100:
                R ^= 0x171
        out.append(rc)
    return out


def _rot():
    r = [[0] * 5 for _ in range(5)]
    x, y = 1, 0
    for t in range(24):
        r[x][y] = ((t + 1) * (t + 2) // 2) % 64
        x, y = y, (2 * x + 3 * y) % 5
    return r


RC = _rc()
ROT_XY = _rot()   # ROT_XY[x][y]


def rol_int(v, n):
    n %= 64
    return ((v << n) | (v >> (64 - n))) & MASK if n else v


def round_(A, rc, rol=rol_int, xor=lambda a, b: a ^ b, andn=lambda a, b: (~a & MASK) & b, const=lambda c: c):
    """one round on A[x][y] lanes"""
    C = [xor(xor(xor(xor(A[x][0], A[x][1]), A[x][2]), A[x][3]), A[x][4]) for x in range(5)]
    D = [xor(C[(x + 4) % 5], rol(C[(x + 1) % 5], 1)) for x in range(5)]
    A = [[xor(A[x][y], D[x]) for y in range(5)] for x in range(5)]
    Bm = [[None] * 5 for _ in range(5)]
    for x in range(5):
        for y in range(5):
            Bm[y][(2 * x + 3 * y) % 5] = rol(A[x][y], ROT_XY[x][y])
    A = [[xor(Bm[x][y], andn(Bm[(x + 1) % 5][y], Bm[(x + 2) % 5][y])) for y in range(5)] for x in range(5)]
    A[0][0] = xor(A[0][0], const(rc))
    return A


def permute(A, **ops):
    for r in range(24):
        A = round_(A, RC[r], **ops)
    return A


def sponge(msg, domain):
    rate = 136
    p = bytearray(msg)
    p.append(domain)
    while len(p) % rate:
        p.append(0)
    p[-1] ^= 0x80
    A = [[0] * 5 for _ in range(5)]
    for off in range(0, len(p), rate):
        blk = p[off:off + rate]
        for i in range(rate // 8):
            x, y = i % 5, i // 5
            A[x][y] ^= int.from_bytes(blk[8 * i:8 * i + 8], 'little')
        A = permute(A)
    out = b''
    for i in range(4):
        x, y = i % 5, i // 5
        out += A[x][y].to_bytes(8, 'little')
    return out


def keccak256(msg):
    return sponge(msg, 0x01)


def sha3_256(msg):
    return sponge(msg, 0x06)


if __name__ == '__main__':
    import hashlib
    for m in (b'', b'abc', bytes(range(200)), b'\xff' * 136, b'\x00' * 135):
        assert sha3_256(m) == hashlib.sha3_256(m).digest(), m
    assert keccak256(b'').hex() == 'c5d2460186f7233c927e7db2dcc703c0e500b653ca82273b7bfad8045d85a470'
    assert RC[0] == 1 and RC[1] == 0x8082 and RC[23] == 0x8000000080008008, [hex(x) for x in RC]
    print('keccak_ref ok')
