"""C04: round lemma (real KeccakRound R1CS == reference round on BV64 lanes), schedule of KeccakF, sponge (lock-step congruence)."""
import json, os, sys, time
import z3
sys.path.insert(0, os.path.dirname(os.path.abspath(__file__)))
from lift import Lifter, ONE, Inconclusive, eval_r1cs
import keccak_ref


def solve(fs, timeout=120):
    s = z3.Solver()
    s.set('timeout', int(timeout * 1000))
    s.add(*fs)
    t = time.time()
    r = s.check()
    return str(r), time.time() - t, s


def tr_le(L, x):
    if 'const' in x:
        c = int(x['const']) % L.P
        return {ONE: c} if c else {}
    v = L.lin(x['le'])
    if v is None:
        raise Inconclusive('trace refers to an unvalued wire')
    return v


def bv_of(bools):
    """bits LSB-first (list of z3 Bool) -> BitVec"""
    bits = [z3.If(b, z3.BitVecVal(1, 1), z3.BitVecVal(0, 1)) for b in bools]
    return z3.Concat(*reversed(bits)) if len(bits) > 1 else bits[0]


BVOPS = dict(rol=lambda v, n: z3.RotateLeft(v, n % 64), xor=lambda a, b: a ^ b, andn=lambda a, b: ~a & b, const=lambda c: z3.BitVecVal(c, 64))


def summary_bits(L, rec, ins, outs):
    """KeccakRound / KeccakF summarised: fresh output bits (booleanity is part of the round lemma)"""
    for a in outs:
        at = L.atoms[a]
        if at['kind'] == 'F':
            L.defs[at['sym']] = ([at['z'] >= 0, at['z'] <= 1], set())


SUMMARY = {'keccak.KeccakRound': summary_bits, 'keccak.KeccakF': summary_bits}


def task_round(task):
    """lanes (x, *) of round r: real R1CS of KeccakRound{A, RC[r], R} vs reference round on 64-bit lanes, all 1600 input bits symbolic"""
    r, xs = task['r'], task['xs']
    d = json.load(open(task['path']))
    res = {'task': {k: v for k, v in task.items() if k != 'path'}, 'obls': []}
    if d.get('Error'):
        return dict(res, error='compile: ' + d['Error'])
    try:
        t0 = time.time()
        L = Lifter(d, intbits=False)
        res['lift_s'] = round(time.time() - t0, 1)
        res['constraints'] = len(d['Constraints'])
        calls = [e for e in d['Trace'] if e['gadget'] == 'keccak.KeccakRound']
        if len(calls) != 1:
            raise Inconclusive('expected one KeccakRound call in the harness')
        e = calls[0]
        used = set()
        # harness inputs A[x][y][k] are wires 1..1600 in (x,y,k) order, typed boolean by the harness
        A = [[None] * 5 for _ in range(5)]
        for x in range(5):
            for y in range(5):
                A[x][y] = [L.zbool(L.val[1 + (x * 5 + y) * 64 + k], used) for k in range(64)]
        ref = keccak_ref.round_([[bv_of(A[x][y]) for y in range(5)] for x in range(5)], keccak_ref.RC[r], **BVOPS)
        out = e['out']
        if task.get('first'):
            # structural: parameters handed to the gadget are the standard ones; the gadget has no failing assertion
            rcbits = [int(x.get('const', -1)) for x in e['in']['RC']]
            rot = [[int(v['const']) for v in row] for row in e['in']['RotationOffsets']]
            okp = rcbits == [(keccak_ref.RC[r] >> i) & 1 for i in range(64)] and rot == keccak_ref.ROT_XY
            res['obls'].append({'name': 'round %d: round constant and rotation offsets given to the gadget are the standard ones (independent LFSR / offset walk)' % r,
                                'verdict': 'unsat' if okp else 'sat', 'expect': 'unsat', 'secs': 0.0})
            inner = [a for a in L.assertions if a['kind'] == 'fn']
            res['obls'].append({'name': 'round %d: no constraint of the gadget can fail on boolean inputs (all internal assertions are tautologies)' % r,
                                'verdict': 'unsat' if not inner else 'sat', 'expect': 'unsat', 'secs': 0.0})
        for x in xs:
            for y in range(5):
                ou = set(used)
                bits = [L.zbool(tr_le(L, out[x][y][k]), ou) for k in range(64)]
                q = bv_of(bits) != ref[x][y]
                rr, secs, s = solve(L.closure(ou) + [q], task.get('timeout', 120))
                o = {'name': 'round %d lane (%d,%d): gadget output == reference round output (64 bits, all 1600 input bits symbolic)' % (r, x, y), 'verdict': rr, 'expect': 'unsat', 'secs': secs}
                if rr == 'sat':
                    m = s.model()
                    o['cex'] = {'state_bits': [[[1 if z3.is_true(m.eval(A[a][b][k], model_completion=True)) else 0 for k in range(64)] for b in range(5)] for a in range(5)], 'r': r}
                res['obls'].append(o)
    except Inconclusive as e:
        res['error'] = 'inconclusive: %s' % e
    return res


def round_replay(d, cex):
    """real R1CS of the round harness on the model's state, expected outputs from the reference: must be satisfied"""
    st = cex['state_bits']
    lanes = [[sum(b << k for k, b in enumerate(st[x][y])) for y in range(5)] for x in range(5)]
    ref = keccak_ref.round_(lanes, keccak_ref.RC[cex['r']])
    ins = [st[x][y][k] for x in range(5) for y in range(5) for k in range(64)] + [(ref[x][y] >> k) & 1 for x in range(5) for y in range(5) for k in range(64)]
    wires, failed = eval_r1cs(d, ins)
    return bool(failed), failed[:4]


def task_schedule(task):
    """KeccakF with KeccakRound summarised: 24 applications chained in order with RC[0..23] and the rotation table"""
    d = json.load(open(task['path']))
    res = {'task': {k: v for k, v in task.items() if k != 'path'}, 'obls': []}
    if d.get('Error'):
        return dict(res, error='compile: ' + d['Error'])
    try:
        L = Lifter(d, intbits=False, summary=SUMMARY)
        calls = [c for c in L.sumcalls if c[0]['gadget'] == 'keccak.KeccakRound']
        ok = len(calls) == 24
        why = None if ok else '%d round calls' % len(calls)
        prev = [L.canon(L.val[1 + i]) for i in range(1600)]
        for i, (rec, ins, outs) in enumerate(calls):
            f = {x['name']: x for x in rec['fields']}
            a0, r0 = f['A'].get('off', 0), f['RC'].get('off', 0)
            if [L.canon(x) for x in ins[a0:a0 + 1600]] != prev:
                ok, why = False, 'round %d does not consume the previous state in place' % i
                break
            rc = [x.get(ONE, 0) if set(x) <= {ONE} else None for x in ins[r0:r0 + 64]]
            if rc != [(keccak_ref.RC[i] >> k) & 1 for k in range(64)] or f['RotationOffsets']['value'] != keccak_ref.ROT_XY:
                ok, why = False, 'round %d gets a wrong round constant / rotation table' % i
                break
            prev = [L.canon({a: 1}) for a in outs]
        if ok:
            # final state is exposed through the harness equalities Out == last outputs
            last = calls[-1][2]
            exp = []
            for j, A in enumerate([a for a in L.assertions if a['kind'] == 'le']):
                le = A['cases'][0][1]
                exp.append(L.canon(le) in (L.canon(L.add({last[j]: 1}, L.val[1601 + j], L.P - 1)), L.canon(L.add(L.val[1601 + j], {last[j]: 1}, L.P - 1))))
            if len(exp) != 1600 or not all(exp):
                ok, why = False, 'the permutation does not return the state of the 24th round'
        res['obls'].append({'name': 'KeccakF = 24 rounds applied in order to the running state with RC[0..23] and the standard rotation table (wire identity on the summarised system)',
                            'verdict': 'unsat' if ok else 'sat', 'expect': 'unsat', 'secs': 0.0, 'cex': why})
    except Inconclusive as e:
        res['error'] = 'inconclusive: %s' % e
    return res


def sponge_chain(L, task, name, calls, nblk, padded, msg, nbits, rate, prefix, used):
    """lock-step of one chain of permutation calls against the reference sponge, then squeeze (and completeness for single-hash circuits)"""
    obls = []
    T, F = z3.BoolVal(True), z3.BoolVal(False)
    if len(calls) != nblk:
        obls.append({'name': name + ': number of permutation calls == number of padded blocks (%d)' % nblk, 'verdict': 'sat', 'expect': 'unsat', 'secs': 0.0,
                            'cex': {'calls': len(calls), 'blocks': nblk}})
        return obls
    state = [[[F] * 64 for _ in range(5)] for _ in range(5)]      # state[x][y][k]
    tot, worst = 0.0, 'unsat'
    cexm = None
    for b, (rec, ins, outs) in enumerate(calls):
        f = {x['name']: x for x in rec['fields']}
        a0 = f['A'].get('off', 0)
        okp = f['Rounds']['value'] == 24 and f['RotationOffsets']['value'] == keccak_ref.ROT_XY
        r0 = f['RoundConstants'].get('off', 0)
        rcs = [x.get(ONE, 0) if set(x) <= {ONE} else None for x in ins[r0:r0 + 1536]]
        okp = okp and rcs == [(rc >> i) & 1 for rc in keccak_ref.RC for i in range(64)]
        if not okp:
            obls.append({'name': name + ': permutation call %d has the standard parameters' % b, 'verdict': 'sat', 'expect': 'unsat', 'secs': 0.0})
            return obls
        blk = padded[b * rate:(b + 1) * rate]
        for i in range(rate // 64):
            x, y = i % 5, i // 5
            state[x][y] = [z3.Xor(state[x][y][k], blk[64 * i + k]) for k in range(64)]
        gin = [L.zbool(ins[a0 + (x * 5 + y) * 64 + k], used) for x in range(5) for y in range(5) for k in range(64)]
        rin = [state[x][y][k] for x in range(5) for y in range(5) for k in range(64)]
        q = z3.Or(*[gi != ri for gi, ri in zip(gin, rin)])
        r, secs, s = solve(L.closure(used) + [q], task.get('timeout', 120))
        tot += secs
        if r != 'unsat':
            worst = r
            if r == 'sat':
                m = s.model()
                cexm = {'msg_bits': [1 if z3.is_true(m.eval(x, model_completion=True)) else 0 for x in msg], 'block': b}
            break
        # congruence: same input => same output; both sides continue from the gadget's output bits
        ob = [L.zbool({a: 1}, used) for a in outs]
        state = [[[ob[(x * 5 + y) * 64 + k] for k in range(64)] for y in range(5)] for x in range(5)]
    o = {'name': name + ': state entering each of the %d permutation calls == reference sponge state (padding, domain, lane order x+5y)' % nblk, 'verdict': worst, 'expect': 'unsat', 'secs': tot, 'cex': cexm}
    obls.append(o)
    if worst == 'unsat':
        # squeeze: harness equalities Out[i] == digest bit i
        les = [a for a in L.assertions if a['kind'] == 'le']
        dig = [state[i % 5][i // 5][k] for i in range(4) for k in range(64)]
        outw = [L.zint(L.val[1 + nbits + (256 if prefix is not None else 0) + i], used) for i in range(256)]
        asserts = [L.zassertion(a, used) for a in les]
        q = z3.Or(*[(outw[i] == 1) != dig[i] for i in range(256)] + [z3.Not(z3.Or(outw[i] == 0, outw[i] == 1)) for i in range(256)])
        r, secs, s = solve(L.closure(used) + asserts + [q], task.get('timeout', 120))
        obls.append({'name': name + ': the 256 output bits are lanes (0,0),(1,0),(2,0),(3,0) of the final state, LSB first', 'verdict': r, 'expect': 'unsat', 'secs': secs,
                            'cex': {'msg_bits': [1 if z3.is_true(s.model().eval(x, model_completion=True)) else 0 for x in msg]} if r == 'sat' else None})
        if prefix is not None:
            return obls
        # completeness: with Out = those bits every constraint holds (no hidden assertion can fail)
        q2 = z3.And(*[(outw[i] == 1) == dig[i] for i in range(256)] + [z3.Or(outw[i] == 0, outw[i] == 1) for i in range(256)])
        allA = [L.zassertion(a, used) for a in L.assertions]
        r, secs, s = solve(L.closure(used) + [q2, z3.Not(z3.And(*allA))], task.get('timeout', 120))
        obls.append({'name': name + ': every boolean message with the reference digest satisfies all constraints', 'verdict': r, 'expect': 'unsat', 'secs': secs,
                            'cex': {'msg_bits': [1 if z3.is_true(s.model().eval(x, model_completion=True)) else 0 for x in msg]} if r == 'sat' else None})
    return obls


def task_sponge(task):
    """NewKeccak256 / NewSHA3_256 on n bytes with KeccakF summarised: lock-step against the reference pad10*1 sponge"""
    n, sha3 = task['n'], task['sha3']
    d = json.load(open(task['path']))
    res = {'task': {k: v for k, v in task.items() if k != 'path'}, 'obls': []}
    if d.get('Error'):
        return dict(res, error='compile: ' + d['Error'])
    name = '%s %d bytes' % ('sha3-256' if sha3 else 'keccak-256', n)
    prefix = task.get('prefix')        # history variant: the same circuit first hashes the prefix of the buffer (overlapping storage)
    if prefix is not None:
        name += ' after hashing its %d-byte prefix in the same circuit' % prefix
    try:
        t0 = time.time()
        L = Lifter(d, intbits=False, summary=SUMMARY)
        res['lift_s'] = round(time.time() - t0, 1)
        used = set()
        nbits = 8 * n
        msg = [L.zbool(L.val[1 + i], used) for i in range(nbits)]
        T, F = z3.BoolVal(True), z3.BoolVal(False)
        dom = 0x06 if sha3 else 0x01
        rate = 1088
        padded = list(msg) + [T if (dom >> i) & 1 else F for i in range(8)]
        while len(padded) % rate:
            padded.append(F)
        padded[-1] = T if z3.is_false(padded[-1]) else (F if z3.is_true(padded[-1]) else z3.Not(padded[-1]))   # final bit of pad10*1 (0x80)
        nblk = len(padded) // rate
        allcalls = [c for c in L.sumcalls if c[0]['gadget'] == 'keccak.KeccakF']
        if prefix is None:
            cands = [allcalls]
        else:
            # two hashes in one circuit: the permutation calls form two chains (a call whose inputs mention the outputs of another
            # follows it); the recorded order of the calls is not the order of the hashes. Every chain of the right length is tried as
            # "the hash of the whole buffer"; the squeeze obligation ties it to the second output.
            owner = {}
            for i, (_, _, outs_) in enumerate(allcalls):
                for a in outs_:
                    owner[a] = i
            pred = {}
            for j, (_, ins_, _) in enumerate(allcalls):
                ps = set(owner[a] for le in ins_ for a in le if a in owner)
                ps.discard(j)
                if len(ps) > 1:
                    raise Inconclusive('a permutation call depends on the outputs of %d other calls' % len(ps))
                if ps:
                    pred[j] = ps.pop()
            succ = {v: k for k, v in pred.items()}
            chains = []
            for r0 in [j for j in range(len(allcalls)) if j not in pred]:
                ch, cur = [], r0
                while cur is not None:
                    ch.append(allcalls[cur])
                    cur = succ.get(cur)
                chains.append(ch)
            cands = [ch for ch in chains if len(ch) == nblk]
            if not cands:
                cands = [[]]
        best = None
        for calls in cands:
            sub = sponge_chain(L, task, name, calls, nblk, padded, msg, nbits, rate, prefix, used)
            if best is None or all(o['verdict'] == o['expect'] for o in sub):
                best = sub
            if all(o['verdict'] == o['expect'] for o in sub):
                break
        res['obls'] += best
    except Inconclusive as e:
        res['error'] = 'inconclusive: %s' % e
    return res


def run_task(task):
    return {'round': task_round, 'schedule': task_schedule, 'sponge': task_sponge}[task['kind']](task)
