package main

import (
	"bytes"
	"crypto/sha256"
	"encoding/hex"
	"encoding/json"
	"math/big"
	"os"

	"github.com/consensys/gnark/constraint"
	iden3 "github.com/iden3/go-iden3-crypto/poseidon"
	"golang.org/x/crypto/sha3"
)

func digest(ccs constraint.ConstraintSystem) string {
	var buf bytes.Buffer
	if _, err := ccs.WriteTo(&buf); err != nil {
		return "error: " + err.Error()
	}
	s := sha256.Sum256(buf.Bytes())
	return hex.EncodeToString(s[:])
}

// oracle: concrete reference values from third-party libraries (iden3 Poseidon, x/crypto Keccak/SHA3),
// used for translator validation and for replaying counterexamples. Never a deciding step.
type oracleReq struct {
	Op   string   `json:"op"` // poseidon | keccak256 | sha3_256
	Args []string `json:"args"`
}

func oracle(inPath, outPath string) {
	var reqs []oracleReq
	mustRead(inPath, &reqs)
	out := make([]string, len(reqs))
	for i, r := range reqs {
		switch r.Op {
		case "poseidon":
			var in []*big.Int
			for _, a := range r.Args {
				bi, _ := new(big.Int).SetString(a, 10)
				in = append(in, bi)
			}
			h, err := iden3.Hash(in)
			if err != nil {
				out[i] = "error: " + err.Error()
			} else {
				out[i] = h.String()
			}
		case "keccak256":
			b, _ := hex.DecodeString(r.Args[0])
			h := sha3.NewLegacyKeccak256()
			h.Write(b)
			out[i] = hex.EncodeToString(h.Sum(nil))
		case "sha3_256":
			b, _ := hex.DecodeString(r.Args[0])
			s := sha3.Sum256(b)
			out[i] = hex.EncodeToString(s[:])
		}
	}
	f, _ := os.Create(outPath)
	json.NewEncoder(f).Encode(out)
	f.Close()
}
