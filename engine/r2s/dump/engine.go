package main

import (
	"math/big"
	"reflect"

	"github.com/consensys/gnark/frontend"
	"github.com/consensys/gnark/test"
)

// engineRun: run a job's harness circuit in gnark's test engine over an arbitrary prime modulus (decimal string in
// job.Field is allowed here), with the given values assigned to the Variable leaves in declaration order.
// Used only to replay counterexamples on fields the R1CS builder cannot compile (never a deciding step).
func assignVars(v reflect.Value, vals []*big.Int, k *int) {
	switch v.Kind() {
	case reflect.Ptr:
		assignVars(v.Elem(), vals, k)
	case reflect.Struct:
		for i := 0; i < v.NumField(); i++ {
			if v.Type().Field(i).PkgPath != "" {
				continue
			}
			assignVars(v.Field(i), vals, k)
		}
	case reflect.Interface:
		if v.Type() == varT && *k < len(vals) {
			v.Set(reflect.ValueOf(vals[*k]))
			*k++
		}
	case reflect.Slice, reflect.Array:
		for i := 0; i < v.Len(); i++ {
			assignVars(v.Index(i), vals, k)
		}
	}
}

func engineRun(j *job, in *solveIn) *solveOut {
	var f *big.Int
	if bi, ok := new(big.Int).SetString(j.Field, 10); ok {
		f = bi
	} else {
		f = fieldOf(j.Field)
	}
	c := circuitOf(j)
	w := circuitOf(j)
	vals := make([]*big.Int, len(in.Values))
	for i, s := range in.Values {
		vals[i], _ = new(big.Int).SetString(s, 10)
	}
	k := 0
	assignVars(reflect.ValueOf(w), vals, &k)
	out := &solveOut{}
	func() {
		defer func() {
			if r := recover(); r != nil {
				out.Error = "panic"
			}
		}()
		err := test.IsSolved(c, w, f)
		out.Solved = err == nil
		if err != nil {
			out.Error = err.Error()
		}
	}()
	return out
}

var _ = frontend.Variable(nil)
