module verif/r2sdump

go 1.23

require (
	github.com/consensys/gnark v0.8.0
	github.com/consensys/gnark-crypto v0.9.1
	github.com/iden3/go-iden3-crypto v0.0.13
	github.com/reilabs/gnark-lean-extractor/v2 v2.1.0
	github.com/rs/zerolog v1.29.0
	golang.org/x/crypto v0.25.0
	worldcoin/gnark-mbu v0.0.0
)

require (
	github.com/aws/aws-sdk-go-v2 v1.33.0 // indirect
	github.com/aws/aws-sdk-go-v2/aws/protocol/eventstream v1.6.7 // indirect
	github.com/aws/aws-sdk-go-v2/config v1.29.1 // indirect
	github.com/aws/aws-sdk-go-v2/credentials v1.17.54 // indirect
	github.com/aws/aws-sdk-go-v2/feature/ec2/imds v1.16.24 // indirect
	github.com/aws/aws-sdk-go-v2/feature/s3/manager v1.17.53 // indirect
	github.com/aws/aws-sdk-go-v2/internal/configsources v1.3.28 // indirect
	github.com/aws/aws-sdk-go-v2/internal/endpoints/v2 v2.6.28 // indirect
	github.com/aws/aws-sdk-go-v2/internal/ini v1.8.1 // indirect
	github.com/aws/aws-sdk-go-v2/internal/v4a v1.3.28 // indirect
	github.com/aws/aws-sdk-go-v2/service/internal/accept-encoding v1.12.1 // indirect
	github.com/aws/aws-sdk-go-v2/service/internal/checksum v1.5.2 // indirect
	github.com/aws/aws-sdk-go-v2/service/internal/presigned-url v1.12.9 // indirect
	github.com/aws/aws-sdk-go-v2/service/internal/s3shared v1.18.9 // indirect
	github.com/aws/aws-sdk-go-v2/service/s3 v1.74.0 // indirect
	github.com/aws/aws-sdk-go-v2/service/sso v1.24.11 // indirect
	github.com/aws/aws-sdk-go-v2/service/ssooidc v1.28.10 // indirect
	github.com/aws/aws-sdk-go-v2/service/sts v1.33.9 // indirect
	github.com/aws/smithy-go v1.22.1 // indirect
	github.com/blang/semver/v4 v4.0.0 // indirect
	github.com/consensys/bavard v0.1.13 // indirect
	github.com/davecgh/go-spew v1.1.2-0.20180830191138-d8f796af33cc // indirect
	github.com/fxamacker/cbor/v2 v2.4.0 // indirect
	github.com/google/pprof v0.0.0-20230817174616-7a8ec2ada47b // indirect
	github.com/mattn/go-colorable v0.1.13 // indirect
	github.com/mattn/go-isatty v0.0.20 // indirect
	github.com/mitchellh/copystructure v1.2.0 // indirect
	github.com/mitchellh/reflectwalk v1.0.2 // indirect
	github.com/mmcloughlin/addchain v0.4.0 // indirect
	github.com/pmezard/go-difflib v1.0.1-0.20181226105442-5d4384ee4fb2 // indirect
	github.com/stretchr/testify v1.9.0 // indirect
	github.com/x448/float16 v0.8.4 // indirect
	golang.org/x/exp v0.0.0-20230905200255-921286631fa9 // indirect
	golang.org/x/sys v0.23.0 // indirect
	gopkg.in/yaml.v3 v3.0.1 // indirect
	rsc.io/tmplfunc v0.0.3 // indirect
)

replace worldcoin/gnark-mbu => /repo
