// r2sdump: compiles harness circuits around the repo's real gadgets (and the repo's real
// top-level circuits) with gnark's real r1cs builder and dumps the resulting R1CS, hints,
// gadget summaries and call trace as JSON for the SMT lifter (engine/r2s/*.py).
//
// The builder handed to gnark wraps the real r1cs builder and adds abstractor.API.Call, so every
// abstractor.Call* in the repo goes through (*wrap).Call below: it records the call (trace) and
// either runs the real DefineGadget or - if the gadget is in the job's "abstract" set - replaces
// it by fresh hint wires tagged "verifSummary" (an uninterpreted summary given meaning on the SMT side).
//
// usage: r2sdump jobs.json outdir      (dump)
//        r2sdump solve job.json in.json out.json   (run gnark's own solver on a job's circuit)
package main

import (
	"encoding/json"
	"fmt"
	"math/big"
	"os"
	"reflect"
	"runtime"
	"runtime/debug"
	"strconv"
	"strings"

	"github.com/consensys/gnark-crypto/ecc"
	fr_bn254 "github.com/consensys/gnark-crypto/ecc/bn254/fr"
	"github.com/consensys/gnark/backend"
	"github.com/consensys/gnark/constraint"
	cs_bn254 "github.com/consensys/gnark/constraint/bn254"
	"github.com/consensys/gnark/frontend"
	"github.com/consensys/gnark/frontend/cs/r1cs"
	"github.com/consensys/gnark/logger"
	"github.com/reilabs/gnark-lean-extractor/v2/abstractor"
	"github.com/rs/zerolog"
	"worldcoin/gnark-mbu/prover"
	"worldcoin/gnark-mbu/prover/keccak"
	"worldcoin/gnark-mbu/prover/poseidon"
)

type jLE [][2]string

type field struct {
	Name  string      `json:"name"`
	Kind  string      `json:"kind"` // vars | int | ints
	Off   int         `json:"off,omitempty"`
	N     int         `json:"n,omitempty"`
	Shape []int       `json:"shape,omitempty"`
	Value interface{} `json:"value,omitempty"`
}

type summary struct {
	Key    int     `json:"key"`
	Gadget string  `json:"gadget"`
	Fields []field `json:"fields"`
	NIn    int     `json:"nin"`
	NOut   int     `json:"nout"`
	Depth  int     `json:"depth"`
}

type traceEntry struct {
	Seq    int         `json:"seq"`
	Gadget string      `json:"gadget"`
	Depth  int         `json:"depth"`
	Parent int         `json:"parent"`
	Abs    bool        `json:"abs"`
	In     interface{} `json:"in,omitempty"`
	Out    interface{} `json:"out,omitempty"`
}

type wrap struct {
	frontend.Builder
	abstract  map[string]bool
	traceSet  map[string]bool // gadgets whose in/out LEs are recorded ("*" = all)
	summaries []*summary
	trace     []*traceEntry
	depth     int
	stack     []int
	toBig     func(c *constraint.Coeff) *big.Int
}

func verifSummary(_ *big.Int, in []*big.Int, out []*big.Int) error {
	return fmt.Errorf("verifSummary: summarised gadget cannot be solved")
}

var varT = reflect.TypeOf((*frontend.Variable)(nil)).Elem()

func flatten(v reflect.Value, out *[]frontend.Variable, shape *[]int, lvl int) {
	switch v.Kind() {
	case reflect.Interface:
		if v.Type() == varT {
			*out = append(*out, v.Interface())
		}
	case reflect.Slice, reflect.Array:
		if len(*shape) == lvl {
			*shape = append(*shape, v.Len())
		}
		for i := 0; i < v.Len(); i++ {
			flatten(v.Index(i), out, shape, lvl+1)
		}
	}
}

func hasVars(t reflect.Type) bool {
	switch t.Kind() {
	case reflect.Interface:
		return t == varT
	case reflect.Slice, reflect.Array:
		return hasVars(t.Elem())
	}
	return false
}

func (w *wrap) describe(v reflect.Value) interface{} {
	if !v.IsValid() {
		return nil
	}
	if v.Kind() == reflect.Interface {
		if v.IsNil() {
			return nil
		}
		v = v.Elem()
	}
	t := v.Type()
	if t.String() == "expr.LinearExpression" {
		out := jLE{}
		for i := 0; i < v.Len(); i++ {
			term := v.Index(i)
			vid := term.FieldByName("VID").Int()
			var c constraint.Coeff
			cf := term.FieldByName("Coeff")
			for k := 0; k < 6; k++ {
				c[k] = cf.Index(k).Uint()
			}
			out = append(out, [2]string{w.toBig(&c).String(), strconv.Itoa(int(vid))})
		}
		return map[string]interface{}{"le": out}
	}
	switch v.Kind() {
	case reflect.Slice, reflect.Array:
		l := []interface{}{}
		for i := 0; i < v.Len(); i++ {
			l = append(l, w.describe(v.Index(i)))
		}
		return l
	case reflect.Int, reflect.Int64, reflect.Int32:
		return map[string]interface{}{"const": strconv.FormatInt(v.Int(), 10)}
	case reflect.Uint, reflect.Uint64, reflect.Uint32, reflect.Uint8:
		return map[string]interface{}{"const": strconv.FormatUint(v.Uint(), 10)}
	case reflect.Struct:
		if bi, ok := v.Interface().(big.Int); ok {
			return map[string]interface{}{"const": bi.String()}
		}
	case reflect.Ptr:
		if bi, ok := v.Interface().(*big.Int); ok {
			return map[string]interface{}{"const": bi.String()}
		}
	}
	return map[string]interface{}{"other": t.String()}
}

func intsOf(v reflect.Value) interface{} {
	switch v.Kind() {
	case reflect.Int, reflect.Int64:
		return v.Int()
	case reflect.Slice, reflect.Array:
		l := []interface{}{}
		for i := 0; i < v.Len(); i++ {
			l = append(l, intsOf(v.Index(i)))
		}
		return l
	}
	return nil
}

func shape3(outs []frontend.Variable) [][][]frontend.Variable {
	A := make([][][]frontend.Variable, 5)
	k := 0
	for x := 0; x < 5; x++ {
		A[x] = make([][]frontend.Variable, 5)
		for y := 0; y < 5; y++ {
			A[x][y] = outs[k : k+64]
			k += 64
		}
	}
	return A
}

func (w *wrap) Call(g abstractor.GadgetDefinition) interface{} {
	name := reflect.TypeOf(g).String()
	v := reflect.ValueOf(g)
	te := &traceEntry{Seq: len(w.trace), Gadget: name, Depth: w.depth, Parent: -1, Abs: w.abstract[name]}
	if len(w.stack) > 0 {
		te.Parent = w.stack[len(w.stack)-1]
	}
	rec := w.traceSet["*"] || w.traceSet[name]
	if rec {
		in := map[string]interface{}{}
		for i := 0; i < v.NumField(); i++ {
			in[v.Type().Field(i).Name] = w.describe(v.Field(i))
		}
		te.In = in
	}
	w.trace = append(w.trace, te)
	if !w.abstract[name] {
		w.depth++
		w.stack = append(w.stack, te.Seq)
		res := g.DefineGadget(w)
		w.stack = w.stack[:len(w.stack)-1]
		w.depth--
		if rec {
			te.Out = w.describe(reflect.ValueOf(res))
		}
		return res
	}
	s := &summary{Key: len(w.summaries), Gadget: name, Depth: w.depth}
	var ins []frontend.Variable
	for i := 0; i < v.NumField(); i++ {
		f := v.Field(i)
		fn := v.Type().Field(i).Name
		if hasVars(f.Type()) {
			off := len(ins)
			shape := []int{}
			flatten(f, &ins, &shape, 0)
			s.Fields = append(s.Fields, field{Name: fn, Kind: "vars", Off: off, N: len(ins) - off, Shape: shape})
		} else {
			s.Fields = append(s.Fields, field{Name: fn, Kind: "ints", Value: intsOf(f)})
		}
	}
	s.NIn = len(ins)
	geti := func(n string) int { return int(v.FieldByName(n).Int()) }
	nOut := 1
	switch name {
	case "keccak.KeccakGadget":
		nOut = geti("OutputSize")
	case "keccak.KeccakF", "keccak.KeccakRound":
		nOut = 1600
	case "prover.ToReducedBigEndian":
		nOut = geti("Size")
	case "keccak.Xor5", "keccak.Xor", "keccak.Rot", "keccak.And", "keccak.Not":
		nOut = 64
	case "prover.ReducedModRCheck":
		nOut = 1 // dummy wire, never used
	}
	s.NOut = nOut
	args := append([]frontend.Variable{s.Key}, ins...)
	outs, err := w.Builder.NewHint(verifSummary, nOut, args...)
	if err != nil {
		panic(err)
	}
	w.summaries = append(w.summaries, s)
	var res interface{}
	switch name {
	case "keccak.KeccakF", "keccak.KeccakRound":
		res = shape3(outs)
	case "keccak.KeccakGadget", "prover.ToReducedBigEndian", "keccak.Xor5", "keccak.Xor", "keccak.Rot", "keccak.And", "keccak.Not":
		res = outs
	case "prover.ReducedModRCheck":
		res = []frontend.Variable{}
	case "poseidon.Poseidon1", "poseidon.Poseidon2", "prover.ProofRound", "prover.VerifyProof", "prover.InsertionRound",
		"prover.InsertionProof", "prover.DeletionRound", "prover.DeletionProof", "prover.FromBinaryBigEndian", "keccak.Xor5Round":
		res = outs[0]
	default:
		panic("r2sdump: no output shape known for abstracted gadget " + name)
	}
	if rec {
		te.Out = w.describe(reflect.ValueOf(res))
	}
	return res
}

// ---------------------------------------------------------------------------------- harness circuits

type InsHarness struct {
	StartIndex, PreRoot, PostRoot frontend.Variable
	IdComms                       []frontend.Variable
	MerkleProofs                  [][]frontend.Variable
	B, D                          int
}

func (c *InsHarness) Define(api frontend.API) error {
	root := abstractor.Call(api, prover.InsertionProof{StartIndex: c.StartIndex, PreRoot: c.PreRoot, IdComms: c.IdComms,
		MerkleProofs: c.MerkleProofs, BatchSize: c.B, Depth: c.D})
	api.AssertIsEqual(root, c.PostRoot)
	return nil
}

type DelHarness struct {
	PreRoot, PostRoot frontend.Variable
	Idx, IdComms      []frontend.Variable
	MerkleProofs      [][]frontend.Variable
	B, D              int
}

func (c *DelHarness) Define(api frontend.API) error {
	root := abstractor.Call(api, prover.DeletionProof{DeletionIndices: c.Idx, PreRoot: c.PreRoot, IdComms: c.IdComms,
		MerkleProofs: c.MerkleProofs, BatchSize: c.B, Depth: c.D})
	api.AssertIsEqual(root, c.PostRoot)
	return nil
}

// KeccakRound harness: 1600 state bits in, 1600 out; round constant index r.
type KRHarness struct {
	A   [5][5][64]frontend.Variable
	Out [5][5][64]frontend.Variable
	r   int
}

func toA(a *[5][5][64]frontend.Variable) [][][]frontend.Variable {
	A := make([][][]frontend.Variable, 5)
	for x := 0; x < 5; x++ {
		A[x] = make([][]frontend.Variable, 5)
		for y := 0; y < 5; y++ {
			A[x][y] = make([]frontend.Variable, 64)
			copy(A[x][y], a[x][y][:])
		}
	}
	return A
}

func (c *KRHarness) Define(api frontend.API) error {
	for x := 0; x < 5; x++ {
		for y := 0; y < 5; y++ {
			for k := 0; k < 64; k++ {
				api.AssertIsBoolean(c.A[x][y][k])
			}
		}
	}
	res := abstractor.Call3(api, keccak.KeccakRound{A: toA(&c.A), RC: keccak.RC[c.r], RotationOffsets: keccak.R})
	for x := 0; x < 5; x++ {
		for y := 0; y < 5; y++ {
			for k := 0; k < 64; k++ {
				api.AssertIsEqual(res[x][y][k], c.Out[x][y][k])
			}
		}
	}
	return nil
}

// KeccakF harness (KeccakRound usually abstracted).
type KFHarness struct {
	A   [5][5][64]frontend.Variable
	Out [5][5][64]frontend.Variable
}

func (c *KFHarness) Define(api frontend.API) error {
	res := abstractor.Call3(api, keccak.KeccakF{A: toA(&c.A), Rounds: 24, RotationOffsets: keccak.R, RoundConstants: keccak.RC})
	for x := 0; x < 5; x++ {
		for y := 0; y < 5; y++ {
			for k := 0; k < 64; k++ {
				api.AssertIsEqual(res[x][y][k], c.Out[x][y][k])
			}
		}
	}
	return nil
}

// Sponge harness: message of len(In) bits -> 256 output bits; sha3 selects the FIPS domain.
type KHarness struct {
	In   []frontend.Variable
	Out  [256]frontend.Variable
	sha3 bool
}

func (c *KHarness) Define(api frontend.API) error {
	for _, b := range c.In {
		api.AssertIsBoolean(b)
	}
	var h []frontend.Variable
	if c.sha3 {
		h = keccak.NewSHA3_256(api, len(c.In), c.In...)
	} else {
		h = keccak.NewKeccak256(api, len(c.In), c.In...)
	}
	if len(h) != 256 {
		return fmt.Errorf("keccak output has %d bits", len(h))
	}
	for i := range h {
		api.AssertIsEqual(h[i], c.Out[i])
	}
	return nil
}

// History harness: two hashes in one circuit over overlapping storage -- first the k-byte prefix of a buffer (whose backing array
// has spare capacity, as slices handed around in Go usually have), then the whole n-byte buffer. Each call must hash exactly the
// data it is given, whatever was hashed before.
type KHistHarness struct {
	In     []frontend.Variable
	Out1   [256]frontend.Variable
	Out    [256]frontend.Variable
	prefix int
	sha3   bool
}

func (c *KHistHarness) Define(api frontend.API) error {
	for _, b := range c.In {
		api.AssertIsBoolean(b)
	}
	buf := make([]frontend.Variable, len(c.In), len(c.In)+4096)
	copy(buf, c.In)
	hash := func(data []frontend.Variable) []frontend.Variable {
		if c.sha3 {
			return keccak.NewSHA3_256(api, len(data), data...)
		}
		return keccak.NewKeccak256(api, len(data), data...)
	}
	h1 := hash(buf[:8*c.prefix])
	h2 := hash(buf)
	if len(h1) != 256 || len(h2) != 256 {
		return fmt.Errorf("keccak output has %d/%d bits", len(h1), len(h2))
	}
	for i := range h1 {
		api.AssertIsEqual(h1[i], c.Out1[i])
		api.AssertIsEqual(h2[i], c.Out[i])
	}
	return nil
}

type P2Harness struct{ A, B, Out frontend.Variable }

func (c *P2Harness) Define(api frontend.API) error {
	h := abstractor.Call(api, poseidon.Poseidon2{In1: c.A, In2: c.B})
	api.AssertIsEqual(h, c.Out)
	return nil
}

// Operands known at compile time (constants), alone and mixed with a variable: the gadget must still return the reference hash.
type PConstHarness struct {
	X   frontend.Variable
	Out [6]frontend.Variable
}

func (c *PConstHarness) Define(api frontend.API) error {
	hs := []frontend.Variable{
		abstractor.Call(api, poseidon.Poseidon2{In1: 3, In2: 5}),
		abstractor.Call(api, poseidon.Poseidon2{In1: 0, In2: 0}),
		abstractor.Call(api, poseidon.Poseidon1{In: 7}),
		abstractor.Call(api, poseidon.Poseidon1{In: 0}),
		abstractor.Call(api, poseidon.Poseidon2{In1: 11, In2: c.X}),
		abstractor.Call(api, poseidon.Poseidon2{In1: c.X, In2: 0}),
	}
	for i, h := range hs {
		api.AssertIsEqual(h, c.Out[i])
	}
	return nil
}

type P1Harness struct{ A, Out frontend.Variable }

func (c *P1Harness) Define(api frontend.API) error {
	h := abstractor.Call(api, poseidon.Poseidon1{In: c.A})
	api.AssertIsEqual(h, c.Out)
	return nil
}

// Repeated calls in one circuit: Poseidon2, Poseidon1, Poseidon2 on a previous result, a depth-2 VerifyProof (2 more Poseidon2
// calls through ProofRound), and a computed operand (2*A, a linear expression the builder may mutate in place) hashed three times.
// Each result is exposed via an equality with an input.
type PMultiHarness struct {
	A, B, C, S                 frontend.Variable
	D0, D1                     frontend.Variable
	O1, O2, O3, O4, O5, O6, O7 frontend.Variable
}

func (c *PMultiHarness) Define(api frontend.API) error {
	h1 := abstractor.Call(api, poseidon.Poseidon2{In1: c.A, In2: c.B})
	api.AssertIsEqual(h1, c.O1)
	h2 := abstractor.Call(api, poseidon.Poseidon1{In: c.C})
	api.AssertIsEqual(h2, c.O2)
	h3 := abstractor.Call(api, poseidon.Poseidon2{In1: c.B, In2: h1})
	api.AssertIsEqual(h3, c.O3)
	h4 := abstractor.Call(api, prover.VerifyProof{Proof: []frontend.Variable{c.A, c.B, c.C}, Path: []frontend.Variable{c.D0, c.D1}})
	api.AssertIsEqual(h4, c.O4)
	s := api.Add(c.A, c.A)
	h5 := abstractor.Call(api, poseidon.Poseidon2{In1: s, In2: c.B})
	api.AssertIsEqual(h5, c.O5)
	h6 := abstractor.Call(api, poseidon.Poseidon2{In1: s, In2: c.B})
	api.AssertIsEqual(h6, c.O6)
	h7 := abstractor.Call(api, poseidon.Poseidon1{In: s})
	api.AssertIsEqual(h7, c.O7)
	return nil
}

type RHarness struct{ In []frontend.Variable }

func (c *RHarness) Define(api frontend.API) error {
	abstractor.CallVoid(api, prover.ReducedModRCheck{Input: c.In})
	return nil
}

type TRHarness struct {
	V   frontend.Variable
	Out []frontend.Variable
	n   int
}

func (c *TRHarness) Define(api frontend.API) error {
	bits := abstractor.Call1(api, prover.ToReducedBigEndian{Variable: c.V, Size: c.n})
	if len(bits) != len(c.Out) {
		return fmt.Errorf("ToReducedBigEndian returned %d bits for size %d", len(bits), c.n)
	}
	for i := range bits {
		api.AssertIsEqual(bits[i], c.Out[i])
	}
	return nil
}

type FBHarness struct {
	In  []frontend.Variable
	Out frontend.Variable
}

func (c *FBHarness) Define(api frontend.API) error {
	v := abstractor.Call(api, prover.FromBinaryBigEndian{Variable: c.In})
	api.AssertIsEqual(v, c.Out)
	return nil
}

// ---------------------------------------------------------------------------------- jobs

type job struct {
	ID       string   `json:"id"`
	Kind     string   `json:"kind"`
	A        int      `json:"a"`
	B        int      `json:"b"`
	Field    string   `json:"field"`
	Abstract []string `json:"abstract"`
	Trace    []string `json:"trace"`
	NoWrap   bool     `json:"nowrap"` // compile with the plain r1cs.NewBuilder (what the repo itself does)
}

func fieldOf(name string) *big.Int {
	switch name {
	case "", "bn254":
		return ecc.BN254.ScalarField()
	case "bls12_377":
		return ecc.BLS12_377.ScalarField()
	case "bls12_381":
		return ecc.BLS12_381.ScalarField()
	case "bls24_315":
		return ecc.BLS24_315.ScalarField()
	case "bls24_317":
		return ecc.BLS24_317.ScalarField()
	case "bw6_633":
		return ecc.BW6_633.ScalarField()
	case "bw6_761":
		return ecc.BW6_761.ScalarField()
	case "tiny":
		return big.NewInt(47)
	}
	panic("unknown field " + name)
}

func proofs(b, d int) [][]frontend.Variable {
	p := make([][]frontend.Variable, b)
	for i := range p {
		p[i] = make([]frontend.Variable, d)
	}
	return p
}

func circuitOf(j *job) frontend.Circuit {
	a, b := j.A, j.B
	switch j.Kind {
	case "insproof": // a=D b=B
		return &InsHarness{D: a, B: b, IdComms: make([]frontend.Variable, b), MerkleProofs: proofs(b, a)}
	case "delproof":
		return &DelHarness{D: a, B: b, Idx: make([]frontend.Variable, b), IdComms: make([]frontend.Variable, b), MerkleProofs: proofs(b, a)}
	case "ins_full":
		return &prover.InsertionMbuCircuit{Depth: a, BatchSize: b, IdComms: make([]frontend.Variable, b), MerkleProofs: proofs(b, a)}
	case "del_full":
		return &prover.DeletionMbuCircuit{Depth: a, BatchSize: b, DeletionIndices: make([]frontend.Variable, b),
			IdComms: make([]frontend.Variable, b), MerkleProofs: proofs(b, a)}
	case "keccakround": // a = round index
		return &KRHarness{r: a}
	case "keccakf":
		return &KFHarness{}
	case "keccak": // a = bytes, b = 1 for sha3
		return &KHarness{In: make([]frontend.Variable, 8*a), sha3: b == 1}
	case "keccak_hist": // a = bytes, b = prefix bytes hashed first (keccak-256); c = 1 for sha3 is encoded as a negative b
		if b < 0 {
			return &KHistHarness{In: make([]frontend.Variable, 8*a), prefix: -b, sha3: true}
		}
		return &KHistHarness{In: make([]frontend.Variable, 8*a), prefix: b}
	case "keccakbits": // a = bits (not necessarily byte aligned)
		return &KHarness{In: make([]frontend.Variable, a), sha3: b == 1}
	case "poseidon2":
		return &P2Harness{}
	case "poseidon1":
		return &P1Harness{}
	case "poseidon_const":
		return &PConstHarness{}
	case "poseidon_multi":
		return &PMultiHarness{}
	case "rmod": // a = nbits
		return &RHarness{In: make([]frontend.Variable, a)}
	case "trbe":
		return &TRHarness{n: a, Out: make([]frontend.Variable, a)}
	case "fbbe":
		return &FBHarness{In: make([]frontend.Variable, a)}
	}
	panic("unknown job kind " + j.Kind)
}

type jR1C struct{ L, R, O jLE }
type jHint struct {
	Name   string
	Inputs []jLE
	Wires  []int
}
type dump struct {
	ID          string
	Kind        string
	A, B        int
	Field       string
	FieldName   string
	Public      []string
	Secret      []string
	NbInternal  int
	Constraints []jR1C
	Hints       []jHint
	Summaries   []*summary
	Trace       []*traceEntry
	Error       string
	Digest      string // sha256 of ccs.WriteTo, for the pass-through transparency check
}

func compile(j *job) (constraint.ConstraintSystem, *wrap, error) {
	f := fieldOf(j.Field)
	c := circuitOf(j)
	if j.Kind == "build_ins" || j.Kind == "build_del" {
		panic("handled by caller")
	}
	if j.NoWrap {
		ccs, err := frontend.Compile(f, r1cs.NewBuilder, c, frontend.IgnoreUnconstrainedInputs())
		return ccs, nil, err
	}
	abs := map[string]bool{}
	for _, n := range j.Abstract {
		abs[n] = true
	}
	ts := map[string]bool{}
	for _, n := range j.Trace {
		ts[n] = true
	}
	var w *wrap
	nb := func(f *big.Int, cfg frontend.CompileConfig) (frontend.Builder, error) {
		bb, err := r1cs.NewBuilder(f, cfg)
		w = &wrap{Builder: bb, abstract: abs, traceSet: ts}
		return w, err
	}
	// toBig is needed during compilation (trace); use a throw-away system of the same field
	tmp, _ := frontend.Compile(f, r1cs.NewBuilder, &RHarness{In: make([]frontend.Variable, 1)}, frontend.IgnoreUnconstrainedInputs())
	tb := toBigOf(tmp)
	var ccs constraint.ConstraintSystem
	var err error
	func() {
		defer func() {
			if r := recover(); r != nil {
				err = fmt.Errorf("panic during compile: %v", r)
			}
		}()
		ccsi, e := frontend.Compile(f, func(f *big.Int, cfg frontend.CompileConfig) (frontend.Builder, error) {
			b, e := nb(f, cfg)
			w.toBig = tb
			return b, e
		}, c, frontend.IgnoreUnconstrainedInputs())
		ccs, err = ccsi, e
	}()
	return ccs, w, err
}

func toBigOf(ccs constraint.ConstraintSystem) func(c *constraint.Coeff) *big.Int {
	m := reflect.ValueOf(ccs).MethodByName("ToBigInt")
	return func(c *constraint.Coeff) *big.Int {
		out := m.Call([]reflect.Value{reflect.ValueOf(c)})
		return out[0].Interface().(*big.Int)
	}
}

func dumpCCS(ccs constraint.ConstraintSystem, d *dump) {
	rr := ccs.(constraint.R1CS)
	cons, _ := rr.GetConstraints()
	sv := reflect.ValueOf(ccs).Elem()
	sys := sv.FieldByName("R1CSCore").Addr().Interface().(*constraint.R1CSCore)
	coeffs := sv.FieldByName("Coefficients")
	cache := map[int]string{}
	coeff := func(i int) string {
		if s, ok := cache[i]; ok {
			return s
		}
		e := coeffs.Index(i).Addr()
		bi := new(big.Int)
		out := e.MethodByName("BigInt").Call([]reflect.Value{reflect.ValueOf(bi)})
		s := out[0].Interface().(*big.Int).String()
		cache[i] = s
		return s
	}
	le := func(l constraint.LinearExpression) jLE {
		out := jLE{}
		for _, t := range l {
			out = append(out, [2]string{coeff(t.CoeffID()), strconv.Itoa(t.WireID())})
		}
		return out
	}
	d.Public, d.Secret, d.NbInternal = sys.Public, sys.Secret, sys.NbInternalVariables
	for _, c := range cons {
		d.Constraints = append(d.Constraints, jR1C{le(c.L), le(c.R), le(c.O)})
	}
	seen := map[*constraint.Hint]bool{}
	for wid := 0; wid < sys.NbInternalVariables+len(sys.Public)+len(sys.Secret); wid++ {
		h, ok := sys.MHints[wid]
		if !ok || seen[h] {
			continue
		}
		seen[h] = true
		jh := jHint{Name: sys.MHintsDependencies[h.ID], Wires: h.Wires}
		for _, in := range h.Inputs {
			jh.Inputs = append(jh.Inputs, le(in))
		}
		d.Hints = append(d.Hints, jh)
	}
}

func runJob(j *job, outdir string) {
	d := dump{ID: j.ID, Kind: j.Kind, A: j.A, B: j.B, FieldName: j.Field}
	var ccs constraint.ConstraintSystem
	var w *wrap
	var err error
	func() {
		defer func() {
			if r := recover(); r != nil {
				err = fmt.Errorf("panic: %v", r)
			}
		}()
		switch j.Kind {
		case "build_ins":
			ccs, err = prover.BuildR1CSInsertion(uint32(j.A), uint32(j.B))
		case "build_del":
			ccs, err = prover.BuildR1CSDeletion(uint32(j.A), uint32(j.B))
		default:
			ccs, w, err = compile(j)
		}
	}()
	if err != nil {
		d.Error = err.Error()
	} else {
		d.Field = ccs.Field().String()
		dumpCCS(ccs, &d)
		if w != nil {
			d.Summaries = w.summaries
			d.Trace = w.trace
		}
		d.Digest = digest(ccs)
	}
	f, e := os.Create(outdir + "/" + j.ID + ".json")
	if e != nil {
		panic(e)
	}
	if e := json.NewEncoder(f).Encode(&d); e != nil {
		panic(e)
	}
	f.Close()
	fmt.Fprintf(os.Stderr, "r2sdump %s: constraints=%d internal=%d hints=%d summaries=%d err=%q\n", j.ID, len(d.Constraints), d.NbInternal, len(d.Hints), len(d.Summaries), d.Error)
}

// ---------------------------------------------------------------------------------- solve (gnark's own solver, honest hints)

type solveIn struct {
	Values []string `json:"values"` // decimal, in schema order: public then secret (without the constant wire)
}
type solveOut struct {
	Solved bool     `json:"solved"`
	Error  string   `json:"error"`
	Wires  []string `json:"wires,omitempty"`
}

func solve(j *job, in *solveIn) *solveOut {
	var ccs constraint.ConstraintSystem
	var err error
	switch j.Kind {
	case "build_ins":
		ccs, err = prover.BuildR1CSInsertion(uint32(j.A), uint32(j.B))
	case "build_del":
		ccs, err = prover.BuildR1CSDeletion(uint32(j.A), uint32(j.B))
	default:
		j.NoWrap = true
		ccs, _, err = compile(j)
	}
	if err != nil {
		return &solveOut{Error: "compile: " + err.Error()}
	}
	r, ok := ccs.(*cs_bn254.R1CS)
	if !ok {
		return &solveOut{Error: "solve only supports bn254"}
	}
	nPub := len(r.Public) - 1
	nSec := len(r.Secret)
	if len(in.Values) != nPub+nSec {
		return &solveOut{Error: fmt.Sprintf("expected %d values, got %d", nPub+nSec, len(in.Values))}
	}
	w := make(fr_bn254.Vector, nPub+nSec)
	for i, s := range in.Values {
		bi, ok := new(big.Int).SetString(s, 10)
		if !ok {
			return &solveOut{Error: "bad value " + s}
		}
		w[i].SetBigInt(bi)
	}
	n := len(r.Constraints)
	a := make(fr_bn254.Vector, n)
	b := make(fr_bn254.Vector, n)
	c := make(fr_bn254.Vector, n)
	opt, _ := backend.NewProverConfig()
	sol, err := r.Solve(w, a, b, c, opt)
	out := &solveOut{Solved: err == nil}
	if err != nil {
		out.Error = err.Error()
	}
	for i := range sol {
		var bi big.Int
		sol[i].BigInt(&bi)
		out.Wires = append(out.Wires, bi.String())
	}
	return out
}

func main() {
	logger.Set(zerolog.New(os.Stderr).Level(zerolog.WarnLevel))
	if len(os.Args) >= 2 && os.Args[1] == "solve" {
		var j job
		var in solveIn
		mustRead(os.Args[2], &j)
		mustRead(os.Args[3], &in)
		out := solve(&j, &in)
		f, _ := os.Create(os.Args[4])
		json.NewEncoder(f).Encode(out)
		f.Close()
		return
	}
	if len(os.Args) >= 2 && os.Args[1] == "lean" {
		d, _ := strconv.Atoi(os.Args[2])
		b, _ := strconv.Atoi(os.Args[3])
		txt, err := prover.ExtractLean(uint32(d), uint32(b))
		if err != nil {
			fmt.Fprintln(os.Stderr, "ExtractLean:", err)
			os.Exit(3)
		}
		os.WriteFile(os.Args[4], []byte(txt), 0o644)
		return
	}
	if len(os.Args) >= 2 && os.Args[1] == "engine" {
		var j job
		var in solveIn
		mustRead(os.Args[2], &j)
		mustRead(os.Args[3], &in)
		out := engineRun(&j, &in)
		f, _ := os.Create(os.Args[4])
		json.NewEncoder(f).Encode(out)
		f.Close()
		return
	}
	if len(os.Args) >= 2 && os.Args[1] == "oracle" {
		oracle(os.Args[2], os.Args[3])
		return
	}
	var jobs []job
	mustRead(os.Args[1], &jobs)
	only := ""
	if len(os.Args) > 3 {
		only = os.Args[3]
	}
	for i := range jobs {
		if only != "" && !strings.HasPrefix(jobs[i].ID, only) {
			continue
		}
		runJob(&jobs[i], os.Args[2])
		runtime.GC()
		debug.FreeOSMemory()
	}
}

func mustRead(path string, v interface{}) {
	b, err := os.ReadFile(path)
	if err != nil {
		panic(err)
	}
	if err := json.Unmarshal(b, v); err != nil {
		panic(err)
	}
}
