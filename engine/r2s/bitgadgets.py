"""C06 (and summaries reused by C03): ReducedModRCheck, ToReducedBigEndian, FromBinaryBigEndian on the lifted R1CS."""
import json, os, sys, time
import z3
sys.path.insert(0, os.path.dirname(os.path.abspath(__file__)))
from lift import Lifter, ONE, Inconclusive, eval_r1cs


def solve(fs, timeout=120):
    s = z3.SimpleSolver()
    s.set('timeout', int(timeout * 1000))
    s.add(*fs)
    t = time.time()
    r = s.check()
    return str(r), time.time() - t, s


# --------------------------------------------------------------------------- summaries (justified by the C06 obligations)
def rmod_summary(L, rec, ins, outs):
    """ReducedModRCheck{Input}: accepts iff every input is boolean and, when len >= bitlen(p), sum in_i 2^i < p."""
    n = len(ins)

    def cond(used):
        if n < L.P.bit_length():
            return z3.BoolVal(True)
        vals = [L.zint(x, used) for x in ins]
        return z3.And(*([z3.And(v >= 0, v <= 1) for v in vals if not z3.is_int_value(v)] + [z3.Sum([(1 << i) * vals[i] for i in range(n)]) < L.P]))
    L.sum_conditions.append(('ReducedModRCheck[%d]' % n, cond))
    z = L.atoms[outs[0]]['z']
    L.defs[L.atoms[outs[0]]['sym']] = ([], set())


def trbe_summary(L, rec, ins, outs):
    """ToReducedBigEndian{Variable, Size=n}: outputs are the n boolean digits of the canonical value, bytes reversed.
    out[k*8+t] = digit[(n/8-1-k)*8+t], sum digit_i 2^i = value (as integers), value < 2^n."""
    n = len(outs)
    v = ins[0]
    rec['_digits'] = [outs[(n // 8 - 1 - (i // 8)) * 8 + (i % 8)] for i in range(n)]   # digit i -> output atom

    def cond(used):
        val = L.zint(v, used)
        ds = [L.zatom(a, used) for a in rec['_digits']]
        return z3.And(*([z3.And(d >= 0, d <= 1) for d in ds] + [z3.Sum([(1 << i) * ds[i] for i in range(n)]) == val]))
    L.sum_conditions.append(('ToReducedBigEndian[%d]' % n, cond))
    for a in outs:
        at = L.atoms[a]
        if at['kind'] == 'F':
            L.defs[at['sym']] = ([z3.And(at['z'] >= 0, at['z'] <= 1)], set())


def fbbe_summary(L, rec, ins, outs):
    """FromBinaryBigEndian{Variable[n]}: inputs must be boolean; out = sum in[k*8+t] 2^((n/8-1-k)*8+t) mod p."""
    n = len(ins)

    def cond(used):
        vals = [L.zint(x, used) for x in ins]
        o = L.zatom(outs[0], used)
        L.aux += 1
        k = z3.Int('fbq_%s%d' % (L.tag, L.aux))
        tot = z3.Sum([(1 << ((n // 8 - 1 - (i // 8)) * 8 + (i % 8))) * vals[i] for i in range(n)])
        L.defs[str(k)] = ([k * L.P <= tot, tot < k * L.P + L.P], set())
        used.add(str(k))
        return z3.And(*([z3.And(v >= 0, v <= 1) for v in vals] + [tot == o + k * L.P]))
    L.sum_conditions.append(('FromBinaryBigEndian[%d]' % n, cond))


SUMMARY = {'prover.ReducedModRCheck': rmod_summary, 'prover.ToReducedBigEndian': trbe_summary, 'prover.FromBinaryBigEndian': fbbe_summary}


# --------------------------------------------------------------------------- obligations
def task_rmod(task):
    """ReducedModRCheck{Input[n]} over field p: ok(bits) <=> bits <_u p (QF_BV), every digit forced boolean."""
    d = json.load(open(task['path']))
    n, res = task['n'], {'task': {k: v for k, v in task.items() if k != 'path'}, 'obls': []}
    if d.get('Error'):
        return dict(res, error='compile: ' + d['Error'])
    P = int(d['Field'])
    bl = P.bit_length()
    name = 'rmod %s n=%d' % (task['field'], n)
    try:
        ncons = len(d['Constraints'] or [])
        res['constraints'] = ncons
        if n < bl:
            # gadget must add no constraint at all; and indeed every n-bit value is below p
            x = z3.BitVec('x', bl)
            r, secs, s = solve([z3.ULT(x, 1 << n), z3.Not(z3.ULT(x, P))])
            res['obls'].append({'name': name + ' (n < bitlen): every n-bit value is < p', 'verdict': r, 'expect': 'unsat', 'secs': secs})
            res['obls'].append({'name': name + ' (n < bitlen): gadget emits no constraint (structural)', 'verdict': 'unsat' if ncons == 0 else 'sat', 'expect': 'unsat', 'secs': 0.0,
                                'cex': None if ncons == 0 else {'constraints': ncons}})
            return res
        L = Lifter(d, intbits=False)
        ins = [L.in_atoms[i] for i in range(1, L.nin)]
        if len(ins) != n:
            raise Inconclusive('harness has %d inputs, expected %d' % (len(ins), n))
        untyped = [a for a in ins if L.atoms[a]['kind'] != 'B']
        used = set()
        asserts = [L.zassertion(A, used) for A in L.assertions]
        ok = z3.And(*asserts) if asserts else z3.BoolVal(True)
        bits = []
        for a in ins:
            at = L.atoms[a]
            bits.append(z3.If(at['z'], z3.BitVecVal(1, 1), z3.BitVecVal(0, 1)) if at['kind'] == 'B' else None)
        if untyped:
            # some digit is not forced boolean by the gadget: a non-boolean digit can be accepted
            res['obls'].append({'name': name + ': every digit is constrained boolean', 'verdict': 'sat', 'expect': 'unsat', 'secs': 0.0,
                                'cex': {'untyped_inputs': [L.atoms[a]['name'] for a in untyped]}})
            return res
        x = z3.Concat(*reversed(bits)) if n > 1 else bits[0]
        spec = z3.ULT(x, z3.BitVecVal(P, n))
        base = L.closure(used)
        r, secs, s = solve(base + [ok != spec], task.get('timeout', 120))
        o = {'name': name + ': accepted <=> bits <_u p', 'verdict': r, 'expect': 'unsat', 'secs': secs}
        if r == 'sat':
            m = s.model()
            o['cex'] = {'bits_le': [1 if z3.is_true(m.eval(L.atoms[a]['z'], model_completion=True)) else 0 for a in ins],
                        'gadget_accepts': z3.is_true(m.eval(ok, model_completion=True))}
        res['obls'].append(o)
        for want, nm in ((True, 'accepting'), (False, 'rejecting')):
            r, secs, s = solve(base + [ok == want], 60)
            res['obls'].append({'name': name + ' twin: an %s assignment exists' % nm, 'verdict': r, 'expect': 'sat', 'secs': secs})
        # booleanity of each digit enforced by its own constraint (field axioms: x(1-x)=0 => x in {0,1})
        L2 = Lifter(d, prescan=False, name='u')
        t0 = time.time()
        bad = []
        for wi in range(1, L2.nin):
            a = L2.in_atoms[wi]
            z = L2.atoms[a]['z']
            used2 = set()
            mine = [L2.zassertion(A, used2) for A in L2.assertions if A['kind'] == 'le' and booleanity_of(L2, A, a)]
            r, secs, s = solve(L2.closure(used2) + mine + [z != 0, z != 1], 30)
            if r != 'unsat':
                bad.append(wi)
        res['obls'].append({'name': name + ': each of the %d digits individually forced into {0,1} (untyped lifting + field axioms)' % n,
                            'verdict': 'unsat' if not bad else 'sat', 'expect': 'unsat', 'secs': time.time() - t0, 'cex': {'digits': bad} if bad else None})
    except Inconclusive as e:
        res['error'] = 'inconclusive: %s' % e
    return res


def booleanity_of(L, A, a):
    """assertion A is fmul(x, 1-x) == 0 for atom a (untyped lifting)"""
    for cnd, le in A['cases']:
        for k in le:
            if k != ONE and L.atoms[k].get('fm'):
                mL, mR = L.atoms[k]['fm']
                if a in mL or a in mR:
                    return True
    return False


def rmod_replay(d, bits_le):
    """concrete: does the real R1CS accept these digits? (independent evaluator)"""
    wires, failed = eval_r1cs(d, bits_le)
    P = int(d['Field'])
    v = sum(b << i for i, b in enumerate(bits_le))
    return {'circuit_accepts': not failed, 'value_lt_p': v < P and all(b in (0, 1) for b in bits_le)}


def task_trbe(task):
    """ToReducedBigEndian{v,n}: soundness with NBits outputs free, completeness with honest hint; ReducedModRCheck summarised."""
    d = json.load(open(task['path']))
    n, res = task['n'], {'task': {k: v for k, v in task.items() if k != 'path'}, 'obls': []}
    if d.get('Error'):
        return dict(res, error='compile: ' + d['Error'])
    name = 'trbe %s n=%d' % (task['field'], n)
    try:
        L = Lifter(d, summary=SUMMARY)
        P = L.P
        res['constraints'] = len(d['Constraints'])
        if L.nin != n + 2:
            raise Inconclusive('harness inputs %d != %d' % (L.nin, n + 2))
        if not L.nbits:
            raise Inconclusive('no NBits decomposition found')
        used = set()
        V = L.zint(L.val[1], used)
        outs = [L.zint(L.val[2 + i], used) for i in range(n)]
        # the specification does not mention the hints: the emitted string, read back in little-endian bit order, is the binary
        # representation of the (canonical) value
        dig_of_out = lambda outs_: [outs_[(n // 8 - 1 - j // 8) * 8 + j % 8] for j in range(n)]
        digs = dig_of_out(outs)
        hint_digs = [[L.zint(b, used) for b in hb_] for _, hb_ in L.nbits]
        asserts = L.all_assertions(used)
        conds = [c(used) for _, c in L.sum_conditions]
        spec = z3.And(*([z3.And(x >= 0, x <= 1) for x in digs] + [z3.Sum([(1 << i) * digs[i] for i in range(n)]) == V]))
        base = L.closure(used)
        r, secs, s = solve(base + asserts + conds + [z3.Not(spec)], task.get('timeout', 120))
        o = {'name': name + ' soundness (all %d hint decompositions free): constraints & not Spec' % len(L.nbits), 'verdict': r, 'expect': 'unsat', 'secs': secs}
        if r == 'sat':
            m = s.model()
            iv = lambda t: int(str(m.eval(t, model_completion=True)))
            o['cex'] = {'V': iv(V), 'out': [iv(x) for x in outs], 'hints': [[iv(x) for x in hd] for hd in hint_digs]}
        res['obls'].append(o)
        r, secs, s = solve(base + asserts + conds, 60)
        res['obls'].append({'name': name + ' soundness twin', 'verdict': r, 'expect': 'sat', 'secs': secs})
        # completeness
        import merkle
        used = set()
        V = L.zint(L.val[1], used)
        outs = [L.zint(L.val[2 + i], used) for i in range(n)]
        # under the honest-hint contract the outputs of any NBits decomposition of v are the bits of v: use one as the name of "bit i of v"
        # (stating the digits by a second weighted sum would ask the solver to re-prove uniqueness of binary representation at 384 bits)
        cand = [hb_ for hv_, hb_ in L.nbits if L.canon(hv_) == L.canon(L.val[1]) and len(hb_) >= n] or [L.nbits[0][1]]
        vbits = [L.zint(b, used) for b in (list(cand[0]) + [{}] * n)[:n]]
        digs = dig_of_out(outs)
        asserts = L.all_assertions(used)
        conds = [c(used) for _, c in L.sum_conditions]
        hh = merkle.honest_hints(L, used)
        spec = z3.And(*([V < (1 << n)] + [digs[i] == vbits[i] for i in range(n)]))
        base = L.closure(used)
        r, secs, s = solve(base + hh + [spec, z3.Not(z3.And(*(asserts + conds)))], task.get('timeout', 120))
        o = {'name': name + ' completeness (honest hint): v < min(p,2^n) with its big-endian digits is accepted', 'verdict': r, 'expect': 'unsat', 'secs': secs}
        if r == 'sat':
            m = s.model()
            iv = lambda t: int(str(m.eval(t, model_completion=True)))
            o['cex'] = {'V': iv(V), 'out': [iv(x) for x in outs], 'honest': True}
        res['obls'].append(o)
        r, secs, s = solve(base + hh + [spec], 60)
        res['obls'].append({'name': name + ' completeness twin', 'verdict': r, 'expect': 'sat', 'secs': secs})
        # the summarised comparator really is applied to the n digits, little-endian
        rm = [x for x in L.sumcalls if x[0]['gadget'] == 'prover.ReducedModRCheck']
        okwire = len(rm) == 1 and any([L.canon(x) for x in rm[0][1]] == [L.canon(b) for b in hb_] for _, hb_ in L.nbits)
        res['obls'].append({'name': name + ': ReducedModRCheck is called once, on the digits of a decomposition (wire identity; that it is the emitted one is part of soundness)', 'verdict': 'unsat' if okwire else 'sat', 'expect': 'unsat', 'secs': 0.0})
    except Inconclusive as e:
        res['error'] = 'inconclusive: %s' % e
    return res


def trbe_oracle(P, n, V, out):
    if V >= (1 << n) or V >= P:
        return False
    return all(out[k * 8 + t] == (V >> ((n // 8 - 1 - k) * 8 + t)) & 1 for k in range(n // 8) for t in range(8))


def task_fbbe(task):
    d = json.load(open(task['path']))
    n, res = task['n'], {'task': {k: v for k, v in task.items() if k != 'path'}, 'obls': []}
    if d.get('Error'):
        return dict(res, error='compile: ' + d['Error'])
    name = 'fbbe %s n=%d' % (task['field'], n)
    try:
        L = Lifter(d)
        P = L.P
        res['constraints'] = len(d['Constraints'])
        if L.nin != n + 2:
            raise Inconclusive('harness inputs %d != %d' % (L.nin, n + 2))
        ins = [L.in_atoms[1 + i] for i in range(n)]
        untyped = [a for a in ins if L.atoms[a]['kind'] != 'B']
        if untyped:
            res['obls'].append({'name': name + ': every input bit is constrained boolean', 'verdict': 'sat', 'expect': 'unsat', 'secs': 0.0,
                                'cex': {'untyped_inputs': [L.atoms[a]['name'] for a in untyped]}})
            return res
        used = set()
        bits = [L.zatom(a, used) for a in ins]
        O = L.zint(L.val[n + 1], used)
        asserts = L.all_assertions(used)
        k = z3.Int('kq')
        tot = z3.Sum([(1 << ((n // 8 - 1 - (i // 8)) * 8 + (i % 8))) * bits[i] for i in range(n)])
        kdef = [k * P <= tot, tot < k * P + P]
        spec = tot == O + k * P
        base = L.closure(used) + kdef
        r, secs, s = solve(base + asserts + [z3.Not(spec)], task.get('timeout', 120))
        o = {'name': name + ' soundness: accepted => out = big-endian value mod p', 'verdict': r, 'expect': 'unsat', 'secs': secs}
        if r == 'sat':
            m = s.model()
            iv = lambda t: int(str(m.eval(t, model_completion=True)))
            o['cex'] = {'bits': [iv(b) for b in bits], 'out': iv(O)}
        res['obls'].append(o)
        r, secs, s = solve(base + [spec, z3.Not(z3.And(*asserts))], task.get('timeout', 120))
        o = {'name': name + ' completeness: boolean bits with out = value mod p are accepted', 'verdict': r, 'expect': 'unsat', 'secs': secs}
        if r == 'sat':
            m = s.model()
            iv = lambda t: int(str(m.eval(t, model_completion=True)))
            o['cex'] = {'bits': [iv(b) for b in bits], 'out': iv(O)}
        res['obls'].append(o)
        r, secs, s = solve(base + asserts, 60)
        res['obls'].append({'name': name + ' twin', 'verdict': r, 'expect': 'sat', 'secs': secs})
    except Inconclusive as e:
        res['error'] = 'inconclusive: %s' % e
    return res


def fbbe_oracle(P, n, bits, out):
    if any(b not in (0, 1) for b in bits):
        return False
    return sum(bits[i] << ((n // 8 - 1 - (i // 8)) * 8 + (i % 8)) for i in range(n)) % P == out % P


def run_task(task):
    return {'rmod': task_rmod, 'trbe': task_trbe, 'fbbe': task_fbbe}[task['kind']](task)
