"""Reference sparse Merkle tree over the reference Poseidon (used to build concrete valid batches for translator
validation and vacuity witnesses; not a deciding step)."""
import poseidon_ref


class Tree:
    def __init__(self, depth):
        self.D = depth
        self.leaves = {}
        self.empty = [0]
        for _ in range(depth):
            self.empty.append(poseidon_ref.hash([self.empty[-1], self.empty[-1]]))
        self.cache = {}

    def node(self, level, idx):
        """hash of the subtree at `level` (0 = leaf) with index idx"""
        if level == 0:
            return self.leaves.get(idx, 0)
        lo, hi = idx << level, (idx + 1) << level
        if not any(lo <= k < hi for k in self.leaves):
            return self.empty[level]
        key = (level, idx)
        if key not in self.cache:
            self.cache[key] = poseidon_ref.hash([self.node(level - 1, 2 * idx), self.node(level - 1, 2 * idx + 1)])
        return self.cache[key]

    def root(self):
        return self.node(self.D, 0)

    def path(self, idx):
        return [self.node(j, (idx >> j) ^ 1) for j in range(self.D)]

    def set(self, idx, v):
        if v == 0:
            self.leaves.pop(idx, None)
        else:
            self.leaves[idx] = v
        self.cache = {}


def insertion_batch(D, B, rng, prefill=2):
    t = Tree(D)
    start = rng.randrange(0, max(1, (1 << D) - B + 1)) if (1 << D) >= B else 0
    occupied = [i for i in range(1 << min(D, 12)) if not (start <= i < start + B)]
    for i in rng.sample(occupied, min(prefill, len(occupied))):
        t.set(i, rng.randrange(1, poseidon_ref.P))
    pre = t.root()
    idc, proofs = [], []
    for i in range(B):
        c = rng.randrange(1, poseidon_ref.P)
        proofs.append(t.path(start + i))
        t.set(start + i, c)
        idc.append(c)
    post = t.root()
    flat = [start, pre, post] + idc + [x for p in proofs for x in p]
    return flat


def deletion_batch(D, B, rng, pad=0):
    t = Tree(D)
    n = min(1 << D, 2 * B + 2)
    for i in range(n):
        t.set(i, rng.randrange(1, poseidon_ref.P))
    pre = t.root()
    idxs, idc, proofs = [], [], []
    live = list(range(n))
    rng.shuffle(live)
    for i in range(B):
        if i < pad or not live:
            idxs.append((1 << D) + rng.randrange(0, 1 << D))
            idc.append(rng.randrange(0, poseidon_ref.P))
            proofs.append([rng.randrange(0, poseidon_ref.P) for _ in range(D)])
            continue
        k = live.pop()
        idxs.append(k)
        idc.append(t.leaves[k])
        proofs.append(t.path(k))
        t.set(k, 0)
    post = t.root()
    return [pre, post] + idxs + idc + [x for p in proofs for x in p]
