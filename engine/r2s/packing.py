"""C03: the public input of the real top-level circuits binds the batch.
Full InsertionMbuCircuit / DeletionMbuCircuit compiled by gnark with KeccakGadget -> K_n (uninterpreted: its 256 outputs are
free booleans of one application), ReducedModRCheck -> "sum b_i 2^i < p" (C06), Insertion/DeletionProof -> free root (C01/C02).
ToReducedBigEndian's ToBinary and FromBinaryBigEndian are the REAL wires."""
import json, os, sys, time
import z3
sys.path.insert(0, os.path.dirname(os.path.abspath(__file__)))
from lift import Lifter, ONE, Inconclusive, eval_r1cs
import bitgadgets, merkle, keccak_ref


def solve(fs, timeout=120):
    s = z3.SimpleSolver()
    s.set('timeout', int(timeout * 1000))
    s.add(*fs)
    t = time.time()
    r = s.check()
    return str(r), time.time() - t, s


def keccak_summary(L, rec, ins, outs):
    for a in outs:
        at = L.atoms[a]
        if at['kind'] == 'F':   # outputs of Keccak are bits (C04); FromBinary re-asserts it, typing them B normally
            L.defs[at['sym']] = ([at['z'] >= 0, at['z'] <= 1], set())


def proof_summary(L, rec, ins, outs):
    pass


SUMMARY = dict(bitgadgets.SUMMARY)
SUMMARY.update({'keccak.KeccakGadget': keccak_summary, 'prover.InsertionProof': proof_summary, 'prover.DeletionProof': proof_summary})


def fieldmap(rec):
    return {f['name']: f for f in rec['fields']}


class FullLayout:
    """wire positions of the real circuits' inputs (schema order: public first, then secret in declaration order)"""

    def __init__(self, kind, D, B):
        self.kind, self.D, self.B = kind, D, B
        self.hash = 1
        if kind == 'ins':
            self.start, self.pre, self.post = 2, 3, 4
            self.idc = [5 + i for i in range(B)]
            base = 5 + B
            self.packed = [('StartIndex', self.start, 32), ('PreRoot', self.pre, 256), ('PostRoot', self.post, 256)] + \
                          [('IdComms[%d]' % i, self.idc[i], 256) for i in range(B)]
        else:
            self.idx = [2 + i for i in range(B)]
            self.pre, self.post = 2 + B, 3 + B
            self.idc = [4 + B + i for i in range(B)]
            base = 4 + 2 * B
            self.packed = [('DeletionIndices[%d]' % i, self.idx[i], 32) for i in range(B)] + [('PreRoot', self.pre, 256), ('PostRoot', self.post, 256)]
        self.proof = [[base + i * D + j for j in range(D)] for i in range(B)]
        self.nin = base + B * D
        self.nbits = sum(n for _, _, n in self.packed)


def run_task(task):
    kind, D, B = task['kind'], task['D'], task['B']
    d = json.load(open(task['path']))
    res = {'task': {k: v for k, v in task.items() if k != 'path'}, 'obls': []}
    if d.get('Error'):
        return dict(res, error='compile: ' + d['Error'])
    name = '%s D=%d B=%d' % (kind, D, B)
    timeout = task.get('timeout', 120)

    def ob(nm, verdict, expect='unsat', secs=0.0, **kw):
        res['obls'].append(dict(name=name + ': ' + nm, verdict=verdict, expect=expect, secs=secs, **kw))
    try:
        t0 = time.time()
        L = Lifter(d, summary=SUMMARY)
        lay = FullLayout(kind, D, B)
        res['constraints'] = len(d['Constraints'])
        res['lift_s'] = round(time.time() - t0, 2)
        P = L.P
        if L.nin != lay.nin:
            raise Inconclusive('circuit has %d input wires, layout expects %d' % (L.nin, lay.nin))
        # -- O6: exactly one public input
        ob('the only public wires are the constant 1 and InputHash', 'unsat' if d['Public'] == ['1', 'InputHash'] else 'sat', cex={'public': d['Public']})
        kc = [x for x in L.sumcalls if x[0]['gadget'] == 'keccak.KeccakGadget']
        if len(kc) != 1:
            raise Inconclusive('expected exactly one KeccakGadget call, found %d' % len(kc))
        krec, kins, kouts = kc[0]
        kf = fieldmap(krec)
        N = lay.nbits
        off = kf['InputData'].get('off', 0)
        # -- O3: Keccak parameters of the call
        want = {'InputSize': N, 'OutputSize': 256, 'Rounds': 24, 'BlockSize': 1088, 'Domain': 1}
        got = {k: kf[k]['value'] for k in want}
        got['len(InputData)'] = kf['InputData']['n']
        want['len(InputData)'] = N
        ob('Keccak call is Keccak-256 (domain 0x01, rate 1088, 24 rounds) on exactly %d bits' % N, 'unsat' if got == want else 'sat', cex={'got': got, 'want': want})
        rc_off = kf['RoundConstants'].get('off', 0)
        rcs = [kins[rc_off + i].get(ONE, 0) if set(kins[rc_off + i]) <= {ONE} else None for i in range(kf['RoundConstants']['n'])]
        okc = rcs == [b for rc in keccak_ref.RC for b in [(rc >> i) & 1 for i in range(64)]] and kf['RotationOffsets']['value'] == keccak_ref.ROT_XY
        ob('round constants and rotation offsets passed to the call are the Keccak-f[1600] ones', 'unsat' if okc else 'sat')
        if got != want:
            return res
        kin = kins[off:off + N]
        # -- O1/O2 per packed field: canonical decomposition, and wiring of its digits into the Keccak input
        nb_by_input = {}
        for v, bw in L.nbits:
            nb_by_input.setdefault(L.canon(v), []).append(bw)
        # every assertion / summary condition with the symbols it depends on (for slicing: a goal only needs the constraints
        # connected to it through shared symbols; the rest is independently satisfiable, see the twin)
        items = []
        for A in L.assertions:
            u = set()
            items.append((L.zassertion(A, u), u))
        for _, c in L.sum_conditions:
            u = set()
            items.append((c(u), u))

        def syms(u):
            out, todo = set(), list(u)
            while todo:
                x = todo.pop()
                if x not in out:
                    out.add(x)
                    todo.extend(L.defs.get(x, ([], set()))[1])
            return out
        isyms = [syms(u) for _, u in items]

        def sliced(gu):
            cur, sel, ch = syms(gu), set(), True
            while ch:
                ch = False
                for i, sy in enumerate(isyms):
                    if i not in sel and sy & cur:
                        sel.add(i)
                        cur |= sy
                        ch = True
            return L.closure(cur) + [items[i][0] for i in sorted(sel)]
        used = set()
        asserts = [f for f, _ in items[:len(L.assertions)]]
        conds = [f for f, _ in items[len(L.assertions):]]
        for _, u in items:
            used |= u
        base = L.closure(used)
        pos = 0
        for fname, w, n in lay.packed:
            X = L.val[w]
            # the existential decomposition of Spec is instantiated by the bits that the circuit feeds to Keccak
            digs = [kin[pos + (n // 8 - 1 - (i // 8)) * 8 + (i % 8)] for i in range(n)]
            gu = set()
            zd = [L.zint(b, gu) for b in digs]
            g = z3.And(*([z3.And(x >= 0, x <= 1) for x in zd] + [z3.Sum([(1 << i) * zd[i] for i in range(n)]) == L.zint(X, gu)]))
            pos += n
            r, secs, s = solve(sliced(gu) + [z3.Not(g)], timeout)
            o = dict(cex=None)
            if r == 'sat':
                s2 = z3.SimpleSolver()     # complete the slice model to a model of the whole system
                s2.set('timeout', int(timeout * 1000))
                m = s.model()
                s2.add(*(base + asserts + conds))
                s2.add(*[dcl() == m[dcl] for dcl in m.decls() if dcl.arity() == 0])
                o['cex'] = model_cex(L, s2.model()) if str(s2.check()) == 'sat' else model_cex(L, m)
            elif r != 'unsat':
                # the solver could not decide: directed probe with the alias encodings v + k*p of this field (replayed concretely by the caller)
                o['cex'] = {'probe_field': w, 'width': n, 'nbits_hints': [hi for hi, h in enumerate(d['Hints']) if h['Name'].endswith('NBits') and L.canon(L.lin(h['Inputs'][0])) == L.canon(X)]}
            ob('%s enters the hash input as the big-endian bytes of its canonical value (hint outputs free: no alias v+k*r, no other field, order, width)' % fname, r, 'unsat', secs, **o)
        # -- O4: InputHash == big-endian recomposition of the 256 Keccak outputs mod p
        used2 = set()
        zo = [L.zatom(a, used2) for a in kouts]
        H = L.zint(L.val[lay.hash], used2)
        k = z3.Int('hq')
        tot = z3.Sum([(1 << ((31 - (i // 8)) * 8 + (i % 8))) * zo[i] for i in range(256)])
        asserts2 = L.all_assertions(used2)
        base2 = L.closure(used2) + [k * P <= tot, tot < k * P + P]
        r, secs, s = solve(base2 + asserts2 + [z3.Not(tot == H + k * P)], timeout)
        ob('InputHash == (Keccak digest read as a big-endian integer) mod p', r, 'unsat', secs, cex=model_cex(L, s.model()) if r == 'sat' else None)
        # -- O5: glue to the Merkle gadget
        pg = 'prover.InsertionProof' if kind == 'ins' else 'prover.DeletionProof'
        pc = [x for x in L.sumcalls if x[0]['gadget'] == pg]
        if len(pc) != 1:
            raise Inconclusive('expected exactly one %s call' % pg)
        prec, pins, pouts = pc[0]
        pf = fieldmap(prec)
        okg = pf['BatchSize']['value'] == B and pf['Depth']['value'] == D

        def same(fieldname, wires):
            f = pf[fieldname]
            o0 = f.get('off', 0)
            return f['n'] == len(wires) and all(L.canon(pins[o0 + i]) == L.canon(L.val[w]) for i, w in enumerate(wires))
        if kind == 'ins':
            okg = okg and same('StartIndex', [lay.start]) and same('PreRoot', [lay.pre]) and same('IdComms', lay.idc) and same('MerkleProofs', [w for row in lay.proof for w in row])
        else:
            okg = okg and same('DeletionIndices', lay.idx) and same('PreRoot', [lay.pre]) and same('IdComms', lay.idc) and same('MerkleProofs', [w for row in lay.proof for w in row])
        ob('the Merkle gadget receives exactly the packed StartIndex/indices, PreRoot, commitments and the sibling paths (wire identity), with BatchSize and Depth', 'unsat' if okg else 'sat')
        used3 = set()
        asserts3 = L.all_assertions(used3)
        g = L.zeq({pouts[0]: 1}, L.val[lay.post], used3)
        r, secs, s = solve(L.closure(used3) + asserts3 + [z3.Not(g)], timeout)
        ob('the root returned by the Merkle gadget is constrained equal to the packed PostRoot', r, 'unsat', secs)
        # -- twins + completeness
        r, secs, s = solve(base + asserts + conds, timeout)
        ob('twin: the summarised circuit is satisfiable', r, 'sat', secs)
        used4 = set()
        asserts4 = L.all_assertions(used4)
        conds4 = [c(used4) for _, c in L.sum_conditions]
        hh = merkle.honest_hints(L, used4)
        zo = [L.zatom(a, used4) for a in kouts]
        H = L.zint(L.val[lay.hash], used4)
        tot = z3.Sum([(1 << ((31 - (i // 8)) * 8 + (i % 8))) * zo[i] for i in range(256)])
        k4 = z3.Int('hq4')
        pre = [k4 * P <= tot, tot < k4 * P + P, tot == H + k4 * P, L.zeq({pouts[0]: 1}, L.val[lay.post], used4)]
        pre += [L.zint(L.val[w], used4) < (1 << n) for _, w, n in lay.packed if n < P.bit_length()]
        r, secs, s = solve(L.closure(used4) + hh + pre + [z3.Not(z3.And(*(asserts4 + conds4)))], timeout)
        ob('completeness: canonical values (indices < 2^32) with InputHash = digest mod p and a valid Merkle relation are accepted with honest hints', r, 'unsat', secs,
           cex=model_cex(L, s.model()) if r == 'sat' else None)
        r, secs, s = solve(L.closure(used4) + hh + pre, timeout)
        ob('completeness twin', r, 'sat', secs)
    except Inconclusive as e:
        res['error'] = 'inconclusive: %s' % e
    return res


def model_cex(L, m):
    iv = lambda t: int(str(m.eval(t, model_completion=True)))
    used = set()
    ins = [iv(L.zint(L.val[w], used)) for w in range(1, L.nin)]
    hints = {}
    for a, at in enumerate(L.atoms):
        if 'hint' in at:
            v = m.eval(at['z'], model_completion=True)
            hints['%d,%d' % at['hint']] = (1 if z3.is_true(v) else 0) if at['kind'] == 'B' else iv(at['z'])
    return {'inputs': ins, 'hints': hints}


# ------------------------------------------------------------------------------ concrete replay on the summarised R1CS with real gadget semantics
def on_chain_hash(kind, D, B, ins):
    """keccak256(abi.encodePacked(...)) mod p of the canonical values, or None if a value does not fit its width"""
    lay = FullLayout(kind, D, B)
    P = merkle.poseidon_ref.P
    data = b''
    for _, w, n in lay.packed:
        v = ins[w - 1] % P
        if v >= (1 << n):
            return None
        data += v.to_bytes(n // 8, 'big')
    return int.from_bytes(keccak_ref.keccak256(data), 'big') % P


def replay(kind, D, B, d, cex, honest=False):
    """evaluate the summarised R1CS concretely: Keccak summary := real Keccak-256 of the bits it receives, comparator := real comparison,
    Merkle gadget := returns PostRoot (relation assumed valid). The prover's bit hints come from the counterexample.
    Then InputHash is re-bound to what the circuit computes, so the circuit accepts iff its other constraints hold."""
    lay = FullLayout(kind, D, B)
    P = int(d['Field'])
    ins = list(cex['inputs'])
    ov = {} if honest else {tuple(int(x) for x in k.split(',')): v for k, v in cex['hints'].items()}
    ov = {k: v for k, v in ov.items() if d['Hints'][k[0]]['Name'].endswith('NBits')}
    state = {}

    def summary_eval(rec, args):
        g = rec['gadget']
        if g == 'prover.ReducedModRCheck':
            n = len(args)
            state.setdefault('rmod_ok', True)
            if any(a not in (0, 1) for a in args) or (n >= P.bit_length() and sum(a << i for i, a in enumerate(args)) >= P):
                state['rmod_ok'] = False
            return [0]
        if g == 'keccak.KeccakGadget':
            f = fieldmap(rec)
            n = f['InputData']['n']
            bits = args[f['InputData'].get('off', 0):][:n]
            state['keccak_in'] = bits
            if any(b not in (0, 1) for b in bits) or n % 8:
                state['rmod_ok'] = False
                return [0] * 256
            msg = bytes(sum(bits[8 * i + t] << t for t in range(8)) for i in range(n // 8))
            dg = keccak_ref.keccak256(msg)
            return [(dg[i // 8] >> (i % 8)) & 1 for i in range(256)]
        if g in ('prover.InsertionProof', 'prover.DeletionProof'):
            return [ins[lay.post - 1]]
        raise Inconclusive('no concrete semantics for ' + g)
    # first pass to learn the digest the circuit computes, then bind InputHash to it
    wires, failed = eval_r1cs(d, ins, hint_override=ov, summary_eval=summary_eval)
    kout = None
    for h in d['Hints']:
        if h['Name'].endswith('verifSummary') and len(h['Wires']) == 256:
            kout = [wires[w] for w in h['Wires']]
    digest_int = sum(kout[i] << ((31 - (i // 8)) * 8 + (i % 8)) for i in range(256))
    ins[lay.hash - 1] = digest_int % P
    state.clear()
    wires, failed = eval_r1cs(d, ins, hint_override=ov, summary_eval=summary_eval)
    accepts = (not failed) and state.get('rmod_ok', True)
    expect = on_chain_hash(kind, D, B, ins)
    return {'inputs': [str(x) for x in ins], 'circuit_accepts': accepts, 'failed_constraints': failed[:5], 'public_input': str(ins[lay.hash - 1]),
            'on_chain_hash_of_witness_values': None if expect is None else str(expect), 'bound': expect is not None and expect == ins[lay.hash - 1]}
