"""Textbook Poseidon over the BN254 scalar field (x^5, RF=8, RP=56|57 for t=2|3), parameters regenerated with the
Grain-LFSR procedure of the Poseidon paper -- independent of the repo's constants.go and of iden3's tables."""
P = 0x30644e72e131a029b85045b68181585d2833e84879b9709143e1f593f0000001
_cache = {}


def params(t, RF=8, RP=None, n=254):
    RP = RP if RP is not None else {2: 56, 3: 57}[t]
    if (t, RF, RP) in _cache:
        return _cache[(t, RF, RP)]
    bits = []

    def put(v, w):
        bits.extend(int(b) for b in bin(v)[2:].zfill(w))
    put(1, 2); put(0, 4); put(n, 12); put(t, 12); put(RF, 10); put(RP, 10); bits.extend([1] * 30)
    st = bits[:]

    def step():
        nb = st[62] ^ st[51] ^ st[38] ^ st[23] ^ st[13] ^ st[0]
        st.pop(0)
        st.append(nb)
        return nb
    for _ in range(160):
        step()

    def rbits(k):
        out = []
        while len(out) < k:
            b1 = step(); b2 = step()
            if b1:
                out.append(b2)
        return out

    def rint():
        return int(''.join(map(str, rbits(n))), 2)
    rc = []
    while len(rc) < (RF + RP) * t:
        v = rint()
        if v < P:
            rc.append(v)
    while True:
        rl = [rint() % P for _ in range(2 * t)]
        if len(set(rl)) == 2 * t:
            break
    xs, ys = rl[:t], rl[t:]
    M = [[pow((xs[i] + ys[j]) % P, -1, P) for j in range(t)] for i in range(t)]
    _cache[(t, RF, RP)] = (rc, M, RP)
    return rc, M, RP


def hash(inputs):
    """Poseidon(inputs) with state [0, inputs...], output = state[0]"""
    t = len(inputs) + 1
    rc, M, RP = params(t)
    st = [0] + [x % P for x in inputs]
    for r in range(8 + RP):
        st = [(st[i] + rc[r * t + i]) % P for i in range(t)]
        full = r < 4 or r >= 4 + RP
        st = [pow(st[i], 5, P) if (full or i == 0) else st[i] for i in range(t)]
        st = [sum(M[i][j] * st[j] for j in range(t)) % P for i in range(t)]
    return st[0]


def generic(state, mul, add, scale, const):
    """same schedule over an abstract algebra (used by the symbolic reference in C05)"""
    t = len(state)
    rc, M, RP = params(t)
    st = list(state)
    cuts = []

    def sbox(x):
        x2 = mul(x, x)
        x4 = mul(x2, x2)
        return mul(x, x4)
    for r in range(8 + RP):
        st = [add(st[i], const(rc[r * t + i])) for i in range(t)]
        full = r < 4 or r >= 4 + RP
        st = [sbox(st[i]) if (full or i == 0) else st[i] for i in range(t)]
        new = []
        for i in range(t):
            acc = const(0)
            for j in range(t):
                acc = add(acc, scale(st[j], M[i][j]))
            new.append(acc)
        st = new
        cuts.append(list(st))
    return st, cuts
