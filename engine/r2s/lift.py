"""R2S lifter: gnark R1CS (JSON from r2sdump) -> typed terms -> SMT (z3).

Walks the constraints in order and gives every wire a value that is a linear expression (LE, coefficients
mod p) over *atoms*:
  F   field atom: circuit input, hint output, summary (UF) output, structural product fmul(L,R)   -> z3 Int in [0,p)
  B   boolean atom: an F atom typed boolean by a constraint b*(1-b)=0 of the circuit              -> z3 Bool
  FN  boolean function of other boolean atoms given by its truth table (memoised)               -> z3 Bool + definition
  C   case atom: [(cond_i, LE_i)] with mutually exclusive, exhaustive boolean conditions
Nothing is pattern-matched syntactically: operands whose support is <= K boolean atoms are evaluated on all
assignments in exact field arithmetic (see DESIGN.md 2.1).

Every z3 symbol has a registered definition; queries assert the definition closure of the symbols they mention.
"""
import itertools, json, time
import z3

ONE = 'one'


class Inconclusive(Exception):
    pass


class Lifter:
    def __init__(self, d, K=10, summary=None, name='', intbits=True, prescan=True):
        self.intbits = intbits
        self.prescan = prescan
        self.d = d
        self.P = int(d['Field'])
        self.K = K
        self.tag = name
        self.nin = len(d['Public']) + len(d['Secret'])
        self.n = self.nin + d['NbInternal']
        self.names = d['Public'] + d['Secret']
        self.summary = summary or {}
        self.atoms = []          # id -> dict
        self.val = [None] * self.n
        self.val[0] = {ONE: 1}
        self.fnmemo = {}
        self.fmmemo = {}
        self.assertions = []     # dicts: {ci, kind:'fn'|'le'|'booltype', ...}
        self.defs = {}           # z3 symbol name -> (list of formulas, set of dep symbol names)
        self.unknown_hints = []
        self.nbits = []          # (input LE, [output LEs]) per bits.NBits hint
        self.invzero = []        # (input LE, output LE)
        self.sumcalls = []       # (summary record, [input LEs], [output atom ids])
        self.sum_conditions = [] # (name, fn(used)->z3 Bool): acceptance conditions of summarised gadgets (assumed in soundness, proven in completeness)
        self.in_atoms = {}       # wire -> atom id
        self.aux = 0
        self.stats = {'fn': 0, 'fm': 0, 'case': 0, 'quot': 0}
        self.FM = z3.Function('fmul', z3.IntSort(), z3.IntSort(), z3.IntSort())
        self.hints = d.get('Hints') or []
        P = self.P
        self.cons = [{k: [x for x in c[k] if int(x[0]) % P] for k in 'LRO'} for c in (d['Constraints'] or [])]
        self._prescan_bool()
        for i in range(1, self.nin):
            a = self.new_base('in%d' % i, i)
            self.in_atoms[i] = a
            self.val[i] = {a: 1}
        self.hdone = set()
        self.run()

    # ------------------------------------------------------------------ atoms
    def _prescan_bool(self):
        """wires w with a constraint w*(1-w)=0: typed boolean from the start."""
        P = self.P
        self.boolwires = {}
        if not self.prescan:
            return
        for ci, c in enumerate(self.cons):
            if len(c['L']) == 1 and len(c['O']) == 0 and len(c['R']) == 2:
                (cl, wl), = c['L']
                w = int(wl)
                if int(cl) % P != 1 or w == 0:
                    continue
                r = {int(x[1]): int(x[0]) % P for x in c['R']}
                if r.get(0) == 1 and r.get(w) == P - 1:
                    self.boolwires.setdefault(w, ci)
            elif len(c['R']) == 1 and len(c['O']) == 0 and len(c['L']) == 2:
                (cl, wl), = c['R']
                w = int(wl)
                if int(cl) % P != 1 or w == 0:
                    continue
                r = {int(x[1]): int(x[0]) % P for x in c['L']}
                if r.get(0) == 1 and r.get(w) == P - 1:
                    self.boolwires.setdefault(w, ci)

    def new_base(self, name, wire):
        """input / hint output / summary output atom; boolean iff the circuit constrains the wire boolean."""
        a = len(self.atoms)
        if wire in self.boolwires and self.intbits:
            zi = z3.Int('b_%s%s' % (self.tag, name))
            self.atoms.append({'kind': 'B', 'name': name, 'z': zi == 1, 'zi': zi, 'sym': str(zi), 'wire': wire, 'typed_by': self.boolwires[wire]})
            self.defs[str(zi)] = ([zi >= 0, zi <= 1], set())
        elif wire in self.boolwires:
            z = z3.Bool('b_%s%s' % (self.tag, name))
            self.atoms.append({'kind': 'B', 'name': name, 'z': z, 'zi': z3.If(z, 1, 0), 'sym': str(z), 'wire': wire, 'typed_by': self.boolwires[wire]})
            self.defs[str(z)] = ([], set())
        else:
            z = z3.Int('x_%s%s' % (self.tag, name))
            self.atoms.append({'kind': 'F', 'name': name, 'z': z, 'sym': str(z), 'wire': wire})
            self.defs[str(z)] = ([z >= 0, z < self.P], set())
        return a

    def isbool(self, a):
        return a != ONE and self.atoms[a]['kind'] in ('B', 'FN')

    def new_fn(self, sup, table):
        """boolean function atom; returns atom id or ('const', v)."""
        sup = list(sup)
        table = list(table)
        i = 0
        while i < len(sup):
            k = len(sup)
            if all(table[m] == table[m ^ (1 << i)] for m in range(1 << k)):
                table = [table[m] for m in range(1 << k) if not (m >> i) & 1]
                sup.pop(i)
            else:
                i += 1
        if len(sup) == 0:
            return ('const', table[0])
        if len(sup) == 1 and table == [0, 1]:
            return sup[0]
        key = (tuple(sup), tuple(table))
        if key in self.fnmemo:
            return self.fnmemo[key]
        a = len(self.atoms)
        z = z3.Bool('f_%s%d' % (self.tag, a))
        zs = [self.atoms[x]['z'] for x in sup]
        ones = [m for m in range(1 << len(sup)) if table[m]]
        zeros = [m for m in range(1 << len(sup)) if not table[m]]

        def minterm(m):
            return z3.And(*[zs[i] if (m >> i) & 1 else z3.Not(zs[i]) for i in range(len(sup))])
        if len(sup) == 1:
            body = z3.Not(zs[0])
        elif len(sup) == 2 and table == [0, 1, 1, 0]:
            body = z3.Xor(zs[0], zs[1])
        elif len(sup) == 2 and table == [1, 0, 0, 1]:
            body = zs[0] == zs[1]
        elif len(ones) <= len(zeros):
            body = z3.Or(*[minterm(m) for m in ones])
        else:
            body = z3.Not(z3.Or(*[minterm(m) for m in zeros]))
        self.atoms.append({'kind': 'FN', 'sup': tuple(sup), 'table': tuple(table), 'z': z, 'zi': z3.If(z, 1, 0), 'sym': str(z)})
        self.defs[str(z)] = ([z == body], set(self.atoms[x]['sym'] for x in sup))
        self.fnmemo[key] = a
        self.stats['fn'] += 1
        return a

    def new_case(self, cases):
        """cases: list of (bool atom id | ('not', id) | True, LE). Returns an LE."""
        cases = [(c, le) for c, le in cases]
        if all(self.canon(le) == self.canon(cases[0][1]) for _, le in cases):
            return cases[0][1]
        a = len(self.atoms)
        # boolean support of the case atom (None if some branch depends on a field atom): lets tabulation see through it
        bs = set()
        for c, le in cases:
            x = c
            while isinstance(x, tuple) and x[0] == 'not':
                x = x[1]
            if x is not True and not isinstance(x, tuple):
                bs.add(x)
                if self.atoms[x]['kind'] == 'FN':      # make the indicator dependent on its own support (mutually exclusive indicators)
                    bs |= set(self.atoms[x]['sup'])
            sub = self.boolsup(le)
            if sub is None:
                bs = None
                break
            bs |= set(sub)
        self.atoms.append({'kind': 'C', 'cases': cases, 'bsup': bs})
        self.stats['case'] += 1
        return {a: 1}

    # ------------------------------------------------------------------ LE algebra
    def canon(self, le):
        return tuple(sorted(le.items(), key=lambda kv: str(kv[0])))

    def add(self, a, b, cb=1):
        out = dict(a)
        P = self.P
        for k, c in b.items():
            v = (out.get(k, 0) + cb * c) % P
            if v:
                out[k] = v
            else:
                out.pop(k, None)
        return out

    def scale(self, a, g):
        P = self.P
        return {k: (c * g) % P for k, c in a.items() if (c * g) % P}

    def lin(self, l):
        out = {}
        P = self.P
        for c, w in l:
            c = int(c) % P
            if not c:
                continue
            w = int(w)
            v = {ONE: 1} if w == 4294967295 else self.val[w]
            if v is None:
                return None
            for a, ca in v.items():
                x = (out.get(a, 0) + c * ca) % P
                if x:
                    out[a] = x
                else:
                    out.pop(a, None)
        return out

    # ------------------------------------------------------------------ boolean tabulation
    def boolsup(self, le):
        """sorted list of boolean atoms if every atom of le is boolean (or ONE), else None."""
        out = set()
        for a in le:
            if a == ONE:
                continue
            if self.isbool(a):
                out.add(a)
                continue
            bs = self.atoms[a].get('bsup') if self.atoms[a]['kind'] == 'C' else None
            if bs is None:
                return None
            out |= bs
        return sorted(out)

    def close(self, sp):
        """split a support into free atoms and atoms that are functions of other atoms in the support."""
        allsp = set(sp)
        dep = [a for a in sorted(allsp) if self.atoms[a]['kind'] == 'FN' and set(self.atoms[a]['sup']) <= allsp]
        # (an FN atom's support consists of older atoms, so dependencies are acyclic)
        return sorted(allsp - set(dep)), dep

    def assignments(self, sp):
        free, dep = self.close(sp)
        for m in range(1 << len(free)):
            asg = {a: (m >> i) & 1 for i, a in enumerate(free)}
            todo = list(dep)
            while todo:
                for a in list(todo):
                    at = self.atoms[a]
                    if all(x in asg for x in at['sup']):
                        k = 0
                        for i, x in enumerate(at['sup']):
                            k |= asg[x] << i
                        asg[a] = at['table'][k]
                        todo.remove(a)
            yield asg

    def expand1(self, sp):
        out = set(sp)
        for a in sp:
            if self.atoms[a]['kind'] == 'FN':
                out |= set(self.atoms[a]['sup'])
        return sorted(out)

    def ev(self, le, asg):
        t = le.get(ONE, 0)
        for a, c in le.items():
            if a == ONE:
                continue
            v = asg.get(a)
            if v is None:
                v = self.evcase(a, asg)
            t += c * v
        return t % self.P

    def evcond(self, cnd, asg):
        if cnd is True:
            return 1
        if isinstance(cnd, tuple):
            if cnd[0] == 'const':
                return 1 if cnd[1] else 0
            return 1 - self.evcond(cnd[1], asg)
        return asg[cnd]

    def evcase(self, a, asg):
        for cnd, sub in self.atoms[a]['cases']:
            if self.evcond(cnd, asg):
                return self.ev(sub, asg)
        raise Inconclusive('case atom %d: no case applies' % a)

    def tabulate(self, les, f, want_const=False):
        """evaluate f(values of les) over all assignments of the joint boolean support.
        returns (free, vals) or None if support too large."""
        sp = set()
        for le in les:
            bs = self.boolsup(le)
            if bs is None:
                return None
            sp |= set(bs)
        sp = sorted(sp)
        best = None
        for _ in range(4):
            free, dep = self.close(sp)
            if len(free) <= self.K:
                vals = [f(*[self.ev(le, asg) for le in les]) for asg in self.assignments(sp)]
                if best is None or len(free) < len(best[0]):
                    best = (free, vals)
                if len(set(vals)) <= (1 if want_const else 2):
                    best = (free, vals)
                    break
            nsp = self.expand1(sp)
            if nsp == sp or len(nsp) > self.K + 6:
                break
            sp = nsp
        return best

    def from_table(self, free, vals):
        """LE (possibly with a case atom) for a function of boolean atoms with the given value table."""
        vs = sorted(set(vals))
        P = self.P
        if len(vs) == 1:
            return {ONE: vs[0]} if vs[0] else {}
        if len(vs) == 2:
            u, v = vs
            b = self.new_fn(free, [1 if x == v else 0 for x in vals])
            if isinstance(b, tuple):
                w = v if b[1] else u
                return {ONE: w} if w else {}
            out = {b: (v - u) % P}
            if u:
                out[ONE] = u
            return out
        cases = []
        for v in vs:
            b = self.new_fn(free, [1 if x == v else 0 for x in vals])
            cases.append((b, {ONE: v} if v else {}))
        return self.new_case(cases)

    def cut(self, le):
        """replace a boolean-supported LE that takes <= 2 values by const or u+(v-u)*beta."""
        if len(le) <= 1 or (len(le) == 2 and ONE in le):
            bs = self.boolsup(le)
            if bs is not None and len(bs) == 1:
                return le
        t = self.tabulate([le], lambda x: x)
        if t is None:
            return le
        free, vals = t
        if len(set(vals)) <= 2:
            return self.from_table(free, vals)
        return le

    # ------------------------------------------------------------------ products
    def monic(self, le):
        k = sorted(le, key=str)[0]
        c = le[k]
        return self.scale(le, pow(c, -1, self.P)), c

    def fmul(self, lL, lR):
        mL, cL = self.monic(lL)
        mR, cR = self.monic(lR)
        # flatten power products of a single base LE: u^a * u^b = u^(a+b)
        ppL, ppR = self.pp_of(mL), self.pp_of(mR)
        if ppL is not None and ppR is not None and ppL[0] == ppR[0]:
            a = self.pp_atom(ppL[0], ppL[1] + ppR[1], ppL[2])
            return {a: (cL * cR) % self.P}
        kL, kR = self.canon(mL), self.canon(mR)
        key = ('fm', tuple(sorted([kL, kR], key=str)))
        if key not in self.fmmemo:
            a = len(self.atoms)
            z = z3.Int('m_%s%d' % (self.tag, a))
            self.atoms.append({'kind': 'F', 'name': 'fm%d' % a, 'z': z, 'sym': str(z), 'fm': (mL, mR)})
            self.fmmemo[key] = a
            self.stats['fm'] += 1
            self._fm_def(a, z, mL, mR)
        return {self.fmmemo[key]: (cL * cR) % self.P}

    def pp_of(self, m):
        """(base canon, exponent, base LE) if monic LE m is base^e for a registered power atom, or m itself (e=1)."""
        if len(m) == 1:
            (a, c), = m.items()
            if a != ONE and c == 1 and self.atoms[a].get('pp') is not None:
                return self.atoms[a]['pp']
        return (self.canon(m), 1, m)

    def pp_atom(self, basekey, e, base):
        key = ('pp', basekey, e)
        if key not in self.fmmemo:
            a = len(self.atoms)
            z = z3.Int('m_%s%d' % (self.tag, a))
            self.atoms.append({'kind': 'F', 'name': 'pp%d' % a, 'z': z, 'sym': str(z), 'pp': (basekey, e, base), 'fm': None})
            self.fmmemo[key] = a
            self.stats['fm'] += 1
            # definition: base^e as nested fmul of lower powers (any split is fine; use (e-1,1))
            used = set()
            zb = self.zint(base, used)
            if e == 2:
                lo = zb
            else:
                lo_atom = self.pp_atom(basekey, e - 1, base)
                lo = self.atoms[lo_atom]['z']
                used.add(str(lo))
            self.defs[str(z)] = ([z >= 0, z < self.P, z == self.FM(lo, zb)] + self._fm_axioms(z, lo, zb), used)
        return self.fmmemo[key]

    def _fm_axioms(self, v, a, b):
        return [self.FM(a, b) == self.FM(b, a),
                z3.Implies(a == 0, v == 0), z3.Implies(b == 0, v == 0),
                z3.Implies(a == 1, v == b), z3.Implies(b == 1, v == a),
                z3.Implies(v == 0, z3.Or(a == 0, b == 0))]

    def _fm_def(self, a, z, mL, mR):
        used = set()
        za = self.zint(mL, used)
        zb = self.zint(mR, used)
        self.defs[str(z)] = ([z >= 0, z < self.P, z == self.FM(za, zb)] + self._fm_axioms(z, za, zb), used)
        self.atoms[a]['zops'] = (za, zb)

    def product(self, lL, lR):
        """returns ('le', LE) | ('tab', free, vals) | ('cases', [(cond, LE)])"""
        P = self.P
        lL = self.cut(lL)
        lR = self.cut(lR)
        if not lL or not lR:
            return ('le', {})
        if set(lL) == {ONE}:
            return ('le', self.scale(lR, lL[ONE]))
        if set(lR) == {ONE}:
            return ('le', self.scale(lL, lR[ONE]))
        t = self.tabulate([lL, lR], lambda x, y: (x * y) % P)
        if t is not None:
            return ('tab', t[0], t[1])
        for a, b in ((lL, lR), (lR, lL)):
            bs = self.boolsup(a)
            if bs is None:
                continue
            free, dep = self.close(bs)
            if len(free) > self.K:
                continue
            vals = [self.ev(a, asg) for asg in self.assignments(bs)]
            vs = sorted(set(vals))
            if len(vs) > 4:
                continue
            cases = []
            if len(vs) == 2:
                cnd = self.new_fn(free, [1 if x == vs[1] else 0 for x in vals])
                return ('cases', [(cnd, self.scale(b, vs[1])), (('not', cnd), self.scale(b, vs[0]))])
            for v in vs:
                cnd = self.new_fn(free, [1 if x == v else 0 for x in vals])
                cases.append((cnd, self.scale(b, v)))
            return ('cases', cases)
        return ('le', self.fmul(lL, lR))

    # ------------------------------------------------------------------ main walk
    def do_hints(self):
        for hi, h in enumerate(self.hints):
            if hi in self.hdone:
                continue
            ins = [self.lin(i) for i in h['Inputs']]
            if any(i is None for i in ins):
                continue
            self.hdone.add(hi)
            name = h['Name']
            if name.endswith('verifSummary'):
                key = ins[0].get(ONE, 0)
                rec = self.d['Summaries'][key]
                outs = []
                for k, w in enumerate(h['Wires']):
                    a = self.new_base('s%d_%d' % (key, k), w)
                    self.val[w] = {a: 1}
                    outs.append(a)
                self.sumcalls.append((rec, ins[1:], outs))
                handler = self.summary.get(rec['gadget'])
                if handler is None:
                    raise Inconclusive('no summary semantics for ' + rec['gadget'])
                handler(self, rec, ins[1:], outs)
            else:
                for k, w in enumerate(h['Wires']):
                    a = self.new_base('h%d_%d' % (hi, k), w)
                    self.atoms[a]['hint'] = (hi, k)
                    self.val[w] = {a: 1}
                if name.endswith('NBits'):
                    self.nbits.append((ins[0], [self.val[w] for w in h['Wires']]))
                elif name.endswith('InvZero'):
                    self.invzero.append((ins[0], self.val[h['Wires'][0]]))
                else:
                    # a hint the lifter has no contract for: its outputs stay free (that is what a dishonest prover gets); queries that
                    # need the honest value (completeness, concrete evaluation) must look at unknown_hints
                    self.unknown_hints.append((name, hi))
                    if not getattr(self, 'free_unknown_hints', False):
                        raise Inconclusive('unknown hint ' + name)

    def run(self):
        P = self.P
        self.do_hints()
        for ci, c in enumerate(self.cons):
            unk = set()
            for l in (c['L'], c['R'], c['O']):
                for cc, w in l:
                    w = int(w)
                    if int(cc) % P and w != 4294967295 and self.val[w] is None:
                        unk.add(w)
            if not unk:
                if ci in self.boolwires.values():
                    # booleanity of a base atom: holds by representation; recorded for the completeness side
                    w = [w for w, k in self.boolwires.items() if k == ci]
                    self.assertions.append({'ci': ci, 'kind': 'booltype', 'wire': w[0]})
                    continue
                lL, lR, lO = self.cut(self.lin(c['L'])), self.cut(self.lin(c['R'])), self.lin(c['O'])
                pr = self.product(lL, lR)
                if pr[0] == 'tab':
                    t = self.tabulate([lL, lR, lO], lambda x, y, o: 1 if (x * y - o) % P == 0 else 0, want_const=True)
                    if t is not None:
                        f = self.new_fn(t[0], t[1])
                        if f == ('const', 1):
                            continue
                        self.assertions.append({'ci': ci, 'kind': 'fn', 'fn': f})
                        continue
                    pr = ('le', self.from_table(pr[1], pr[2]))
                if pr[0] == 'le':
                    self.assertions.append({'ci': ci, 'kind': 'le', 'cases': [(True, self.add(pr[1], lO, P - 1))]})
                else:
                    self.assertions.append({'ci': ci, 'kind': 'le', 'cases': [(cnd, self.add(le, lO, P - 1)) for cnd, le in pr[1]]})
            else:
                if len(unk) != 1:
                    raise Inconclusive('constraint %d has %d unknown wires' % (ci, len(unk)))
                w = unk.pop()
                inL = any(int(x[1]) == w and int(x[0]) % P for x in c['L'])
                inR = any(int(x[1]) == w and int(x[0]) % P for x in c['R'])
                if inL or inR:
                    raise Inconclusive('constraint %d defines wire %d non-linearly (division)' % (ci, w))
                cw = sum(int(cc) for cc, ww in c['O'] if int(ww) == w) % P
                inv = pow(cw, -1, P)
                lL, lR = self.cut(self.lin(c['L'])), self.cut(self.lin(c['R']))
                rest = self.lin([x for x in c['O'] if int(x[1]) != w])
                pr = self.product(lL, lR)
                if pr[0] == 'tab':
                    t = self.tabulate([lL, lR, rest], lambda x, y, o: ((x * y - o) * inv) % P)
                    if t is not None:
                        self.val[w] = self.from_table(t[0], t[1])
                        self.do_hints()
                        continue
                    pr = ('le', self.from_table(pr[1], pr[2]))
                if pr[0] == 'le':
                    self.val[w] = self.scale(self.add(pr[1], rest, P - 1), inv)
                else:
                    self.val[w] = self.new_case([(cnd, self.scale(self.add(le, rest, P - 1), inv)) for cnd, le in pr[1]])
            self.do_hints()
        if len(self.hdone) != len(self.hints):
            raise Inconclusive('%d hints never became evaluable' % (len(self.hints) - len(self.hdone)))

    # ------------------------------------------------------------------ z3 materialisation
    def zcond(self, cnd, used):
        if cnd is True:
            return z3.BoolVal(True)
        if isinstance(cnd, tuple):
            if cnd[0] == 'const':
                return z3.BoolVal(bool(cnd[1]))
            if cnd[0] == 'not':
                return z3.Not(self.zcond(cnd[1], used))
        used.add(self.atoms[cnd]['sym'])
        return self.atoms[cnd]['z']

    def expand(self, le, used):
        """[(z3 cond, plain LE without case atoms)]"""
        for a in le:
            if a != ONE and self.atoms[a]['kind'] == 'C':
                res = []
                rest = {k: c for k, c in le.items() if k != a}
                for cnd, sub in self.atoms[a]['cases']:
                    le2 = self.add(rest, sub, le[a])
                    zc = self.zcond(cnd, used)
                    for c2, pl in self.expand(le2, used):
                        res.append((z3.simplify(z3.And(zc, c2)), pl))
                return res
        return [(z3.BoolVal(True), le)]

    def zatom(self, a, used):
        """Int term for an F or boolean atom"""
        at = self.atoms[a]
        used.add(at['sym'])
        if at['kind'] == 'F':
            return at['z']
        return at['zi']

    def bounds(self, pl):
        """signed-representative integer expression and its interval for a plain LE"""
        P = self.P
        lo = hi = 0
        terms = []
        for a, c in pl.items():
            # representative: keep powers of two (bit recompositions) positive, their negations negative, else smallest magnitude
            if c & (c - 1) == 0:
                cs = c
            elif (P - c) & (P - c - 1) == 0:
                cs = c - P
            else:
                cs = c if c <= P // 2 else c - P
            if a == ONE:
                lo += cs
                hi += cs
                terms.append((cs, None))
                continue
            m = 1 if self.isbool(a) else P - 1
            if cs > 0:
                hi += cs * m
            else:
                lo += cs * m
            terms.append((cs, a))
        return terms, lo, hi

    def zexpr(self, terms, used):
        e = z3.IntVal(0)
        parts = []
        for cs, a in terms:
            parts.append(z3.IntVal(cs) if a is None else cs * self.zatom(a, used))
        return z3.Sum(parts) if parts else e

    def zint_plain(self, pl, used):
        P = self.P
        if not pl:
            return z3.IntVal(0)
        if len(pl) == 1:
            (a, c), = pl.items()
            if a == ONE:
                return z3.IntVal(c)
            if c == 1:
                return self.zatom(a, used)
        terms, lo, hi = self.bounds(pl)
        e = self.zexpr(terms, used)
        klo, khi = lo // P, hi // P
        if klo == khi:
            return e - klo * P
        self.aux += 1
        self.stats['quot'] += 1
        u = z3.Int('u_%s%d' % (self.tag, self.aux))
        k = z3.Int('k_%s%d' % (self.tag, self.aux))
        # definitional: k = floor(e/P), u = e - k*P
        myused = set()
        e2 = self.zexpr(terms, myused)
        self.defs[str(u)] = ([u >= 0, u < P, k >= klo, k <= khi, e2 - u == k * P], myused | {str(k)})
        self.defs[str(k)] = ([], set())
        used.add(str(u))
        return u

    def zint(self, le, used):
        cs = self.expand(le, used)
        t = self.zint_plain(cs[-1][1], used)
        for cond, pl in reversed(cs[:-1]):
            t = z3.If(cond, self.zint_plain(pl, used), t)
        return t

    def zeqzero_plain(self, pl, used):
        P = self.P
        if not pl:
            return z3.BoolVal(True)
        items = list(pl.items())
        if len(items) == 1:
            a, c = items[0]
            if a == ONE:
                return z3.BoolVal(False)
            if self.isbool(a):
                return z3.Not(self.zcond(a, used))
            return self.zatom(a, used) == 0
        if len(items) == 2:
            (a1, c1), (a2, c2) = items
            if (c1 + c2) % P == 0 and c1 in (1, P - 1) and a1 != ONE and a2 != ONE:
                if self.isbool(a1) and self.isbool(a2):
                    return self.zcond(a1, used) == self.zcond(a2, used)
                return self.zatom(a1, used) == self.zatom(a2, used)
            if ONE in pl:
                # c*a + k == 0  =>  a == -k/c
                a, c = [(a, c) for a, c in items if a != ONE][0]
                v = (-pl[ONE] * pow(c, -1, P)) % P
                if self.isbool(a):
                    if v == 1:
                        return self.zcond(a, used)
                    if v == 0:
                        return z3.Not(self.zcond(a, used))
                    return z3.BoolVal(False)
                return self.zatom(a, used) == v
        terms, lo, hi = self.bounds(pl)
        e = self.zexpr(terms, used)
        klo, khi = -((-lo) // P), hi // P   # multiples of P inside [lo,hi]
        if klo > khi:
            return z3.BoolVal(False)
        if khi - klo <= 8:
            return z3.Or(*[e == k * P for k in range(klo, khi + 1)])
        self.aux += 1
        self.stats['quot'] += 1
        k = z3.Int('q_%s%d' % (self.tag, self.aux))
        myused = set()
        e2 = self.zexpr(terms, myused)
        self.defs[str(k)] = ([k * P <= e2, e2 < k * P + P], myused)   # k := floor(e/P): polarity-safe
        used.add(str(k))
        return e == k * P

    def zeqzero(self, le, used):
        cs = self.expand(le, used)
        return z3.And(*[z3.Implies(cond, self.zeqzero_plain(pl, used)) for cond, pl in cs])

    def zeq(self, a, b, used):
        return self.zeqzero(self.add(a, b, self.P - 1), used)

    def zbool(self, le, used):
        """Bool term for an LE known to be 0/1-valued over boolean atoms"""
        le = self.cut(le)
        if not le:
            return z3.BoolVal(False)
        if le == {ONE: 1}:
            return z3.BoolVal(True)
        if len(le) == 1:
            (a, c), = le.items()
            if c == 1 and self.isbool(a):
                return self.zcond(a, used)
        if len(le) == 2 and le.get(ONE) == 1:
            (a, c), = [(a, c) for a, c in le.items() if a != ONE]
            if c == self.P - 1 and self.isbool(a):
                return z3.Not(self.zcond(a, used))
        return self.zint(le, used) == 1

    def zassertion(self, A, used):
        if A['kind'] == 'booltype':
            return z3.BoolVal(True)
        if A['kind'] == 'fn':
            return self.zcond(A['fn'], used)
        out = []
        for cnd, le in A['cases']:
            out.append(z3.Implies(self.zcond(cnd, used), self.zeqzero(le, used)))
        return z3.And(*out)

    def all_assertions(self, used):
        return [self.zassertion(A, used) for A in self.assertions]

    # ------------------------------------------------------------------ closure
    def closure(self, used):
        """all definitional formulas for the symbols in `used`, transitively."""
        out = []
        seen = set()
        todo = list(used)
        while todo:
            n = todo.pop()
            if n in seen:
                continue
            seen.add(n)
            d = self.defs.get(n)
            if d is None:
                continue
            out.extend(d[0])
            todo.extend(d[1])
        return out

    def wire(self, name_or_idx):
        if isinstance(name_or_idx, int):
            return self.val[name_or_idx]
        return self.val[self.names.index(name_or_idx)]

    def inputs_in_order(self):
        """values of the input wires in schema order (public then secret), without the constant wire"""
        return [self.val[i] for i in range(1, self.nin)]


def consts_of(f):
    """names of uninterpreted constants in a z3 formula (for closure of hand-written formulas)"""
    seen = set()
    out = set()
    todo = [f]
    while todo:
        t = todo.pop()
        i = t.get_id()
        if i in seen:
            continue
        seen.add(i)
        if z3.is_const(t) and t.decl().kind() == z3.Z3_OP_UNINTERPRETED:
            out.add(str(t))
        else:
            todo.extend(t.children())
    return out


# ---------------------------------------------------------------------- concrete R1CS evaluation (independent of lifting)
def eval_r1cs(d, inputs, hint_override=None, summary_eval=None):
    """Forward-evaluate the raw R1CS. inputs: list of ints for wires 1..nin-1. Hints: honest NBits/InvZero unless
    hint_override[(hint_index, k)] gives a value. Returns (wires, failed_constraint_indices)."""
    P = int(d['Field'])
    nin = len(d['Public']) + len(d['Secret'])
    n = nin + d['NbInternal']
    val = [None] * n
    val[0] = 1
    for i, v in enumerate(inputs):
        val[i + 1] = v % P
    hints = d.get('Hints') or []
    hdone = set()
    hint_override = hint_override or {}

    def lin(l):
        s = 0
        for c, w in l:
            w = int(w)
            v = 1 if w == 4294967295 else val[w]
            if v is None:
                return None
            s += int(c) * v
        return s % P

    def dohints():
        for hi, h in enumerate(hints):
            if hi in hdone:
                continue
            ins = [lin(i) for i in h['Inputs']]
            if any(i is None for i in ins):
                continue
            hdone.add(hi)
            nm = h['Name']
            if nm.endswith('NBits'):
                outs = [(ins[0] >> k) & 1 for k in range(len(h['Wires']))]
            elif nm.endswith('InvZero'):
                outs = [pow(ins[0], -1, P) if ins[0] else 0]
            elif nm.endswith('verifSummary'):
                outs = summary_eval(d['Summaries'][ins[0]], ins[1:])
            elif all((hi, k) in hint_override for k in range(len(h['Wires']))):
                outs = [0] * len(h['Wires'])
            else:
                raise Inconclusive('unknown hint ' + nm)
            for k, w in enumerate(h['Wires']):
                val[w] = hint_override.get((hi, k), outs[k]) % P
    dohints()
    failed = []
    for ci, c in enumerate(d['Constraints'] or []):
        unk = [(side, int(w)) for side in 'LRO' for cc, w in c[side] if int(cc) % P and int(w) != 4294967295 and val[int(w)] is None]
        if not unk:
            if (lin(c['L']) * lin(c['R']) - lin(c['O'])) % P:
                failed.append(ci)
        else:
            ws = set(w for _, w in unk)
            if len(ws) != 1:
                raise Inconclusive('eval: constraint %d has %d unknowns' % (ci, len(ws)))
            w = ws.pop()
            side = unk[0][0]
            if side == 'O' and all(s == 'O' for s, _ in unk):
                cw = sum(int(cc) for cc, ww in c['O'] if int(ww) == w) % P
                rest = lin([x for x in c['O'] if int(x[1]) != w])
                val[w] = ((lin(c['L']) * lin(c['R']) - rest) * pow(cw, -1, P)) % P
            else:
                raise Inconclusive('eval: division constraint %d' % ci)
        dohints()
    return val, failed


def eval_lifted(L, inputs, wires, uf_eval=None):
    """Concrete value of every lifted wire under the atoms' semantics; base atom values are taken from `wires`
    (the raw evaluation). Returns list of (wire, lifted, raw) mismatches."""
    P = L.P
    cache = {}

    def aval(a):
        if a == ONE:
            return 1
        if a in cache:
            return cache[a]
        at = L.atoms[a]
        if 'wire' in at:
            v = wires[at['wire']]
        elif at['kind'] == 'FN':
            k = 0
            for i, x in enumerate(at['sup']):
                k |= aval(x) << i
            v = at['table'][k]
        elif at['kind'] == 'C':
            v = None
            for cnd, le in at['cases']:
                if cval(cnd):
                    v = leval(le)
                    break
            assert v is not None, 'no case applies'
        elif at.get('pp') is not None:
            v = pow(leval(at['pp'][2]), at['pp'][1], P)
        else:
            v = (leval(at['fm'][0]) * leval(at['fm'][1])) % P
        cache[a] = v
        return v

    def cval(c):
        if c is True:
            return True
        if isinstance(c, tuple):
            if c[0] == 'const':
                return bool(c[1])
            return not cval(c[1])
        return bool(aval(c))

    def leval(le):
        return sum(c * aval(a) for a, c in le.items()) % P
    bad = []
    for w in range(L.n):
        if L.val[w] is None or wires[w] is None:
            continue
        lv = leval(L.val[w])
        if lv != wires[w] % P:
            bad.append((w, lv, wires[w]))
    return bad
