"""C01/C02: specification relations for batched Merkle insertion / deletion, the soundness & completeness queries on the
lifted R1CS of the repo's InsertionProof / DeletionProof gadgets, and concrete replay of counterexamples."""
import json, os, sys, time
import z3
sys.path.insert(0, os.path.dirname(os.path.abspath(__file__)))
from lift import Lifter, ONE, Inconclusive, eval_r1cs
import poseidon_ref

H2 = z3.Function('H2', z3.IntSort(), z3.IntSort(), z3.IntSort())


def poseidon2_summary(L, rec, ins, outs):
    used = set()
    a = L.zint(ins[0], used)
    b = L.zint(ins[1], used)
    z = L.atoms[outs[0]]['z']
    L.defs[str(z)] = ([z == H2(a, b), z >= 0, z < L.P], used)
    L.atoms[outs[0]]['zapp'] = (a, b)
    L.atoms[outs[0]]['uf'] = ('H2', ins[0], ins[1])


SUMMARY = {'poseidon.Poseidon2': poseidon2_summary}


class Layout:
    """input wire positions (schema order) of the harness circuits in r2sdump"""

    def __init__(self, kind, D, B):
        self.kind, self.D, self.B = kind, D, B
        if kind == 'ins':
            self.start, self.pre, self.post = 1, 2, 3
            self.idc = [4 + i for i in range(B)]
            base = 4 + B
        else:
            self.pre, self.post = 1, 2
            self.idx = [3 + i for i in range(B)]
            self.idc = [3 + B + i for i in range(B)]
            base = 3 + 2 * B
        self.proof = [[base + i * D + j for j in range(D)] for i in range(B)]
        self.nin = base + B * D


class HDefs(list):
    """range facts for the H2 terms of the specification; also remembers the application terms"""

    def __init__(self):
        super().__init__()
        self.apps = []


def Hc(L, a, b, used_defs):
    t = H2(a, b)
    used_defs.append(z3.And(t >= 0, t < L.P))
    if hasattr(used_defs, 'apps'):
        used_defs.apps.append((a, b))
    return t


def concretise(s, L, hdefs, rounds=80):
    """Refine a model of the abstraction (H2 uninterpreted) into one that agrees with the real Poseidon on every
    application: pin inputs/hints that are not images of H2 in the model, add H2(point)=real value, re-solve."""
    apps = [at['zapp'] for at in L.atoms if 'zapp' in at] + list(hdefs.apps)
    ival = lambda m, t: int(str(m.eval(t, model_completion=True)))
    pinned = set()
    points = {}
    deadline = time.time() + 90
    s.set('timeout', 20000)
    for _ in range(rounds):
        if time.time() > deadline:
            return None
        m = s.model()
        changed = False
        outs = set()
        for a, b in apps:
            av, bv = ival(m, a), ival(m, b)
            outs.add(ival(m, H2(av, bv)))
            if (av, bv) not in points:
                points[(av, bv)] = poseidon_ref.hash([av, bv])
                if ival(m, H2(av, bv)) != points[(av, bv)]:
                    changed = True
                s.add(H2(av, bv) == points[(av, bv)])
        for ai, at in enumerate(L.atoms):
            if ai in pinned or 'wire' not in at or 'zapp' in at:
                continue
            if at['kind'] == 'B':
                v = m.eval(at['z'], model_completion=True)
                s.add(at['z'] == v)
                pinned.add(ai)
            elif at['kind'] == 'F' and 'hint' not in at:
                v = ival(m, at['z'])
                if v not in outs:
                    s.add(at['z'] == v)
                    pinned.add(ai)
        if not changed:
            return m
        if str(s.check()) != 'sat':
            return None
    return None


def spec(L, lay, used, hdefs, honest_bits=False):
    """the property's relation over the input atoms, the existential index bits instantiated by the circuit's NBits outputs.
    returns z3 Bool."""
    D, B = lay.D, lay.B
    W = lambda w: L.zint(L.val[w], used)
    nb = D if lay.kind == 'ins' else D + 1
    if len(L.nbits) != B:
        raise Inconclusive('expected %d NBits hints (one index decomposition per slot), circuit has %d' % (B, len(L.nbits)))
    root = W(lay.pre)
    ok = []
    for i in range(B):
        v, bw = L.nbits[i]
        # the specification's nb index bits are instantiated by the circuit's first nb decomposition bits
        # (missing ones by 0): a circuit that decomposes into more or fewer bits then disagrees with Spec on some index
        bw = (list(bw) + [{}] * nb)[:nb]
        bits = [L.zbool(b, used) for b in bw]
        idx = (W(lay.start) + i) if lay.kind == 'ins' else W(lay.idx[i])
        ibits = [L.zint(b, used) for b in bw]      # same 0/1 integer terms the circuit's recomposition uses
        ok.append(z3.Sum([(1 << j) * ibits[j] for j in range(nb)]) == idx)   # integer equality: inside the tree, no wrap

        def fold(leaf):
            cur = leaf
            for j in range(D):
                sib = W(lay.proof[i][j])
                cur = z3.If(bits[j], Hc(L, sib, cur, hdefs), Hc(L, cur, sib, hdefs))
            return cur
        if lay.kind == 'ins':
            ok.append(fold(z3.IntVal(0)) == root)
            root = fold(W(lay.idc[i]))
        else:
            skip = bits[D]
            ok.append(z3.Or(skip, fold(W(lay.idc[i])) == root))
            root = z3.If(skip, root, fold(z3.IntVal(0)))
    ok.append(root == W(lay.post))
    return z3.And(*ok)


def honest_hints(L, used):
    """contracts of the honest hint functions: bits.NBits returns the low n bits of the canonical value; hint.InvZero the inverse or 0"""
    out = []
    for v, bw in L.nbits:
        n = len(bw)
        val = L.zint(v, used)
        L.aux += 1
        q = z3.Int('hq_%s%d' % (L.tag, L.aux))
        bits = []
        for b in bw:
            (a, c), = b.items()
            at = L.atoms[a]
            used.add(at['sym'])
            if at['kind'] == 'B':
                bits.append(at['zi'])
            else:
                bits.append(at['z'])
                out.append(z3.And(at['z'] >= 0, at['z'] <= 1))
        out.append(q >= 0)
        out.append(val == z3.Sum([(1 << j) * bits[j] for j in range(n)]) + (1 << n) * q)
    for a, x in L.invzero:
        am, c = L.monic(a)
        av = L.zint(am, used)
        xv = L.zint(x, used)
        out.append(z3.If(av == 0, xv == 0, L.FM(av, xv) == pow(c, -1, L.P)))
        out.append(L.FM(av, xv) == L.FM(xv, av))
    return out


def typed_bool_inputs(L):
    """input atoms (not hint outputs) that the lifting typed boolean: completeness must not rely on them silently"""
    return [a for a, at in enumerate(L.atoms) if at['kind'] == 'B' and 'hint' not in at and at.get('wire', 1 << 30) < L.nin]


def solve(fs, timeout, on_sat=None, stagger=None):
    """restart portfolio in forked, hard-killed children (engine/common.portfolio_solve): the verdict is the first sat/unsat that
    any variant of the same formula set returns. -> verdict, seconds, on_sat payload, portfolio info for the evidence"""
    from common import portfolio_solve
    r, secs, payload, info = portfolio_solve(fs, timeout, on_sat=on_sat, stagger_s=stagger)
    pf = {'variant': info['variant'], 'variants_started': info['variants_started']}
    if info['variants_started'] > 1 or r not in ('sat', 'unsat'):
        pf['answers'] = info['answers']
    return r, secs, payload, pf


def run_task(task):
    """one (kind, D, B) instance: soundness, completeness and their vacuity twins. Returns plain dict."""
    kind, D, B, path = task['kind'], task['D'], task['B'], task['path']
    timeout = task.get('timeout', 300)
    d = json.load(open(path))
    if d.get('Error'):
        return {'task': task, 'error': 'compile: ' + d['Error']}
    res = {'task': {k: v for k, v in task.items() if k != 'path'}, 'obls': [], 'constraints': len(d['Constraints'])}
    try:
        t0 = time.time()
        L = Lifter(d, summary=SUMMARY)
        lay = Layout(kind, D, B)
        if L.nin != lay.nin:
            raise Inconclusive('harness has %d inputs, layout expects %d' % (L.nin, lay.nin))
        res['lift_s'] = round(time.time() - t0, 2)
        res['stats'] = dict(L.stats)
        res['assertions'] = len(L.assertions)
        # ---- soundness: all hint outputs free
        used, hdefs = set(), HDefs()
        asserts = L.all_assertions(used)
        sp = spec(L, lay, used, hdefs)
        base = L.closure(used) + list(hdefs)
        stagger = task.get('stagger')

        def sound_model(s):
            m0 = s.model()
            m = concretise(s, L, hdefs)
            return {'concretised': m is not None, 'model': extract_model(L, lay, m if m is not None else m0)}
        q_sound = base + asserts + [z3.Not(sp)]
        r, secs, pl, pf = solve(q_sound, timeout, sound_model, stagger)
        o = {'name': '%s D=%d B=%d soundness (hints free): constraints & not Spec' % (kind, D, B), 'verdict': r, 'expect': 'unsat', 'secs': secs, 'portfolio': pf}
        if r == 'sat':
            o.update(pl)
        res['obls'].append(o)
        if task.get('diff'):
            # differential run of the same query on the other installed z3 (4.8.12 binary), from the SMT-LIB2 dump
            import subprocess, tempfile
            s = z3.SimpleSolver()
            s.add(*q_sound)
            with tempfile.NamedTemporaryFile('w', suffix='.smt2', delete=False) as f:
                f.write('(set-logic ALL)\n' + s.to_smt2())
            try:
                p = subprocess.run(['/usr/bin/z3', '-T:120', f.name], stdout=subprocess.PIPE, stderr=subprocess.PIPE, text=True, timeout=150)
                other = 'error' if '(error' in p.stdout else (p.stdout.strip().split('\n')[0] or 'unknown')
            except Exception:  # noqa
                other = 'timeout'
            os.unlink(f.name)
            res['obls'].append({'name': '%s D=%d B=%d differential: z3 4.8.12 on the dumped soundness query agrees with z3 5.1.0 (%s)' % (kind, D, B, r), 'verdict': other, 'expect': r, 'secs': 0.0})
        r2, secs2, _, pf2 = solve(base + asserts, timeout, None, stagger)
        res['obls'].append({'name': '%s D=%d B=%d soundness twin: constraints satisfiable' % (kind, D, B), 'verdict': r2, 'expect': 'sat', 'secs': secs2, 'portfolio': pf2})
        # ---- completeness: honest hints
        tb = typed_bool_inputs(L)
        if tb:
            raise Inconclusive('input atoms typed boolean by the circuit: %s' % tb[:5])
        used, hdefs = set(), HDefs()
        asserts = L.all_assertions(used)
        sp = spec(L, lay, used, hdefs)
        hh = honest_hints(L, used)
        base = L.closure(used) + list(hdefs)

        def compl_model(s):
            m0 = s.model()
            m = concretise(s, L, hdefs)
            out = {'concretised': m is not None}
            if m is None:
                m = m0
            out['model'] = extract_model(L, lay, m)
            out['failing'] = [A['ci'] for A, za in zip(L.assertions, asserts) if z3.is_false(m.eval(za, model_completion=True))][:5]
            return out
        r, secs, pl, pf = solve(base + hh + [sp, z3.Not(z3.And(*asserts))], timeout, compl_model, stagger)
        o = {'name': '%s D=%d B=%d completeness (honest hints): Spec & not constraints' % (kind, D, B), 'verdict': r, 'expect': 'unsat', 'secs': secs, 'portfolio': pf}
        if r == 'sat':
            o.update(pl)
        res['obls'].append(o)
        r2, secs2, _, pf2 = solve(base + hh + [sp], timeout, None, stagger)
        res['obls'].append({'name': '%s D=%d B=%d completeness twin: Spec satisfiable' % (kind, D, B), 'verdict': r2, 'expect': 'sat', 'secs': secs2, 'portfolio': pf2})
    except Inconclusive as e:
        res['error'] = 'inconclusive: %s' % e
    return res


def extract_model(L, lay, m):
    """values of inputs and hint outputs under the model"""
    used = set()
    ev = lambda t: m.eval(t, model_completion=True)
    ins = []
    for w in range(1, L.nin):
        ins.append(int(str(ev(L.zint(L.val[w], used)))))
    hints = {}
    for a, at in enumerate(L.atoms):
        if 'hint' in at:
            v = ev(at['z'])
            if at['kind'] == 'B':
                v = 1 if z3.is_true(v) else 0
            elif False:
                pass
            else:
                v = int(str(v))
            hints['%d,%d' % at['hint']] = v
    ufs = []
    for rec, sins, outs in L.sumcalls:
        ufs.append({'args': [int(str(ev(L.zint(x, used)))) for x in sins], 'out': int(str(ev(L.atoms[outs[0]]['z'])))})
    return {'inputs': ins, 'hints': hints, 'uf_calls': ufs}


# ------------------------------------------------------------------------------ concrete oracle + replay
def oracle(kind, D, B, ins):
    """independent decision of the property's relation on concrete inputs (reference Poseidon)."""
    lay = Layout(kind, D, B)
    P = poseidon_ref.P
    v = lambda w: ins[w - 1] % P
    root = v(lay.pre)

    def fold(leaf, idx, i):
        cur = leaf
        for j in range(D):
            sib = v(lay.proof[i][j])
            cur = poseidon_ref.hash([sib, cur]) if (idx >> j) & 1 else poseidon_ref.hash([cur, sib])
        return cur
    for i in range(B):
        if kind == 'ins':
            idx = v(lay.start) + i      # as integers
            if idx >= (1 << D):
                return False, 'index %d outside the tree' % idx
            if fold(0, idx, i) != root:
                return False, 'leaf %d not empty under the running root' % idx
            root = fold(v(lay.idc[i]), idx, i)
        else:
            idx = v(lay.idx[i])
            if idx >= (1 << (D + 1)):
                return False, 'index %d >= 2^(D+1)' % idx
            if idx >= (1 << D):
                continue
            if fold(v(lay.idc[i]), idx, i) != root:
                return False, 'slot %d: presented leaf/path does not reproduce the running root' % i
            root = fold(0, idx, i)
    if root != v(lay.post):
        return False, 'post root differs'
    return True, 'valid'


def replay(kind, D, B, model, real_dump, sum_dump):
    """Concretise an abstract model (H2 uninterpreted) with the real Poseidon and judge it on the real, unsummarised R1CS
    (adversarial hint values from the model) and with the independent oracle. Returns dict with 'circuit_accepts', 'oracle_valid'."""
    P = int(real_dump['Field'])
    ins = list(model['inputs'])
    uf = model['uf_calls']
    ov_sum = {tuple(int(x) for x in k.split(',')): v for k, v in model['hints'].items()}
    ov_sum = {k: v for k, v in ov_sum.items() if sum_dump['Hints'][k[0]]['Name'].endswith('NBits')}

    def summary_eval(rec, args):
        return [poseidon_ref.hash(args)]
    # rebind inputs that coincide with a UF output in the model to that call's real value (fixpoint)
    sum_nin = len(sum_dump['Public']) + len(sum_dump['Secret'])
    sum_hints = sum_dump['Hints']
    sum_keys = []   # summary call index -> output wire
    for h in sum_hints:
        if h['Name'].endswith('verifSummary'):
            sum_keys.append(h['Wires'][0])
    bind = {}
    for wi, v in enumerate(ins):
        for k, c in enumerate(uf):
            if c['out'] == v and v not in (0, 1):
                bind[wi] = k
    for _ in range(2 * (len(ins) + 2)):
        wires, failed = eval_r1cs(sum_dump, ins, hint_override=ov_sum, summary_eval=summary_eval)
        new = list(ins)
        for wi, k in bind.items():
            new[wi] = wires[sum_keys[k]]
        if new == ins:
            break
        ins = new
    # hint indices differ between the summarised and the real system: map NBits/InvZero hints by order of appearance
    def plain_hints(d):
        return [hi for hi, h in enumerate(d['Hints']) if not h['Name'].endswith('verifSummary')]
    ph_s, ph_r = plain_hints(sum_dump), plain_hints(real_dump)
    ov_real = {}
    if len(ph_s) == len(ph_r):
        m = dict(zip(ph_s, ph_r))
        for (hi, k), v in ov_sum.items():
            # only bit decompositions are adversarial choices worth replaying; for InvZero the honest value is the prover's best choice
            if hi in m and sum_dump['Hints'][hi]['Name'].endswith('NBits'):
                ov_real[(m[hi], k)] = v
    wires, failed = eval_r1cs(real_dump, ins, hint_override=ov_real)
    valid, why = oracle(kind, D, B, ins)
    return {'inputs': [str(x) for x in ins], 'hint_overrides': {'%d,%d' % k: v for k, v in ov_real.items()},
            'circuit_accepts': not failed, 'failed_constraints': failed[:5], 'oracle_valid': valid, 'oracle_reason': why}
