// ssadump: loads packages of the repository under test (with overlay harness files), builds go/ssa and dumps, as JSON,
// every function reachable from the requested entry points through static calls / closures / method sets of repo types,
// stopping at functions of packages outside the "follow" set (those are stubs on the Python side).
//
// usage: ssadump <config.json> <out.json>
// config: {"dir": "/repo", "overlay": {"/repo/prover/zz_verif.go": "/path/harness.go"}, "patterns": ["./..."],
//          "entries": ["worldcoin/gnark-mbu/prover.VerifHarness_C08"], "follow": ["worldcoin/gnark-mbu"], "extra": ["io.ReadFull"]}
package main

import (
	"encoding/json"
	"fmt"
	"go/constant"
	"go/token"
	"go/types"
	"os"
	"sort"
	"strings"

	"golang.org/x/tools/go/packages"
	"golang.org/x/tools/go/ssa"
	"golang.org/x/tools/go/ssa/ssautil"
)

type config struct {
	Dir      string            `json:"dir"`
	Overlay  map[string]string `json:"overlay"`
	Patterns []string          `json:"patterns"`
	Entries  []string          `json:"entries"`
	Follow   []string          `json:"follow"`
	Extra    []string          `json:"extra"`
	AllOf    []string          `json:"allof"` // dump every function of these packages
	Optional []string          `json:"optional"` // like extra, silently skipped when absent from the loaded program
}

type jVal map[string]interface{}

type jInstr map[string]interface{}

type jBlock struct {
	Index  int      `json:"index"`
	Instrs []jInstr `json:"instrs"`
	Preds  []int    `json:"preds"`
	Succs  []int    `json:"succs"`
}

type jFunc struct {
	Name     string   `json:"name"`
	Pkg      string   `json:"pkg"`
	Params   []jVal   `json:"params"`
	FreeVars []jVal   `json:"freevars"`
	Results  []int    `json:"results"`
	Blocks   []jBlock `json:"blocks"`
	Recover  int      `json:"recover"`
	Pos      string   `json:"pos"`
	Synth    string   `json:"synth,omitempty"`
}

type jType map[string]interface{}

type out struct {
	Funcs   map[string]*jFunc            `json:"funcs"`
	Types   []jType                      `json:"types"`
	Methods map[string]map[string]string `json:"methods"` // type string -> method name -> function name
	Globals map[string]int               `json:"globals"` // name -> type id (of the pointee)
	Errors  []string                     `json:"errors"`
}

type dumper struct {
	prog    *ssa.Program
	fset    *token.FileSet
	tids    map[string]int
	types   []jType
	out     *out
	follow  []string
	queue   []*ssa.Function
	seenFn  map[*ssa.Function]bool
	typq    []types.Type
	seenMS  map[string]bool
}

func (d *dumper) tid(t types.Type) int {
	if t == nil {
		return -1
	}
	t = types.Unalias(t)
	key := types.TypeString(t, nil)
	if id, ok := d.tids[key]; ok {
		return id
	}
	id := len(d.types)
	d.tids[key] = id
	d.types = append(d.types, nil)
	jt := jType{"str": key}
	switch u := t.(type) {
	case *types.Named:
		jt["kind"] = "named"
		jt["name"] = key
		jt["under"] = d.tid(u.Underlying())
		d.typq = append(d.typq, t)
	case *types.Basic:
		jt["kind"] = "basic"
		info := u.Info()
		switch {
		case info&types.IsBoolean != 0:
			jt["basic"] = "bool"
		case info&types.IsString != 0:
			jt["basic"] = "string"
		case info&types.IsInteger != 0:
			jt["basic"] = "int"
			bits := 64
			switch u.Kind() {
			case types.Int8, types.Uint8:
				bits = 8
			case types.Int16, types.Uint16:
				bits = 16
			case types.Int32, types.Uint32:
				bits = 32
			}
			jt["bits"] = bits
			jt["signed"] = info&types.IsUnsigned == 0
		case info&types.IsFloat != 0:
			jt["basic"] = "float"
		case u.Kind() == types.UnsafePointer:
			jt["basic"] = "unsafeptr"
		case u.Kind() == types.UntypedNil:
			jt["basic"] = "nil"
		default:
			jt["basic"] = "other"
		}
	case *types.Pointer:
		jt["kind"] = "ptr"
		jt["elem"] = d.tid(u.Elem())
	case *types.Slice:
		jt["kind"] = "slice"
		jt["elem"] = d.tid(u.Elem())
	case *types.Array:
		jt["kind"] = "array"
		jt["elem"] = d.tid(u.Elem())
		jt["len"] = u.Len()
	case *types.Struct:
		jt["kind"] = "struct"
		fs := []jVal{}
		for i := 0; i < u.NumFields(); i++ {
			f := u.Field(i)
			fs = append(fs, jVal{"name": f.Name(), "type": d.tid(f.Type()), "embedded": f.Embedded()})
		}
		jt["fields"] = fs
	case *types.Interface:
		jt["kind"] = "iface"
		ms := []string{}
		for i := 0; i < u.NumMethods(); i++ {
			ms = append(ms, u.Method(i).Name())
		}
		jt["methods"] = ms
	case *types.Signature:
		jt["kind"] = "func"
		rs := []int{}
		for i := 0; i < u.Results().Len(); i++ {
			rs = append(rs, d.tid(u.Results().At(i).Type()))
		}
		jt["results"] = rs
		ps := []int{}
		for i := 0; i < u.Params().Len(); i++ {
			ps = append(ps, d.tid(u.Params().At(i).Type()))
		}
		jt["params"] = ps
		jt["variadic"] = u.Variadic()
	case *types.Tuple:
		jt["kind"] = "tuple"
		es := []int{}
		for i := 0; i < u.Len(); i++ {
			es = append(es, d.tid(u.At(i).Type()))
		}
		jt["elems"] = es
	case *types.Map:
		jt["kind"] = "map"
		jt["key"] = d.tid(u.Key())
		jt["elem"] = d.tid(u.Elem())
	case *types.Chan:
		jt["kind"] = "chan"
		jt["elem"] = d.tid(u.Elem())
	default:
		jt["kind"] = "other"
	}
	d.types[id] = jt
	return id
}

func fname(f *ssa.Function) string {
	return f.String()
}

func (d *dumper) followed(f *ssa.Function) bool {
	if f == nil {
		return false
	}
	if f.Blocks == nil {
		return false
	}
	p := ""
	if f.Pkg != nil {
		p = f.Pkg.Pkg.Path()
	} else if f.Parent() != nil && f.Parent().Pkg != nil {
		p = f.Parent().Pkg.Pkg.Path()
	} else if o := f.Origin(); o != nil && o.Pkg != nil {
		p = o.Pkg.Pkg.Path()
	} else if f.Synthetic != "" {
		// wrappers / bound-method thunks: follow if the receiver type belongs to a followed package
		s := f.String()
		for _, pre := range d.follow {
			if strings.Contains(s, pre) {
				return true
			}
		}
		return false
	}
	for _, pre := range d.follow {
		if p == pre || strings.HasPrefix(p, pre+"/") {
			return true
		}
	}
	return false
}

func (d *dumper) enqueue(f *ssa.Function) {
	if f == nil || d.seenFn[f] {
		return
	}
	d.seenFn[f] = true
	d.queue = append(d.queue, f)
}

func (d *dumper) val(v ssa.Value) jVal {
	if v == nil {
		return nil
	}
	switch x := v.(type) {
	case *ssa.Const:
		jv := jVal{"k": "const", "t": d.tid(x.Type())}
		if x.Value == nil {
			jv["nil"] = true
		} else {
			switch x.Value.Kind() {
			case constant.Bool:
				jv["v"] = constant.BoolVal(x.Value)
			case constant.String:
				jv["v"] = constant.StringVal(x.Value)
			case constant.Int:
				jv["v"] = x.Value.ExactString()
			default:
				jv["v"] = x.Value.ExactString()
				jv["float"] = true
			}
		}
		return jv
	case *ssa.Global:
		d.out.Globals[x.String()] = d.tid(x.Type().(*types.Pointer).Elem())
		return jVal{"k": "global", "n": x.String(), "t": d.tid(x.Type())}
	case *ssa.Function:
		if d.followed(x) {
			d.enqueue(x)
		}
		return jVal{"k": "func", "n": fname(x), "t": d.tid(x.Type())}
	case *ssa.Builtin:
		return jVal{"k": "builtin", "n": x.Name()}
	case *ssa.Parameter:
		return jVal{"k": "local", "n": x.Name(), "t": d.tid(x.Type())}
	case *ssa.FreeVar:
		return jVal{"k": "freevar", "n": x.Name(), "t": d.tid(x.Type())}
	default:
		return jVal{"k": "local", "n": v.Name(), "t": d.tid(v.Type())}
	}
}

func (d *dumper) vals(vs []ssa.Value) []jVal {
	o := []jVal{}
	for _, v := range vs {
		o = append(o, d.val(v))
	}
	return o
}

func (d *dumper) call(c *ssa.CallCommon) jVal {
	jc := jVal{"args": d.vals(c.Args)}
	if c.IsInvoke() {
		jc["invoke"] = true
		jc["method"] = c.Method.Name()
		jc["recv"] = d.val(c.Value)
		jc["sig"] = d.tid(c.Signature())
	} else {
		jc["fn"] = d.val(c.Value)
		if sc := c.StaticCallee(); sc != nil {
			jc["static"] = fname(sc)
			if sc.Pkg != nil {
				jc["pkg"] = sc.Pkg.Pkg.Path()
			} else if o := sc.Origin(); o != nil && o.Pkg != nil {
				jc["pkg"] = o.Pkg.Pkg.Path()
			}
			rs := []int{}
			res := sc.Signature.Results()
			for i := 0; i < res.Len(); i++ {
				rs = append(rs, d.tid(res.At(i).Type()))
			}
			jc["results"] = rs
		}
		jc["sig"] = d.tid(c.Signature())
	}
	return jc
}

func (d *dumper) instr(in ssa.Instruction) jInstr {
	ji := jInstr{}
	if v, ok := in.(ssa.Value); ok {
		ji["name"] = v.Name()
		ji["type"] = d.tid(v.Type())
	}
	if p := in.Pos(); p.IsValid() {
		pos := d.fset.Position(p)
		ji["pos"] = fmt.Sprintf("%s:%d", pos.Filename, pos.Line)
	}
	switch x := in.(type) {
	case *ssa.Alloc:
		ji["op"] = "Alloc"
		ji["heap"] = x.Heap
		ji["elem"] = d.tid(x.Type().(*types.Pointer).Elem())
	case *ssa.BinOp:
		ji["op"] = "BinOp"
		ji["binop"] = x.Op.String()
		ji["x"] = d.val(x.X)
		ji["y"] = d.val(x.Y)
	case *ssa.Call:
		ji["op"] = "Call"
		ji["call"] = d.call(&x.Call)
	case *ssa.ChangeInterface:
		ji["op"] = "ChangeInterface"
		ji["x"] = d.val(x.X)
	case *ssa.ChangeType:
		ji["op"] = "ChangeType"
		ji["x"] = d.val(x.X)
	case *ssa.Convert:
		ji["op"] = "Convert"
		ji["x"] = d.val(x.X)
	case *ssa.MultiConvert:
		ji["op"] = "Convert"
		ji["x"] = d.val(x.X)
	case *ssa.SliceToArrayPointer:
		ji["op"] = "SliceToArrayPointer"
		ji["x"] = d.val(x.X)
	case *ssa.Defer:
		ji["op"] = "Defer"
		ji["call"] = d.call(&x.Call)
	case *ssa.Extract:
		ji["op"] = "Extract"
		ji["x"] = d.val(x.Tuple)
		ji["index"] = x.Index
	case *ssa.Field:
		ji["op"] = "Field"
		ji["x"] = d.val(x.X)
		ji["field"] = x.Field
	case *ssa.FieldAddr:
		ji["op"] = "FieldAddr"
		ji["x"] = d.val(x.X)
		ji["field"] = x.Field
	case *ssa.Go:
		ji["op"] = "Go"
		ji["call"] = d.call(&x.Call)
	case *ssa.If:
		ji["op"] = "If"
		ji["cond"] = d.val(x.Cond)
	case *ssa.Index:
		ji["op"] = "Index"
		ji["x"] = d.val(x.X)
		ji["index"] = d.val(x.Index)
	case *ssa.IndexAddr:
		ji["op"] = "IndexAddr"
		ji["x"] = d.val(x.X)
		ji["index"] = d.val(x.Index)
	case *ssa.Jump:
		ji["op"] = "Jump"
	case *ssa.Lookup:
		ji["op"] = "Lookup"
		ji["x"] = d.val(x.X)
		ji["index"] = d.val(x.Index)
		ji["commaok"] = x.CommaOk
	case *ssa.MakeChan:
		ji["op"] = "MakeChan"
		ji["size"] = d.val(x.Size)
	case *ssa.MakeClosure:
		ji["op"] = "MakeClosure"
		ji["fn"] = d.val(x.Fn)
		ji["bindings"] = d.vals(x.Bindings)
	case *ssa.MakeInterface:
		ji["op"] = "MakeInterface"
		ji["x"] = d.val(x.X)
		ji["xtype"] = d.tid(x.X.Type())
		d.methodSet(x.X.Type())
	case *ssa.MakeMap:
		ji["op"] = "MakeMap"
	case *ssa.MakeSlice:
		ji["op"] = "MakeSlice"
		ji["len"] = d.val(x.Len)
		ji["cap"] = d.val(x.Cap)
	case *ssa.MapUpdate:
		ji["op"] = "MapUpdate"
		ji["map"] = d.val(x.Map)
		ji["key"] = d.val(x.Key)
		ji["value"] = d.val(x.Value)
	case *ssa.Next:
		ji["op"] = "Next"
		ji["iter"] = d.val(x.Iter)
		ji["isstring"] = x.IsString
	case *ssa.Panic:
		ji["op"] = "Panic"
		ji["x"] = d.val(x.X)
	case *ssa.Phi:
		ji["op"] = "Phi"
		ji["edges"] = d.vals(x.Edges)
	case *ssa.Range:
		ji["op"] = "Range"
		ji["x"] = d.val(x.X)
	case *ssa.Return:
		ji["op"] = "Return"
		ji["results"] = d.vals(x.Results)
	case *ssa.RunDefers:
		ji["op"] = "RunDefers"
	case *ssa.Select:
		ji["op"] = "Select"
		ji["blocking"] = x.Blocking
		sts := []jVal{}
		for _, st := range x.States {
			dir := "recv"
			if st.Dir == types.SendOnly {
				dir = "send"
			}
			sts = append(sts, jVal{"dir": dir, "chan": d.val(st.Chan), "send": d.val(st.Send)})
		}
		ji["states"] = sts
	case *ssa.Send:
		ji["op"] = "Send"
		ji["chan"] = d.val(x.Chan)
		ji["x"] = d.val(x.X)
	case *ssa.Slice:
		ji["op"] = "Slice"
		ji["x"] = d.val(x.X)
		ji["low"] = d.val(x.Low)
		ji["high"] = d.val(x.High)
		ji["max"] = d.val(x.Max)
	case *ssa.Store:
		ji["op"] = "Store"
		ji["addr"] = d.val(x.Addr)
		ji["val"] = d.val(x.Val)
	case *ssa.TypeAssert:
		ji["op"] = "TypeAssert"
		ji["x"] = d.val(x.X)
		ji["asserted"] = d.tid(x.AssertedType)
		ji["commaok"] = x.CommaOk
	case *ssa.UnOp:
		ji["op"] = "UnOp"
		ji["unop"] = x.Op.String()
		ji["x"] = d.val(x.X)
		ji["commaok"] = x.CommaOk
	case *ssa.DebugRef:
		ji["op"] = "DebugRef"
	default:
		ji["op"] = fmt.Sprintf("Unsupported:%T", in)
	}
	return ji
}

// methodSet records the methods of a concrete type (and its pointer) so interface invokes can be dispatched.
func (d *dumper) methodSet(t types.Type) {
	key := types.TypeString(t, nil)
	if d.seenMS[key] {
		return
	}
	d.seenMS[key] = true
	ms := d.prog.MethodSets.MethodSet(t)
	m := map[string]string{}
	for i := 0; i < ms.Len(); i++ {
		sel := ms.At(i)
		fn := d.prog.MethodValue(sel)
		if fn == nil {
			continue
		}
		m[sel.Obj().Name()] = fname(fn)
		if d.followed(fn) {
			d.enqueue(fn)
		}
	}
	d.out.Methods[key] = m
}

func (d *dumper) function(f *ssa.Function) {
	jf := &jFunc{Name: fname(f), Recover: -1, Synth: f.Synthetic}
	if f.Pkg != nil {
		jf.Pkg = f.Pkg.Pkg.Path()
	}
	if f.Pos().IsValid() {
		p := d.fset.Position(f.Pos())
		jf.Pos = fmt.Sprintf("%s:%d", p.Filename, p.Line)
	}
	for _, p := range f.Params {
		jf.Params = append(jf.Params, jVal{"n": p.Name(), "t": d.tid(p.Type())})
	}
	for _, fv := range f.FreeVars {
		jf.FreeVars = append(jf.FreeVars, jVal{"n": fv.Name(), "t": d.tid(fv.Type())})
	}
	res := f.Signature.Results()
	for i := 0; i < res.Len(); i++ {
		jf.Results = append(jf.Results, d.tid(res.At(i).Type()))
	}
	if f.Recover != nil {
		jf.Recover = f.Recover.Index
	}
	for _, b := range f.Blocks {
		jb := jBlock{Index: b.Index}
		for _, p := range b.Preds {
			jb.Preds = append(jb.Preds, p.Index)
		}
		for _, s := range b.Succs {
			jb.Succs = append(jb.Succs, s.Index)
		}
		for _, in := range b.Instrs {
			if _, ok := in.(*ssa.DebugRef); ok {
				continue
			}
			jb.Instrs = append(jb.Instrs, d.instr(in))
		}
		jf.Blocks = append(jf.Blocks, jb)
	}
	for _, af := range f.AnonFuncs {
		d.enqueue(af)
	}
	d.out.Funcs[jf.Name] = jf
}

func main() {
	var cfg config
	b, err := os.ReadFile(os.Args[1])
	if err != nil {
		panic(err)
	}
	if err := json.Unmarshal(b, &cfg); err != nil {
		panic(err)
	}
	overlay := map[string][]byte{}
	for virt, realp := range cfg.Overlay {
		c, err := os.ReadFile(realp)
		if err != nil {
			panic(err)
		}
		overlay[virt] = c
	}
	pcfg := &packages.Config{Mode: packages.LoadAllSyntax, Dir: cfg.Dir, Overlay: overlay, Env: append(os.Environ(), "GOFLAGS=-mod=mod", "GOPROXY=off", "GOSUMDB=off")}
	pats := cfg.Patterns
	if len(pats) == 0 {
		pats = []string{"./..."}
	}
	pkgs, err := packages.Load(pcfg, pats...)
	if err != nil {
		panic(err)
	}
	o := &out{Funcs: map[string]*jFunc{}, Methods: map[string]map[string]string{}, Globals: map[string]int{}}
	for _, p := range pkgs {
		for _, e := range p.Errors {
			o.Errors = append(o.Errors, e.Error())
		}
	}
	prog, _ := ssautil.AllPackages(pkgs, ssa.InstantiateGenerics)
	prog.Build()
	d := &dumper{prog: prog, fset: pkgs[0].Fset, tids: map[string]int{}, out: o, follow: cfg.Follow, seenFn: map[*ssa.Function]bool{}, seenMS: map[string]bool{}}
	all := ssautil.AllFunctions(prog)
	byName := map[string]*ssa.Function{}
	for f := range all {
		byName[fname(f)] = f
	}
	want := append(append([]string{}, cfg.Entries...), cfg.Extra...)
	for _, n := range want {
		f, ok := byName[n]
		if !ok {
			o.Errors = append(o.Errors, "entry not found: "+n)
			continue
		}
		d.enqueue(f)
	}
	for _, n := range cfg.Optional {
		if f, ok := byName[n]; ok {
			d.enqueue(f)
		}
	}
	for f := range all {
		if f.Pkg != nil {
			for _, p := range cfg.AllOf {
				if f.Pkg.Pkg.Path() == p {
					d.enqueue(f)
				}
			}
		}
	}
	for len(d.queue) > 0 || len(d.typq) > 0 {
		for len(d.queue) > 0 {
			f := d.queue[0]
			d.queue = d.queue[1:]
			if f.Blocks == nil {
				continue
			}
			d.function(f)
		}
		for len(d.typq) > 0 {
			t := d.typq[0]
			d.typq = d.typq[1:]
			if d.followedType(t) {
				d.methodSet(t)
				d.methodSet(types.NewPointer(t))
			}
		}
	}
	o.Types = d.types
	names := []string{}
	for n := range o.Funcs {
		names = append(names, n)
	}
	sort.Strings(names)
	f, err := os.Create(os.Args[2])
	if err != nil {
		panic(err)
	}
	enc := json.NewEncoder(f)
	if err := enc.Encode(o); err != nil {
		panic(err)
	}
	f.Close()
	fmt.Fprintf(os.Stderr, "ssadump: %d functions, %d types, %d errors\n", len(o.Funcs), len(o.Types), len(o.Errors))
}

func (d *dumper) followedType(t types.Type) bool {
	n, ok := t.(*types.Named)
	if !ok || n.Obj().Pkg() == nil {
		return false
	}
	p := n.Obj().Pkg().Path()
	for _, pre := range d.follow {
		if p == pre || strings.HasPrefix(p, pre+"/") {
			return true
		}
	}
	return false
}
