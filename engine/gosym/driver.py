"""Driver for GOSYM checks: overlay assembly, SSA dump from the current /repo tree, symbolic run of harness entries,
obligation bookkeeping, reachability twins, native replay of counterexamples with `go test -overlay`."""
import json, os, re, subprocess, sys, tempfile, time, collections
import z3
sys.path.insert(0, os.path.dirname(os.path.abspath(__file__)))
sys.path.insert(0, os.path.dirname(os.path.dirname(os.path.abspath(__file__))))
import common, gosym, stubs
from gosym import Exec, Unsupported

VERIF = common.VERIF
MODULE = 'worldcoin/gnark-mbu'


def pkgpath(pkgdir):
    return MODULE if pkgdir in ('.', '') else MODULE + '/' + pkgdir


def overlay_files(pkgdir, pkgname, harness_files, native):
    """{virtual path in the repo: real file}"""
    sc = common.scratch()
    tmpl = open(os.path.join(VERIF, 'harness', 'intrinsics_native.go.tmpl' if native else 'intrinsics_sym.go.tmpl')).read().replace('package PKG', 'package ' + pkgname)
    f = os.path.join(sc, 'intr_%s_%s.go' % (pkgname, 'native' if native else 'sym'))
    open(f, 'w').write(tmpl)
    base = os.path.join(common.REPO, pkgdir) if pkgdir not in ('.', '') else common.REPO
    ov = {os.path.join(base, 'zz_verif_intr.go'): f}
    for h in harness_files:
        if isinstance(h, (tuple, list)):      # (symbolic build file, native build file)
            h = h[1] if native else h[0]
        ov[os.path.join(base, 'zz_verif_' + os.path.basename(h))] = os.path.join(VERIF, 'harness', h)
    return ov


MODULE_INITS = [MODULE + '/prover.init', MODULE + '/server.init']


def load(pkgdir, pkgname, harness_files, entries, extra_follow=(), patterns=None, extra=()):
    ov = overlay_files(pkgdir, pkgname, harness_files, native=False)
    cfg = {'dir': common.REPO, 'overlay': ov, 'patterns': patterns or ['./' + pkgdir if pkgdir not in ('.', '') else '.'],
           'entries': [pkgpath(pkgdir) + '.' + e if '.' not in e else e for e in entries], 'follow': [MODULE] + list(extra_follow), 'extra': list(extra) + [pkgpath(pkgdir) + '.init'], 'optional': MODULE_INITS}
    t = time.time()
    try:
        prog = gosym.load_program(cfg, common.scratch())
    except RuntimeError as e:
        raise common.BuildError(str(e))
    errs = [e for e in prog['errors'] if 'entry not found' in e or 'zz_verif' in e or True]
    if prog['errors']:
        raise common.BuildError('harness does not type-check against the tree:\n' + '\n'.join(prog['errors'][:10]))
    return prog, time.time() - t


def model_draws(state, model):
    out = {}
    for k, v in state.draws.items():
        mv = model.eval(v, model_completion=True)
        if z3.is_string_value(mv):
            out['str:' + k] = mv.as_string()
        elif z3.is_bool(mv):
            out[k] = '1' if z3.is_true(mv) else '0'
        else:
            out[k] = str(mv.as_long()) if z3.is_bv_value(mv) else str(mv)
    return out


def static_assert_msgs(prog, full):
    """messages of the verifAssert call sites written in the harness entry (constant second argument)"""
    out = set()
    for b in prog['funcs'][full]['blocks']:
        for ins in b['instrs']:
            c = ins.get('call')
            if ins.get('op') == 'Call' and c and c.get('fn', {}).get('k') == 'func' and c['fn']['n'].endswith('.verifAssert') and len(c['args']) > 1 and c['args'][1].get('k') == 'const':
                v = c['args'][1].get('v', c['args'][1].get('val'))
                if isinstance(v, str):
                    out.add(v)
    return out


def run_entry(run, prog, entry, stub_map, loop_bound=8, max_paths=5000, timeout_ms=30000, label=None, trace_calls=()):
    """symbolically execute one harness; records one obligation per reached assertion / implicit check class. Returns (results, exec)"""
    full = entry if entry in prog['funcs'] else None
    if full is None:
        for n in prog['funcs']:
            if n.endswith('.' + entry):
                full = n
    if full is None:
        raise common.BuildError('harness entry %s not found in the SSA dump' % entry)
    ex = Exec(prog, stub_map, loop_bound=loop_bound, max_paths=max_paths, timeout_ms=timeout_ms)
    ex.trace_calls = set(trace_calls)
    if run.thorough and 'GOSYM_TIME_BUDGET' not in os.environ:
        ex.time_budget = 5400
    t = time.time()
    try:
        res = ex.run(full)
    except Unsupported as e:
        run.inconclusive.append('%s: unsupported by the encoder: %s' % (entry, e))
        run.obligation('%s: symbolic execution completes' % (label or entry), 'unsupported', 'unsat', time.time() - t)
        return [], ex
    secs = time.time() - t
    st = collections.Counter(r.status for r in res)
    reached = collections.Counter()
    for r in res:
        for e in r.state.events:
            if e[0] == 'assert':
                reached[e[1]] += 1
    if ex.incomplete:
        # the budget cut the exploration. If every assertion written in the harness was reached and held on the finished paths and none of
        # them failed, panicked or needed more unwinding, the result is a smaller bound (stated in the evidence), not a verdict about the tree;
        # otherwise nothing can be said
        static = static_assert_msgs(prog, full)
        clean = all(r.status in ('ok', 'infeasible') for r in res) and st.get('ok', 0) >= 1
        if clean and static and static <= set(reached):
            run.reduced.append('%s: %s; all %d assertions of the harness were reached and hold on the %d finished paths' % (label or entry, ex.incomplete, len(static), st.get('ok', 0)))
            run.obligation('%s: symbolic execution completes' % (label or entry), 'unsat', 'unsat', secs, reduced_bound=ex.incomplete)
        else:
            run.inconclusive.append('%s: exploration incomplete: %s' % (entry, ex.incomplete))
            run.obligation('%s: symbolic execution completes' % (label or entry), 'incomplete', 'unsat', secs)
    failed = collections.defaultdict(list)
    for r in res:
        if r.status == 'assert':
            failed[r.info['msg']].append(r)
    name = label or entry
    for msg, cnt in reached.items():
        run.obligation('%s: %s' % (name, msg), 'sat' if msg in failed else 'unsat', 'unsat', secs / max(1, len(reached)), paths_reaching=cnt)
    panics = [r for r in res if r.status == 'panic']
    unw = [r for r in res if r.status == 'unwind']
    run.obligation('%s: no path panics (index, nil, slice bounds; %d implicit obligations discharged on %d paths)' % (name, ex.checked_obligations, len(res)),
                   'sat' if panics else 'unsat', 'unsat', 0.0, statuses=dict(st))
    run.obligation('%s: unwinding assertion (no feasible path needs more than %d iterations)' % (name, loop_bound), 'sat' if unw else 'unsat', 'unsat', 0.0)
    if unw:
        run.inconclusive.append('%s: loop bound %d too small: %s' % (name, loop_bound, unw[0].info))
    # reachability twin: the harness' last assertion is reached on some feasible path
    run.obligation('%s: reachability twin (assertions are reached: %d distinct)' % (name, len(reached)), 'sat' if reached else 'unsat', 'sat', 0.0)
    run.extra.setdefault('paths', {})[name] = dict(st)
    run.extra['solver_calls'] = run.extra.get('solver_calls', 0) + ex.solver_calls
    return res, ex


def replay_native(pkgdir, pkgname, harness_files, entry, draws, timeout=600, extra_env=None, race=False):
    """compile the same harness natively (intrinsics read the draws) and run it with go test -overlay; returns (failed assertion messages, panicked, output)"""
    sc = common.scratch()
    d = tempfile.mkdtemp(prefix='replay_', dir=sc)
    ov = overlay_files(pkgdir, pkgname, harness_files, native=True)
    base = os.path.join(common.REPO, pkgdir) if pkgdir not in ('.', '') else common.REPO
    test = os.path.join(d, 'replay_test.go')
    open(test, 'w').write('''package %s

import (
	"os"
	"testing"
)

func TestVerifReplay(t *testing.T) {
	defer func() {
		if r := recover(); r != nil {
			t.Fatalf("VERIF-PANIC: %%v", r)
		}
	}()
	switch os.Getenv("VERIF_HARNESS") {
%s	default:
		t.Fatalf("unknown harness")
	}
	for _, f := range verifFailures {
		t.Errorf("VERIF-ASSERT-FAILED: %%s", f)
	}
}
''' % (pkgname, ''.join('\tcase "%s":\n\t\t%s()\n' % (e, e) for e in [entry])))
    ov[os.path.join(base, 'zz_verif_replay_test.go')] = test
    ovf = os.path.join(d, 'overlay.json')
    json.dump({'Replace': ov}, open(ovf, 'w'))
    rf = os.path.join(d, 'draws.json')
    json.dump({'draws': draws}, open(rf, 'w'))
    env = dict(common.GOENV, VERIF_REPLAY_FILE=rf, VERIF_HARNESS=entry)
    env.update(extra_env or {})
    target = './' + pkgdir if pkgdir not in ('.', '') else '.'
    cmd = ['go', 'test', '-vet=off', '-count=1', '-timeout', '%ds' % max(60, timeout - 30), '-overlay', ovf, '-run', '^TestVerifReplay$', target]
    if race:
        cmd.insert(2, '-race')
        env['CGO_ENABLED'] = '1'
    p = subprocess.run(cmd, cwd=common.REPO, env=env,
                       stdout=subprocess.PIPE, stderr=subprocess.STDOUT, text=True, timeout=timeout)
    out = p.stdout
    failed = re.findall(r'VERIF-ASSERT-FAILED: (.*)', out)
    return failed, 'VERIF-PANIC' in out or 'panic:' in out or 'WARNING: DATA RACE' in out, out


def report(run, ex, pkgdir, pkgname, harness_files, entry, res, keyfn=None, label=None):
    """replay every distinct failing assertion / panic natively; VIOLATION only if it reproduces"""
    seen = set()
    for r in res:
        if r.status not in ('assert', 'panic'):
            continue
        if r.status == 'assert':
            msg, model = r.info['msg'], r.info['model']
        else:
            msg = str(r.info)
            rr, sol = ex.check(r.state.pc)
            if rr != 'sat':
                run.inconclusive.append('%s: panic path without model: %s' % (entry, msg))
                continue
            model = sol.model()
        if msg in seen:
            continue
        seen.add(msg)
        draws = model_draws(r.state, model)
        try:
            failed, panicked, out = replay_native(pkgdir, pkgname, harness_files, entry, draws)
            # the harness assertions are statements of the property and the native run is the real build: any of them failing there is a
            # violation, whether or not it is the one the model pointed at
            ok = (r.status == 'assert' and bool(failed)) or (r.status == 'panic' and (panicked or bool(failed)))
            # the model interprets uninterpreted library predicates freely: when it does not replay, try the other dictionary models
            for alt in (r.info.get('alt_models', []) if (r.status == 'assert' and not ok) else []):
                d2 = model_draws(r.state, alt)
                f2, p2, o2 = replay_native(pkgdir, pkgname, harness_files, entry, d2)
                if f2:
                    draws, failed, panicked, out, ok = d2, f2, p2, o2, True
                    break
        except subprocess.TimeoutExpired:
            run.inconclusive.append('%s: native replay timed out' % entry)
            continue
        if ok:
            key = keyfn(entry, msg, draws) if keyfn else '%s:%s' % (entry, msg[:60])
            if r.status == 'assert' and msg not in failed:
                msg = '%s [natively: %s]' % (msg, failed[0])
            run.violation('%s: %s -- reproduced natively (go test -overlay) with draws %s' % (label or entry, msg, json.dumps(draws)[:400]),
                          {'harness': entry, 'package_dir': pkgdir, 'assertion': msg, 'draws': draws, 'harness_files': list(harness_files), 'native_output_tail': out[-1500:]}, key=key)
        else:
            run.inconclusive.append('%s: counterexample for "%s" did not reproduce natively (failed=%s panic=%s draws=%s): %s' % (entry, msg[:80], failed, panicked, json.dumps(draws)[:300], out[-300:].replace('\n', ' | ')))
