"""Stubs: harness intrinsics and contracts for everything outside the repository (math/big, bytes, binary, hashing, fmt, json,
gnark, net/http, zerolog, ...). Every stub used by a check is listed in its evidence file."""
import os
import z3
from gosym import *

USED = set()


def used(name):
    USED.add(name)


def K_uf(ex, nbytes=BYTECAP):
    key = ('keccak', nbytes)
    if key not in ex.uf:
        ex.uf[key] = z3.Function('keccak256', z3.BitVecSort(64), z3.BitVecSort(8 * nbytes), z3.BitVecSort(256))
    return ex.uf[key]


def byte_cells_of_bv(x, nbytes):
    """big-endian bytes of a bit-vector"""
    return [z3.simplify(z3.Extract(8 * (nbytes - 1 - j) + 7, 8 * (nbytes - 1 - j), x)) for j in range(nbytes)]


def bytelen(x):
    """number of significant bytes of a 256-bit value (0 for 0)"""
    L = bvval(0, 64)
    for k in range(1, x.size() // 8 + 1):
        L = z3.If(z3.LShR(x, 8 * (k - 1)) != 0, bvval(k, 64), L)
    return z3.simplify(L)


def new_bytes(ex, st, cells, ln, lo=None, hi=None):
    o = st.alloc(Array(cells))
    return Slice(o, 0, ln, len(cells), lo, hi)


def pack(ex, st, s, nbytes=BYTECAP):
    """(len, zero-masked concatenation) of a byte slice, for hash UFs"""
    cells = ex.cells(st, s)
    ln = ex.zlen(s)
    hi = s.hi if not isinstance(s.len, int) else s.len
    if hi > nbytes:
        raise Unsupported('byte string longer than %d' % nbytes)
    parts = []
    for k in range(nbytes):
        if k < len(cells) and k < hi:
            parts.append(cells[k] if isinstance(s.len, int) else z3.If(z3.UGT(ln, bvval(k, 64)), cells[k], bvval(0, 8)))
        else:
            parts.append(bvval(0, 8))
    return ln, z3.simplify(z3.Concat(*parts))


# ------------------------------------------------------------------------------------------ intrinsics
def name_of(a):
    z = z3.simplify(a.z)
    if not z3.is_string_value(z):
        raise Unsupported('intrinsic name must be a literal')
    return z.as_string()


def i_nondet_u32(ex, st, args, ctx):
    n = name_of(args[0])
    v = z3.BitVec(n, 32)
    st.draws[n] = v
    return v


def i_nondet_int(ex, st, args, ctx):
    n = name_of(args[0])
    v = z3.BitVec(n, 64)
    st.draws[n] = v
    return v


def i_nondet_bool(ex, st, args, ctx):
    n = name_of(args[0])
    v = z3.Bool(n)
    st.draws[n] = v
    return v


def i_nondet_big(ex, st, args, ctx):
    n = name_of(args[0])
    v = z3.BitVec(n, BIG)
    st.draws[n] = v
    return Big(v)


def i_nondet_len(ex, st, args, ctx):
    n = name_of(args[0])
    mx = conc(args[1])
    v = z3.BitVec(n, 64)
    st.draws[n] = v
    st.pc.append(z3.ULE(v, bvval(mx, 64)))
    return v


def i_nondet_string(ex, st, args, ctx):
    n = name_of(args[0])
    v = z3.String(n)
    st.draws[n] = v
    return Str(v)


def i_nondet_bytes(ex, st, args, ctx):
    n = name_of(args[0])
    k = conc(args[1])
    cells = []
    for i in range(k):
        b = z3.BitVec('%s[%d]' % (n, i), 8)
        st.draws['%s[%d]' % (n, i)] = b
        cells.append(b)
    return new_bytes(ex, st, cells, k)


def i_name(ex, st, args, ctx):
    return S('%s[%d]' % (name_of(args[0]), conc(args[1])))


def i_name2(ex, st, args, ctx):
    return S('%s[%d][%d]' % (name_of(args[0]), conc(args[1]), conc(args[2])))


def i_assume(ex, st, args, ctx):
    c = z3.simplify(args[0])
    if not ex.feasible(st, c):
        raise PathEnd('infeasible')
    st.pc.append(c)
    return None


def i_assert(ex, st, args, ctx):
    c = z3.simplify(args[0])
    msg = name_of(args[1]) if len(args) > 1 else ''
    ex.checked_obligations += 1
    st.events.append(('assert', msg, ctx['pos']))
    if z3.is_true(c):
        return None
    r, sol = ex.check(st.pc, [z3.Not(c)])
    if r == 'unsat':
        return None
    if r != 'sat':
        raise Unsupported('solver %s on assertion %s' % (r, msg))
    # refine the uninterpreted isNumber/numval on the concrete strings of the model with Go's real answer (so the model replays natively)
    facts = []
    strs = [v for v in st.draws.values() if z3.is_string(v)]
    if strs:
        # first try to find the counterexample among a dictionary of typical numbers / non-numbers, with Go's true answers for them
        D = ['', '0x', 'zz', ' 1', '1.5', '0x1f', '12', '0', '0x0', '-1', '0b1', '1_0', '0x1G', '0x12zz', '7 zz', '0x2 ', ' 0x2', '1e3', '+5', '0X1F', '00', '0o7', '0b102', '0x_1', '1\n']
        isn = uf(ex, 'isNumber_base0', z3.StringSort(), z3.BoolSort())
        nv = uf(ex, 'numval_base0', z3.StringSort(), z3.BitVecSort(BIG))
        dfacts = []
        for w in D:
            val = go_setstring0(w)
            dfacts.append(isn(z3.StringVal(w)) == (val is not None))
            if val is not None and val >= 0:
                dfacts.append(nv(z3.StringVal(w)) == bvval(val, BIG))
        dfacts += [z3.Or(*[v == z3.StringVal(w) for w in D]) for v in strs]
        rd, sold = ex.check(st.pc, [z3.Not(c)] + dfacts)
        if rd == 'sat':
            # further dictionary counterexamples (other strings in the positions the first one used): which of them the real library
            # functions agree with is decided by the native replay
            first = sold.model()
            alts = []
            for w in D:
                if go_setstring0(w) is not None or len(alts) >= 24:
                    continue
                # one non-number in one string position, plain numbers everywhere else
                for pi in range(len(strs)):
                    ra, sola = ex.check(st.pc, [z3.Not(c)] + dfacts + [strs[pi] == z3.StringVal(w)] + [v == z3.StringVal('12') for j, v in enumerate(strs) if j != pi])
                    if ra == 'sat':
                        alts.append(sola.model())
                        break
                    if os.environ.get('GOSYM_DEBUG'):
                        rb, _ = ex.check(st.pc, [z3.Not(c)] + dfacts + [strs[pi] == z3.StringVal(w)])
                        print('alt', repr(w), pi, strs[pi], ra, rb, flush=True)
            raise PathEnd('assert', {'msg': msg, 'pos': ctx['pos'], 'model': first, 'alt_models': alts})
    for _ in range(12):
        m = sol.model()
        new = []
        for v in st.draws.values():
            if z3.is_string(v):
                sv = m.eval(v, model_completion=True)
                if z3.is_string_value(sv):
                    val = go_setstring0(sv.as_string())
                    isn = uf(ex, 'isNumber_base0', z3.StringSort(), z3.BoolSort())
                    nv = uf(ex, 'numval_base0', z3.StringSort(), z3.BitVecSort(BIG))
                    f = isn(sv) == (val is not None)
                    if z3.is_false(m.eval(f, model_completion=True)):
                        new.append(f)
                    if val is not None and 0 <= val < (1 << BIG):
                        g = nv(sv) == bvval(val, BIG)
                        if z3.is_false(m.eval(g, model_completion=True)):
                            new.append(g)
        if not new:
            break
        facts.extend(new)
        r2, sol2 = ex.check(st.pc, [z3.Not(c)] + facts)
        if r2 == 'unsat':
            return None       # the violation only existed for an impossible interpretation of isNumber on concrete strings... keep checking other strings
        if r2 != 'sat':
            break
        sol = sol2
    e = PathEnd('assert', {'msg': msg, 'pos': ctx['pos'], 'model': sol.model()})
    raise e


def go_setstring0(s):
    """value if big.Int.SetString(s, 0) succeeds else None (Go number syntax with base prefixes; underscores only with a prefix)"""
    t = s
    if t[:1] in '+-':
        t = t[1:]
    base, pref = 10, False
    low = t.lower()
    if low.startswith('0x'):
        base, t, pref = 16, t[2:], True
    elif low.startswith('0b'):
        base, t, pref = 2, t[2:], True
    elif low.startswith('0o'):
        base, t, pref = 8, t[2:], True
    elif len(t) > 1 and t[0] == '0':
        base, t, pref = 8, t[1:], True
    if pref:
        if '__' in t or t.endswith('_'):
            return None
        t = t.replace('_', '')
    if not t:
        return None
    digs = '0123456789abcdef'[:base]
    if any(ch not in digs for ch in t.lower()):
        return None
    return int(t, base)


def i_big_eq(ex, st, args, ctx):
    a, b = rbig(st, args[0]), rbig(st, args[1])
    if a.neg != b.neg:
        return z3.simplify(z3.And(a.v == 0, b.v == 0))
    return z3.simplify(a.v == b.v)


def i_big_lt(ex, st, args, ctx):
    a, b = rbig(st, args[0]), rbig(st, args[1])
    if a.neg and not b.neg:
        return z3.simplify(z3.Or(a.v != 0, b.v != 0))
    if b.neg and not a.neg:
        return z3.BoolVal(False)
    return z3.simplify(z3.ULT(b.v, a.v) if a.neg else z3.ULT(a.v, b.v))


def i_be32(ex, st, args, ctx):
    return new_bytes(ex, st, byte_cells_of_bv(rbig(st, args[0]).v, 32), 32)


def i_bytes_eq(ex, st, args, ctx):
    a, b = args
    la, lb = ex.zlen(a), ex.zlen(b)
    ca, cb = ex.cells(st, a), ex.cells(st, b)
    n = max(len(ca), len(cb))
    conds = [la == lb]
    for k in range(n):
        x = ca[k] if k < len(ca) else bvval(0, 8)
        y = cb[k] if k < len(cb) else bvval(0, 8)
        conds.append(z3.Implies(z3.UGT(la, bvval(k, 64)), x == y))
    return z3.simplify(z3.And(*conds))


def i_note(ex, st, args, ctx):
    st.events.append(('note', name_of(args[0])))
    return None


PARAMS = {}


def i_param(ex, st, args, ctx):
    n = name_of(args[0])
    v = PARAMS.get(n, conc(args[1]))
    st.draws['param:' + n] = bvval(v, 64)
    return bvval(v, 64)


INTRINSICS = {'verifParam': i_param, 'verifNondetU32': i_nondet_u32, 'verifNondetInt': i_nondet_int, 'verifNondetBool': i_nondet_bool, 'verifNondetBig': i_nondet_big,
              'verifNondetLen': i_nondet_len, 'verifNondetString': i_nondet_string, 'verifNondetBytes': i_nondet_bytes, 'verifName': i_name, 'verifName2': i_name2,
              'verifAssume': i_assume, 'verifAssert': i_assert, 'verifBigEq': i_big_eq, 'verifBigLt': i_big_lt, 'verifBE32': i_be32, 'verifBytesEq': i_bytes_eq, 'verifNote': i_note}


# ------------------------------------------------------------------------------------------ math/big
def bigptr(ex, st, p):
    v = ex.load(st, p)
    if not isinstance(v, Big):
        raise Unsupported('expected *big.Int, got %r' % (v,))
    return rbig(st, v)


def big_assign(ex, st, p, nb):
    """z.Set*/SetBytes/...: when the receiver already has a backing array the digits are written into it (every shallow copy of the
    receiver's old value sees them: same-size values always fit); otherwise a new array is allocated"""
    old = ex.load(st, p)
    nb = rbig(st, nb)
    if isinstance(old, Big) and old.cell is not None:
        used('math/big: a mutator writes into the receiver\'s existing backing array, which shallow copies of the big.Int share')
        st.heap[('bigcell', old.cell)] = (nb.v, nb.neg)
        return
    ex.store(st, p, Big(nb.v, nb.neg))


def big_Bytes(ex, st, args, ctx):
    used('(*math/big.Int).Bytes: minimal big-endian bytes of a value < 2^256')
    x = bigptr(ex, st, args[0]).v
    L = bytelen(x)
    sh = z3.ZeroExt(BIG - 64, bvval(8, 64) * (bvval(NB, 64) - L))
    y = z3.simplify(x << sh)
    r = new_bytes(ex, st, byte_cells_of_bv(y, NB), L, 0, NB)
    st.heap[('bytes_of', r.obj)] = (x, L, st.heap[r.obj].e)      # these bytes denote x: lets SetBytes/hex of the untouched slice skip the length case split
    return r


def bytes_value(ex, st, s):
    """big-endian integer denoted by a byte slice (len <= 32), as BV256"""
    memo = st.heap.get(('bytes_of', s.obj)) if not isinstance(s.obj, tuple) and s.obj is not None else None
    if memo is not None and s.off == 0 and z3.is_expr(s.len) and z3.eq(s.len, memo[1]) and isinstance(st.heap.get(s.obj), Array) and st.heap[s.obj].e is memo[2]:
        return memo[0]      # the untouched result of (*big.Int).Bytes()
    cells = ex.cells(st, s)
    if isinstance(s.len, int):
        if s.len > NB:
            raise Unsupported('SetBytes of more than %d bytes' % NB)
        v = bvval(0, BIG)
        for k in range(s.len):
            v = (v << 8) | z3.ZeroExt(BIG - 8, cells[k])
        return z3.simplify(v)
    if s.hi > NB:
        raise Unsupported('SetBytes of possibly more than %d bytes' % NB)
    res = bvval(0, BIG)
    for L in range(s.hi, -1, -1):
        v = bvval(0, BIG)
        for k in range(L):
            v = (v << 8) | z3.ZeroExt(BIG - 8, cells[k])
        res = z3.If(s.len == L, v, res)
    return z3.simplify(res)


def big_SetBytes(ex, st, args, ctx):
    used('(*math/big.Int).SetBytes: big-endian value of at most 32 bytes')
    big_assign(ex, st, args[0], Big(bytes_value(ex, st, args[1])))
    return args[0]


def big_FillBytes(ex, st, args, ctx):
    used('(*math/big.Int).FillBytes: fixed-width big-endian, panics if the value does not fit')
    x = bigptr(ex, st, args[0]).v
    buf = args[1]
    if not isinstance(buf.len, int):
        raise Unsupported('FillBytes into symbolic-length buffer')
    n = buf.len
    if n < NB and not ex.must(st, z3.ULT(x, bvval(1 << (8 * n), BIG))):
        raise PathEnd('panic', 'FillBytes: value does not fit in %d bytes at %s' % (n, ctx['pos']))
    cells = byte_cells_of_bv(x, NB)
    for i in range(n):
        j = NB - n + i
        ex.store(st, ex.slice_cell_ptr(buf, i), cells[j] if j >= 0 else bvval(0, 8))
    return buf


def big_SetUint64(ex, st, args, ctx):
    big_assign(ex, st, args[0], Big(z3.simplify(z3.ZeroExt(BIG - 64, args[1]))))
    return args[0]


def _signed64(ex, st, x, mk):
    """a signed 64-bit value as a big.Int: non-negative -> magnitude; possibly negative -> fork on the sign"""
    neg = z3.simplify(x < 0)
    if z3.is_false(neg) or not ex.feasible(st, neg):
        return mk(st, Big(z3.simplify(z3.ZeroExt(BIG - 64, x))))
    if z3.is_true(neg) or not ex.feasible(st, z3.Not(neg)):
        return mk(st, Big(z3.simplify(z3.ZeroExt(BIG - 64, -x)), neg=True))
    return Forks([(neg, lambda s2: mk(s2, Big(z3.simplify(z3.ZeroExt(BIG - 64, -x)), neg=True)), None),
                  (z3.Not(neg), lambda s2: mk(s2, Big(z3.simplify(z3.ZeroExt(BIG - 64, x)))), None)])


def big_SetInt64(ex, st, args, ctx):
    def mk(s2, b):
        big_assign(ex, s2, args[0], b)
        return args[0]
    return _signed64(ex, st, args[1], mk)


def big_NewInt(ex, st, args, ctx):
    return _signed64(ex, st, args[0], lambda s2, b: Ptr(s2.alloc(b)))


def big_Set(ex, st, args, ctx):
    big_assign(ex, st, args[0], bigptr(ex, st, args[1]))
    return args[0]


def big_Cmp(ex, st, args, ctx):
    A, B = bigptr(ex, st, args[0]), bigptr(ex, st, args[1])
    a, b = A.v, B.v
    if A.neg != B.neg:
        both0 = z3.And(a == 0, b == 0)
        return z3.simplify(z3.If(both0, bvval(0, 64), bvval(-1 if A.neg else 1, 64)))
    lt, gt = (bvval(1, 64), bvval(-1, 64)) if A.neg else (bvval(-1, 64), bvval(1, 64))
    return z3.simplify(z3.If(z3.ULT(a, b), lt, z3.If(a == b, bvval(0, 64), gt)))


def big_BitLen(ex, st, args, ctx):
    x = bigptr(ex, st, args[0]).v
    L = bvval(0, 64)
    for k in range(1, BIG + 1):
        L = z3.If(z3.Extract(k - 1, k - 1, x) == 1, bvval(k, 64), L)
    return z3.simplify(L)


def big_Text(ex, st, args, ctx):
    used('(*math/big.Int).Text(base): canonical digits of the value in that base (numeric-string model)')
    X = bigptr(ex, st, args[0])
    x = X.v
    base = conc(args[1])
    if X.neg:
        if ex.must(st, x == 0):
            return Str(num=('', base, x))
        if not ex.must(st, x != 0):
            raise Unsupported('Text of a big.Int that may be -0 or negative')
        return Str(parts=[('lit', '-'), ('num', '', base, x)])
    return Str(num=('', base, x))


def big_String(ex, st, args, ctx):
    x = bigptr(ex, st, args[0]).v
    return Str(num=('', 10, x))


def uf(ex, name, *sorts):
    if name not in ex.uf:
        ex.uf[name] = z3.Function(name, *sorts)
    return ex.uf[name]


def big_SetString(ex, st, args, ctx):
    """SetString(s, base): numeric-string model. base 0 accepts the 0x prefix. A plain (opaque) string is a number iff isNumber(s)."""
    used('(*math/big.Int).SetString: accepts exactly the strings that denote a number in the base (0 = prefix-selected); opaque strings via uninterpreted isNumber/numval')
    s = args[1]
    base = conc(args[2])
    if s.parts is not None:
        ps = []
        for p_ in s.parts:
            if p_[0] == 'lit' and ps and ps[-1][0] == 'lit':
                ps[-1] = ('lit', ps[-1][1] + p_[1])
            elif not (p_[0] == 'lit' and p_[1] == ''):
                ps.append(p_)
        if len(ps) == 2 and ps[0][0] == 'lit' and ps[1][0] == 'num':
            sign, (_, prefix, b, v) = ps[0][1], ps[1]
            if sign in ('-', '+') and ((base == 0 and ((prefix == '0x' and b == 16) or (prefix == '' and b == 10))) or (base == b and prefix == '')):
                big_assign(ex, st, args[0], Big(v, neg=(sign == '-')))
                return (args[0], z3.BoolVal(True))
            if any(ch in '+-' for ch in sign[1:]) or (sign[:1] in '+-' and len(sign) > 1 and prefix == '' ) or sign.endswith(('-', '+')) and len(sign) > 1:
                return (NIL, z3.BoolVal(False))       # a sign in the middle of the text is not a number
        raise Unsupported('SetString of the composite text %r' % (s,))
    if s.num is not None:
        prefix, b, v = s.num
        if (base == 0 and ((prefix == '0x' and b == 16) or (prefix == '' and b == 10) or (prefix == '0b' and b == 2))) or (base == b and prefix == ''):
            big_assign(ex, st, args[0], Big(v))
            return (args[0], z3.BoolVal(True))
        # digits of one base re-read in another: an uninterpreted reinterpretation (not the identity)
        f = uf(ex, 'reinterpret_%s%d_as_%d' % (prefix, b, base), z3.BitVecSort(BIG), z3.BitVecSort(BIG))
        g = uf(ex, 'reinterpret_ok_%s%d_as_%d' % (prefix, b, base), z3.BitVecSort(BIG), z3.BoolSort())
        ok = g(v)
        return Forks([(ok, lambda s2: _setstr_ok(ex, s2, args[0], f(v)), None), (z3.Not(ok), (NIL, z3.BoolVal(False)), None)])
    zs = z3.simplify(s.z)
    if z3.is_string_value(zs) and base == 0:
        val = go_setstring0(zs.as_string())
        if val is None or val < 0 or val >= (1 << BIG):
            return (NIL, z3.BoolVal(False))
        big_assign(ex, st, args[0], Big(bvval(val, BIG)))
        return (args[0], z3.BoolVal(True))
    isnum = uf(ex, 'isNumber_base%d' % base, z3.StringSort(), z3.BoolSort())
    numval = uf(ex, 'numval_base%d' % base, z3.StringSort(), z3.BitVecSort(BIG))
    ok = isnum(s.z)
    return Forks([(ok, lambda s2: _setstr_ok(ex, s2, args[0], numval(s.z)), None), (z3.Not(ok), (NIL, z3.BoolVal(False)), None)])


def _setstr_ok(ex, st, p, v):
    big_assign(ex, st, p, Big(v))
    return (p, z3.BoolVal(True))


# ------------------------------------------------------------------------------------------ bytes / binary / hashing / fmt
def buffer_bytes(ex, st, args, ctx):
    used('(*bytes.Buffer).Bytes: the bytes written so far')
    b = ex.load(st, args[0])
    return b.f[0] if b.f[0] is not NIL else Slice(None, 0, 0, 0)


def buffer_write(ex, st, bufptr, data):
    b = ex.load(st, bufptr)
    cur = b.f[0]
    new = ex.append(st, cur, data, None)
    ex.store(st, Ptr(bufptr.obj, bufptr.path + (0,)), new)


def buffer_Write(ex, st, args, ctx):
    buffer_write(ex, st, args[0], args[1])
    return (ex.zlen(args[1]), NIL)


def be_bytes(x):
    n = x.size() // 8
    return byte_cells_of_bv(x, n)


def binary_Write(ex, st, args, ctx):
    """binary.Write(w, order, data) for fixed-size unsigned integers and slices of them"""
    used('encoding/binary.Write: fixed-width encoding of integers / integer slices in the given byte order, returns nil')
    w, order, data = args
    oname = ex.tname(order.t)
    if 'bigEndian' not in oname and 'littleEndian' not in oname:
        raise Unsupported('binary.Write with order ' + oname)
    little = 'littleEndian' in oname
    v = data.v
    if z3.is_bv(v):
        cells = be_bytes(v)
        if little:
            cells = cells[::-1]
        chunk = new_bytes(ex, st, cells, len(cells))
    elif isinstance(v, Slice) or v is NIL:
        if v is NIL:
            chunk = Slice(None, 0, 0, 0)
        else:
            el = ex.cells(st, v)
            cells = []
            for e in el:
                bs = be_bytes(e)
                cells.extend(bs[::-1] if little else bs)
            w_ = (el[0].size() // 8) if el else 4
            if isinstance(v.len, int):
                chunk = new_bytes(ex, st, cells[:v.len * w_], v.len * w_)
            else:
                chunk = new_bytes(ex, st, cells, z3.simplify(v.len * w_), v.lo * w_, v.hi * w_)
    else:
        raise Unsupported('binary.Write of %r' % (v,))
    target = w.v if isinstance(w, Iface) else w
    if isinstance(target, Ptr):
        buffer_write(ex, st, target, chunk)
    else:
        raise Unsupported('binary.Write to %r' % (target,))
    return NIL


def keccak_Hash(ex, st, args, ctx):
    used('iden3 keccak256.Hash: uninterpreted function of the byte string (length, bytes)')
    parts = args[0]
    cells = ex.cells(st, parts)
    if not isinstance(parts.len, int):
        raise Unsupported('keccak256.Hash with symbolic number of parts')
    data = None
    for p in cells[:parts.len]:
        data = p if data is None else ex.append(st, data, p, None)
    if data is None:
        data = Slice(None, 0, 0, 0)
    if data.obj is None:
        ln, packed = bvval(0, 64), bvval(0, 8 * BYTECAP)
    else:
        ln, packed = pack(ex, st, data)
    st.events.append(('keccak', data))
    h = K_uf(ex)(ln, packed)
    return new_bytes(ex, st, byte_cells_of_bv(h, 32), 32)


def fmt_Errorf(ex, st, args, ctx):
    used('fmt.Errorf: a fresh non-nil error')
    return Iface(-1, Opaque('error', msg=args[0], origin=ctx['pos']))


def fmt_Sprintf(ex, st, args, ctx):
    used('fmt.Sprintf: interpreted for the formats "0x%s" / "%s" / "%d" on numeric strings; otherwise an opaque fresh string')
    fmt = z3.simplify(args[0].z)
    va = ex.cells(st, args[1]) if args[1] is not NIL else []
    if z3.is_string_value(fmt):
        f = fmt.as_string()
        if f in ('0x%s', '0x%x') and len(va) == 1:
            a = va[0].v
            if isinstance(a, Str) and a.num is not None and a.num[0] == '' and a.num[1] == 16:
                return Str(num=('0x', 16, a.num[2]))
            if isinstance(a, Ptr) and f == '0x%x':
                return Str(num=('0x', 16, bigptr(ex, st, a).v))
        if f == '%s' and len(va) == 1 and isinstance(va[0].v, Str):
            return va[0].v
    return Str(z3.String(ex.newsym('sprintf')))


def error_Error(ex, st, args, ctx):
    return Str(z3.String(ex.newsym('errmsg')))


BASE = {
    '(*math/big.Int).Bytes': big_Bytes, '(*math/big.Int).SetBytes': big_SetBytes, '(*math/big.Int).FillBytes': big_FillBytes,
    '(*math/big.Int).SetUint64': big_SetUint64, '(*math/big.Int).SetInt64': big_SetInt64, 'math/big.NewInt': big_NewInt, '(*math/big.Int).Set': big_Set,
    '(*math/big.Int).Cmp': big_Cmp, '(*math/big.Int).BitLen': big_BitLen, '(*math/big.Int).Text': big_Text, '(*math/big.Int).String': big_String, '(*math/big.Int).SetString': big_SetString,
    '(*bytes.Buffer).Bytes': buffer_bytes, '(*bytes.Buffer).Write': buffer_Write, 'encoding/binary.Write': binary_Write,
    'github.com/iden3/go-iden3-crypto/keccak256.Hash': keccak_Hash,
    'fmt.Errorf': fmt_Errorf, 'fmt.Sprintf': fmt_Sprintf, 'opaque:error.Error': error_Error,
}


def make_stubs(extra=None):
    s = dict(BASE)
    for k, v in INTRINSICS.items():
        s['intr:' + k] = v
    getter = lambda ex, st, a, c: z3.BitVec(ex.newsym('nb'), 64)
    s['prefix'] = default_prefix_stubs() + ext_prefixes() + [('opaque:cs.GetNb', getter), ('opaque:pk.Nb', getter), ('opaque:vk.Nb', getter)]
    if extra:
        for k, v in extra.items():
            if k == 'prefix':
                s['prefix'] = list(v) + s['prefix']
            else:
                s[k] = v
    return s


# ------------------------------------------------------------------------------------------ encoding/json (contract stubs)
class JsonDoc:
    """bytes produced by json.Marshal of a value whose Go type has no custom marshaller: an opaque document that
    json.Unmarshal into the same type restores exactly (mirror-struct round trip contract)"""

    def __init__(self, tid, value):
        self.tid, self.value = tid, value


def deref_type(ex, tid):
    t = ex.under(tid)
    return t['elem'] if t['kind'] == 'ptr' else None


def find_method(ex, tid, name):
    return ex.methods.get(ex.tname(tid), {}).get(name)


def json_Marshal(ex, st, args, ctx):
    used('encoding/json.Marshal: calls MarshalJSON when the dynamic type has one; otherwise yields an opaque document that Unmarshal into the same type restores exactly; may not fail for these types')
    v = args[0]
    if not isinstance(v, Iface):
        raise Unsupported('json.Marshal of %r' % (v,))
    while isinstance(v.v, Ptr) and ex.under(v.t)['kind'] == 'ptr' and ex.under(deref_type(ex, v.t))['kind'] == 'ptr':
        inner = ex.load(st, v.v)          # **T -> *T
        if not isinstance(inner, Ptr):
            o = st.alloc(JsonDoc(-1, 'null'))
            return (Slice(o, 0, 4, 0), NIL)
        v = Iface(deref_type(ex, v.t), inner)
    m = find_method(ex, v.t, 'MarshalJSON')
    if m is not None and m in ex.funcs:
        return ('tailcall', m, [v.v])
    val = v.v
    tid = v.t
    if isinstance(val, Ptr) and not isinstance(st.heap.get(val.obj), MapVal):
        tid = deref_type(ex, tid)
        val = ex.load(st, val)
    elif isinstance(val, Ptr):
        val = st.heap[val.obj]
    o = st.alloc(JsonDoc(tid, snapshot(ex, st, val)))
    st.events.append(('json.Marshal', tid))
    return (Slice(o, 0, z3.BitVec(ex.newsym('jsonlen'), 64), 0), NIL)


def snapshot(ex, st, v):
    """deep copy of a value, following slices (so later mutation of the source does not change the document)"""
    if isinstance(v, Slice):
        if v.obj is None:
            return ('slice', 0, [])
        return ('slice', v.len, [snapshot(ex, st, c) for c in ex.cells(st, v)[:v.hi if not isinstance(v.len, int) else v.len]])
    if isinstance(v, Struct):
        return Struct([snapshot(ex, st, f) for f in v.f])
    if isinstance(v, Array):
        return Array([snapshot(ex, st, f) for f in v.e])
    if v is NIL:
        return ('slice', 0, [])
    return v


def unsnapshot(ex, st, v):
    if isinstance(v, tuple) and v and v[0] == 'slice':
        cells = [unsnapshot(ex, st, c) for c in v[2]]
        o = st.alloc(Array(cells))
        ln = v[1]
        return Slice(o, 0, ln, len(cells), 0, len(cells))
    if isinstance(v, Struct):
        return Struct([unsnapshot(ex, st, f) for f in v.f])
    if isinstance(v, Array):
        return Array([unsnapshot(ex, st, f) for f in v.e])
    return v


HAVOC_BOUND = {'n': 3}


def havoc(ex, st, tid, name):
    """an arbitrary value of a Go type (what a decoder can produce from arbitrary input); slice lengths symbolic within HAVOC_BOUND"""
    if ex.isbig(tid):
        return Big(z3.BitVec(ex.newsym(name), BIG))
    t = ex.under(tid)
    k = t['kind']
    if k == 'basic':
        b = t['basic']
        if b == 'int':
            return z3.BitVec(ex.newsym(name), t['bits'])
        if b == 'bool':
            return z3.Bool(ex.newsym(name))
        if b == 'string':
            return Str(z3.String(ex.newsym(name)))
    if k == 'struct':
        return Struct([havoc(ex, st, f['type'], name + '.' + f['name']) for f in t['fields']])
    if k == 'array':
        return Array([havoc(ex, st, t['elem'], '%s[%d]' % (name, i)) for i in range(t['len'])])
    if k == 'slice':
        cap = HAVOC_BOUND['n']
        cells = [havoc(ex, st, t['elem'], '%s[%d]' % (name, i)) for i in range(cap)]
        o = st.alloc(Array(cells))
        ln = z3.BitVec(ex.newsym(name + '.len'), 64)
        st.pc.append(z3.ULE(ln, bvval(cap, 64)))
        return Slice(o, 0, ln, cap, 0, cap)
    raise Unsupported('havoc of type %s' % ex.tname(tid))


def json_Unmarshal(ex, st, args, ctx):
    used('encoding/json.Unmarshal: calls UnmarshalJSON when the target type has one; restores a document produced by Marshal of the same type; on any other input either fails or yields an arbitrary value of the target type (lengths <= %d)' % HAVOC_BOUND['n'])
    data, target = args
    if not isinstance(target, Iface) or not isinstance(target.v, Ptr):
        raise Unsupported('json.Unmarshal target %r' % (target,))
    m = find_method(ex, target.t, 'UnmarshalJSON')
    if m is not None and m in ex.funcs:
        return ('tailcall', m, [target.v, data])
    et = deref_type(ex, target.t)
    doc = st.heap.get(data.obj) if isinstance(data, Slice) and data.obj is not None and not isinstance(data.obj, tuple) else None
    if isinstance(doc, JsonDoc):
        if doc.tid == et:
            ex.store(st, target.v, unsnapshot(ex, st, doc.value))
            return NIL
        return Iface(-1, Opaque('error', msg=S('json: cannot unmarshal'), origin=ctx['pos']))
    c = z3.Bool(ex.newsym('json_decodes'))
    via_dec = isinstance(doc, Opaque) and getattr(doc, 'via_decoder', False)
    if not via_dec:
        c = z3.And(c, i_body_wellformed(ex, st, [], ctx))

    def ok(s2):
        ex.store(s2, target.v, havoc(ex, s2, et, 'json'))
        return NIL

    def maybe_zero(v_):
        if isinstance(v_, Str):
            return v_.z is not None and z3.is_string_value(z3.simplify(v_.z)) and z3.simplify(v_.z).as_string() == ''
        if isinstance(v_, Slice):
            return isinstance(v_.len, int) and v_.len == 0
        if v_ is NIL:
            return True
        if z3.is_expr(v_) and z3.is_bv(v_):
            return z3.is_bv_value(z3.simplify(v_)) and z3.simplify(v_).as_long() == 0
        return True
    old = ex.load(st, target.v)
    stale_fields = [i for i, f_ in enumerate(old.f) if not maybe_zero(f_)] if isinstance(old, Struct) else []
    alts = [(c, ok, None), (z3.Not(c), Iface(-1, Opaque('error', msg=S('json syntax/type error'), origin=ctx['pos'])), None)]
    if stale_fields:
        # encoding/json leaves the fields of the target whose keys are absent from the document as they were: with a reused target those are
        # the values of whatever was decoded into it before
        used('encoding/json.Unmarshal into a target that already holds values: fields whose keys are absent from the document keep them')
        absent = z3.Bool(ex.newsym('json_keys_absent'))

        def ok_stale(s2):
            new = havoc(ex, s2, et, 'json')
            cur = ex.load(s2, target.v)
            s2.events.append(('tag', 'stale_json_field'))
            ex.store(s2, target.v, Struct([cur.f[i] if i in stale_fields else new.f[i] for i in range(len(new.f))]))
            return NIL
        alts = [(z3.And(c, z3.Not(absent)), ok, None), (z3.And(c, absent), ok_stale, None), alts[1]]
    return Forks(alts)


# ------------------------------------------------------------------------------------------ groth16 proof object (C10)
def validproof_uf(ex):
    return uf(ex, 'validProofEncoding', z3.BitVecSort(2048), z3.BoolSort())


def i_stub_proof(ex, st, args, ctx):
    n = name_of(args[0])
    coords = []
    for i in range(8):
        v = z3.BitVec('%s.coord[%d]' % (n, i), BIG)
        st.draws['%s.coord[%d]' % (n, i)] = v
        coords.append(v)
    st.pc.append(validproof_uf(ex)(z3.Concat(*coords)))
    return Opaque('proof', coords=coords)


def i_proof_coord(ex, st, args, ctx):
    return Big(args[0].coords[conc(args[1])])


def i_proof_eq(ex, st, args, ctx):
    a, b = args
    if getattr(a, 'coords', None) is None or getattr(b, 'coords', None) is None:
        return z3.BoolVal(False)
    return z3.simplify(z3.And(*[x == y for x, y in zip(a.coords, b.coords)]))


def proof_WriteRawTo(ex, st, args, ctx):
    used('groth16 Proof.WriteRawTo: 8 x 32-byte big-endian affine coordinates A.x A.y B.x1 B.x0 B.y1 B.y0 C.x C.y (gnark-crypto raw encoding; coordinates < 2^254 so flag bits are 0)')
    p, w = args
    if p.coords is None:
        p.coords = [z3.BitVec(ex.newsym('proofcoord'), BIG) for _ in range(8)]
    st.events.append(('proof_marshalled', p))
    cells = []
    for c in p.coords:
        cells.extend(byte_cells_of_bv(c, 32))
    target = w.v if isinstance(w, Iface) else w
    buffer_write(ex, st, target, new_bytes(ex, st, cells, 256))
    return (bvval(256, 64), NIL)


def proof_ReadFrom(ex, st, args, ctx):
    used('groth16 Proof.ReadFrom: reads 256 bytes; succeeds iff they are the raw encoding of a valid proof (uninterpreted validity, true for every proof that exists)')
    p, r = args
    r = r.v if isinstance(r, Iface) else r
    data = r.data
    cells = ex.cells(st, data)
    if not isinstance(data.len, int) or data.len < 256:
        raise Unsupported('ReadFrom on short/symbolic buffer')
    coords = [z3.simplify(z3.Concat(*cells[32 * i:32 * i + 32])) for i in range(8)]
    ok = validproof_uf(ex)(z3.Concat(*coords))

    def good(s2):
        p.coords = coords        # Opaque objects are per-path unique enough for our harnesses
        return (bvval(256, 64), NIL)
    return Forks([(ok, good, None), (z3.Not(ok), (bvval(0, 64), Iface(-1, Opaque('error', msg=S('invalid point'), origin=ctx['pos']))), None)])


def bytes_NewReader(ex, st, args, ctx):
    return Opaque('bytesreader', data=args[0])


def groth16_NewProof(ex, st, args, ctx):
    return Opaque('proof', coords=None)


INTRINSICS.update({'verifStubProof': i_stub_proof, 'verifProofCoord': i_proof_coord, 'verifProofEq': i_proof_eq})
BASE.update({'encoding/json.Marshal': json_Marshal, 'encoding/json.Unmarshal': json_Unmarshal,
             'opaque:proof.WriteRawTo': proof_WriteRawTo, 'opaque:proof.ReadFrom': proof_ReadFrom, 'bytes.NewReader': bytes_NewReader,
             'github.com/consensys/gnark/backend/groth16.NewProof': groth16_NewProof})


# ------------------------------------------------------------------------------------------ bytes.Trim* with a zero-byte cutset; sync.Pool
def _trim(ex, st, args, ctx, left, right):
    used('bytes.Trim/TrimLeft/TrimRight with cutset "\\x00" on at most 32 bytes')
    s, cut = args
    cz = z3.simplify(cut.z)
    if not (z3.is_string_value(cz) and cz.as_string() in ('\x00', '\\u{0}', '\\x00')):
        raise Unsupported('bytes.Trim with cutset %s' % cz)
    v = bytes_value(ex, st, s)            # big-endian value of the (<= 32) bytes
    if not isinstance(s.len, int):
        raise Unsupported('bytes.Trim on symbolic-length input')
    n = s.len
    tz = bvval(0, 64)
    if right:
        for k in range(n, 0, -1):         # number of trailing zero bytes
            tz = z3.If(z3.Extract(8 * k - 1, 0, v) == 0, bvval(k, 64), tz)
        tz = z3.simplify(tz)
        v = z3.simplify(z3.LShR(v, z3.ZeroExt(BIG - 64, tz * 8)))
    if left:
        L = bytelen(v)
    else:
        L = z3.simplify(bvval(n, 64) - tz)
    sh = z3.ZeroExt(BIG - 64, bvval(8, 64) * (bvval(NB, 64) - L))
    y = z3.simplify(v << sh)
    return new_bytes(ex, st, byte_cells_of_bv(y, NB), L, 0, NB)


def sync_pool_get(ex, st, args, ctx):
    used('sync.Pool.Get: returns the most recently Put object if any (worst case for stale state), else New()')
    p = args[0]
    pool = st.heap.setdefault(('pool', p.obj, p.path), [])
    if pool:
        return pool[-1]
    newf = ex.load(st, p).f[-1]
    if not isinstance(newf, Func):
        return NIL
    if newf.binds or newf.recv is not None:
        return ('tailcallv', newf, [])
    used('sync.Pool.Get on an empty pool in this run: New(), or (the process has served earlier requests) an object an earlier user put back - its contents arbitrary')
    stale = z3.Bool(ex.newsym('pool_object_was_used_before'))

    def post(st2, val):
        ptr = val.v if isinstance(val, Iface) else val
        if not isinstance(ptr, Ptr) or not isinstance(val, Iface):
            return val
        try:
            et = deref_type(ex, val.t)
            if ex.under(et)['kind'] != 'struct' or not isinstance(st2.heap.get(ptr.obj), Struct) or ptr.path:
                return val
            old = st2.heap[ptr.obj]
            hv = havoc(ex, st2, et, 'pooled')
        except Unsupported:
            return val
        zero = []

        def walk(h, z):
            if isinstance(h, Str) and h.z is not None:
                zero.append(h.z == z3.StringVal(''))
            elif isinstance(h, Slice):
                if not isinstance(h.len, int):
                    zero.append(h.len == 0)
            elif z3.is_expr(h) and z3.is_bv(h):
                zero.append(h == 0)
            elif z3.is_expr(h) and z3.is_bool(h):
                zero.append(z3.Not(h))
            elif isinstance(h, Struct):
                for a, b in zip(h.f, z.f if isinstance(z, Struct) else h.f):
                    walk(a, b)
            elif isinstance(h, Big):
                zero.append(h.v == 0)
        walk(hv, old)
        st2.pc.append(z3.Implies(z3.Not(stale), z3.And(*zero) if zero else z3.BoolVal(True)))
        st2.heap[ptr.obj] = hv
        return val
    return ('tailcall', newf.name, [], post)


def sync_pool_put(ex, st, args, ctx):
    p = args[0]
    key = ('pool', p.obj, p.path)
    st.heap[key] = list(st.heap.get(key, [])) + [args[1]]
    return None


BASE.update({'bytes.Trim': lambda ex, st, a, c: _trim(ex, st, a, c, True, True), 'bytes.TrimLeft': lambda ex, st, a, c: _trim(ex, st, a, c, True, False),
             'bytes.TrimRight': lambda ex, st, a, c: _trim(ex, st, a, c, False, True), '(*sync.Pool).Get': sync_pool_get, '(*sync.Pool).Put': sync_pool_put})


def bytes_NewBuffer(ex, st, args, ctx):
    tid = ex.tid_by_str.get('bytes.Buffer')
    if tid is None:
        raise Unsupported('bytes.Buffer type not in the dump')
    z = ex.zero(tid)
    f = list(z.f)
    f[0] = args[0]
    return Ptr(st.alloc(Struct(f)))


def buffer_Reset(ex, st, args, ctx):
    ex.store(st, Ptr(args[0].obj, args[0].path + (0,)), Slice(None, 0, 0, 0))
    return None


def buffer_Len(ex, st, args, ctx):
    b = ex.load(st, args[0]).f[0]
    return ex.zlen(b) if b is not NIL else bvval(0, 64)


BASE.update({'bytes.NewBuffer': bytes_NewBuffer, '(*bytes.Buffer).Reset': buffer_Reset, '(*bytes.Buffer).Len': buffer_Len})


def i_is_number(ex, st, args, ctx):
    s_ = args[0]
    if s_.num is not None:
        return z3.BoolVal(s_.num[0] == '0x' or s_.num[1] == 10)
    return uf(ex, 'isNumber_base0', z3.StringSort(), z3.BoolSort())(s_.z)


def i_num_val(ex, st, args, ctx):
    s_ = args[0]
    if s_.num is not None:
        return Big(s_.num[2])
    return Big(uf(ex, 'numval_base0', z3.StringSort(), z3.BitVecSort(BIG))(s_.z))


INTRINSICS.update({'verifIsNumber': i_is_number, 'verifNumVal': i_num_val})


# ------------------------------------------------------------------------------------------ gnark (contract stubs, C07/C09/C12/C19)
BN254_R = 21888242871839275222246405745257275088548364400416034343698204186575808495617
BN254_Q = 21888242871839275222246405745257275088696311157297823662689037894645226208583      # base field of the curve (proof coordinates)


def opq(tag, **kw):
    return Opaque(tag, **kw)


def i_stub_key(kind):
    def f(ex, st, args, ctx):
        return Opaque(kind, sys=name_of(args[0]))
    return f


def struct_fields(ex, tid):
    return [f['name'] for f in ex.under(tid)['fields']]


def frontend_NewWitness(ex, st, args, ctx):
    used('frontend.NewWitness: records the assignment (deep snapshot); fails iff a required Variable leaf is unassigned (nil); values are reduced mod the field order')
    asg = args[0]
    opts = ex.cells(st, args[2]) if len(args) > 2 and args[2] is not NIL else []
    public_only = any(isinstance(o, Opaque) and o.tag == 'publiconly' for o in opts)
    tid = deref_type(ex, asg.t)
    val = ex.load(st, asg.v)
    names = struct_fields(ex, tid)
    for v in val.f:
        if isinstance(v, Slice):
            touch(ex, st, v, 'r', ctx['pos'])
            for c in ex.cells(st, v)[:8]:
                if isinstance(c, Slice):
                    touch(ex, st, c, 'r', ctx['pos'])
    fields = {n: snapshot(ex, st, v) for n, v in zip(names, val.f)}
    w = Opaque('witness', tid=tid, tname=ex.tname(tid), fields=fields, public_only=public_only)
    st.events.append(('NewWitness', w))

    def leaves(v):
        if isinstance(v, tuple) and v and v[0] == 'slice':
            if not isinstance(v[1], int):
                return [x for c in v[2] for x in leaves(c)]
            return [x for c in v[2][:v[1]] for x in leaves(c)]
        return [v]
    req = ['InputHash'] if public_only else [n for n in names if n not in ('BatchSize', 'Depth')]
    missing = [n for n in req if any(x is NIL or x is None for x in leaves(fields[n]))]
    if missing:
        return (NIL, Iface(-1, Opaque('error', msg=S('missing assignment'), origin=ctx['pos'])))
    return (w, NIL)


def frontend_PublicOnly(ex, st, args, ctx):
    return Opaque('publiconly')


def groth16_Prove(ex, st, args, ctx):
    used('groth16.Prove: fails (nondeterministically, = witness does not satisfy the system) or returns a proof bound to (system, witness); fails if cs and pk belong to different systems')
    cs, pk, w = args[0], args[1], args[2]
    st.events.append(('Prove', cs, pk, w))
    if getattr(cs, 'sys', None) != getattr(pk, 'sys', None):
        return (NIL, Iface(-1, Opaque('error', msg=S('key mismatch'), origin=ctx['pos'])))
    c = z3.Bool(ex.newsym('witness_satisfies'))
    st.draws['prove_ok#%d' % ex.fresh] = c
    def okmut(s2):
        s2.events.append(('tag', 'prove_ok'))
    return Forks([(c, (Opaque('proof', sys=cs.sys, witness=w, coords=None), NIL), okmut),
                  (z3.Not(c), (NIL, Iface(-1, Opaque('error', msg=S('constraint not satisfied'), origin=ctx['pos']))), None)])


def wit_big(ex, v):
    """frontend.Variable leaf -> BV256"""
    if isinstance(v, Iface):
        v = v.v
    if isinstance(v, Big):
        return v.v
    if z3.is_bv(v):
        return z3.ZeroExt(BIG - v.size(), v)
    if isinstance(v, Ptr):
        raise Unsupported('pointer leaf in witness')
    raise Unsupported('witness leaf %r' % (v,))


def groth16_Verify(ex, st, args, ctx):
    used('groth16.Verify: succeeds iff the proof was produced for this system by Prove and the public witness equals the proof\'s public input modulo the field order')
    proof, vk, w = args
    st.events.append(('Verify', proof, vk, w))
    if not isinstance(proof, Opaque) or getattr(proof, 'witness', None) is None:
        return Iface(-1, Opaque('error', msg=S('invalid proof'), origin=ctx['pos']))
    ok = z3.BoolVal(proof.sys == getattr(vk, 'sys', None) and proof.witness.tname == w.tname)
    a = wit_big(ex, proof.witness.fields['InputHash'])
    b = wit_big(ex, w.fields['InputHash'])
    R = bvval(BN254_R, BIG)
    ok = z3.And(ok, z3.URem(a, R) == z3.URem(b, R))
    return Opaque('error', nilcond=z3.simplify(ok), msg=S('verify'), origin=ctx['pos'])


def i_witness_count(ex, st, args, ctx):
    return bvval(len([e for e in st.events if e[0] == 'NewWitness']), 64)


def _lastw(st):
    ws = [e[1] for e in st.events if e[0] == 'NewWitness']
    if not ws:
        raise PathEnd('panic', 'no witness recorded')
    return ws[-1]


def i_witness_big(ex, st, args, ctx):
    w = _lastw(st)
    v = w.fields[name_of(args[0])]
    i, j = sconc(args[1], 64), sconc(args[2], 64)
    if i >= 0:
        v = v[2][i]
    if j >= 0:
        v = v[2][j]
    return Big(z3.simplify(wit_big(ex, v)))


def i_witness_len(ex, st, args, ctx):
    w = _lastw(st)
    v = w.fields[name_of(args[0])]
    i = sconc(args[1], 64)
    if i >= 0:
        v = v[2][i]
    if v is NIL:
        return bvval(0, 64)
    ln = v[1]
    return bvval(ln, 64) if isinstance(ln, int) else ln


def i_proof_is_nil(ex, st, args, ctx):
    return z3.BoolVal(args[0] is NIL)


def zerolog_any(ex, st, args, ctx):
    if ctx['name'].endswith('.Fatal') or '.Fatal' in ctx['name']:
        st.events.append(('fatal', ctx['pos']))
    return Opaque('zerolog')


INTRINSICS.update({'verifStubPK': i_stub_key('pk'), 'verifStubVK': i_stub_key('vk'), 'verifStubCS': i_stub_key('cs'),
                   'verifWitnessCount': i_witness_count, 'verifWitnessBig': i_witness_big, 'verifWitnessLen': i_witness_len})
BASE.update({'github.com/consensys/gnark/frontend.NewWitness': frontend_NewWitness, 'github.com/consensys/gnark/frontend.PublicOnly': frontend_PublicOnly,
             'github.com/consensys/gnark/backend/groth16.Prove': groth16_Prove, 'github.com/consensys/gnark/backend/groth16.Verify': groth16_Verify,
             '(github.com/consensys/gnark-crypto/ecc.ID).ScalarField': lambda ex, st, a, c: Ptr(st.alloc(Big(bvval(BN254_R, BIG))))})


def slices_Clone(ex, st, args, ctx):
    used('slices.Clone: a new backing array holding the same elements (shallow: elements that are slices or pointers still refer to the same storage)')
    a = args[0]
    if a is NIL:
        return NIL
    if not isinstance(a.len, int):
        cells = list(ex.cells(st, a))
        o = st.alloc(Array(cells))
        return Slice(o, 0, a.len, len(cells), a.lo, a.hi)
    cells = ex.cells(st, a)[:a.len]
    o = st.alloc(Array(list(cells)))
    return Slice(o, 0, a.len, a.len)


def default_prefix_stubs():
    return [('slices.Clone[', slices_Clone), ('github.com/rs/zerolog', zerolog_any), ('(*github.com/rs/zerolog', zerolog_any), ('(github.com/rs/zerolog', zerolog_any)]


def i_same_mod_r(ex, st, args, ctx):
    R = bvval(BN254_R, BIG)
    return z3.simplify(z3.URem(rbig(st, args[0]).v, R) == z3.URem(rbig(st, args[1]).v, R))


INTRINSICS.update({'verifSameModR': i_same_mod_r})


# ------------------------------------------------------------------------------------------ net/http handler environment (C09/C13/C20)
def i_recorder(ex, st, args, ctx):
    return Opaque('respwriter')


def i_body(ex, st, args, ctx):
    return Opaque('reqbody')


def resp_WriteHeader(ex, st, args, ctx):
    st.events.append(('WriteHeader', args[1]))
    return None


def resp_Write(ex, st, args, ctx):
    used('http.ResponseWriter: records WriteHeader/Write; Write succeeds or fails nondeterministically')
    st.events.append(('Write', args[1]))
    c = z3.Bool(ex.newsym('write_ok'))
    return Forks([(c, (ex.zlen(args[1]), NIL), None), (z3.Not(c), (bvval(0, 64), Iface(-1, Opaque('error', msg=S('write failed'), origin=ctx['pos']))), None)])


def io_ReadAll(ex, st, args, ctx):
    used('io.ReadAll: returns an arbitrary byte string or an error')
    c = z3.Bool(ex.newsym('readall_ok'))
    o = st.alloc(Opaque('bodybytes'))

    def bad(s2):
        s2.events.append(('tag', 'readall_error'))
        return (NIL, Iface(-1, Opaque('error', msg=S('read error'), origin=ctx['pos'])))
    return Forks([(c, (Slice(o, 0, z3.BitVec(ex.newsym('bodylen'), 64), 0), NIL), None), (z3.Not(c), bad, None)])


def i_happened(ex, st, args, ctx):
    tag = name_of(args[0])
    if tag.startswith('call:'):
        return z3.BoolVal(any(e[0] == 'call' and e[1].endswith(tag[5:]) for e in st.events))
    if tag.startswith('retnil:'):
        return z3.BoolVal(any(e[0] == 'ret' and e[1].endswith(tag[7:]) and (e[2] is NIL or e[2] is None) for e in st.events))
    if tag == 'prove_ok':
        return z3.BoolVal(any(e[0] == 'tag' and e[1] == 'prove_ok' for e in st.events))
    return z3.BoolVal(any(e[0] == 'tag' and e[1] == tag for e in st.events))


def i_resp_header_count(ex, st, args, ctx):
    return bvval(len([e for e in st.events if e[0] == 'WriteHeader']), 64)


def i_resp_status(ex, st, args, ctx):
    hs = [e for e in st.events if e[0] == 'WriteHeader']
    if not hs:
        return bvval(0, 64)
    return hs[0][1]


def i_resp_write_count(ex, st, args, ctx):
    return bvval(len([e for e in st.events if e[0] == 'Write']), 64)


def _last_body(st):
    ws = [e for e in st.events if e[0] == 'Write']
    if not ws:
        return None
    s_ = ws[-1][1]
    if isinstance(s_, Slice) and s_.obj is not None and not isinstance(s_.obj, tuple):
        return st.heap.get(s_.obj)
    return None


def i_resp_body_is_error(ex, st, args, ctx):
    code = name_of(args[0])
    doc = _last_body(st)
    if not isinstance(doc, JsonDoc) or not isinstance(doc.value, MapVal):
        return z3.BoolVal(False)
    for k, v in doc.value.items:
        kz = z3.simplify(k.z)
        if z3.is_string_value(kz) and kz.as_string() == 'code':
            return z3.simplify(v.z == z3.StringVal(code))
    return z3.BoolVal(False)


def i_resp_body_is_proof(ex, st, args, ctx):
    doc = _last_body(st)
    return z3.BoolVal(isinstance(doc, JsonDoc) and ex.tname(doc.tid).endswith('prover.ProofJSON'))


INTRINSICS.update({'verifRecorder': i_recorder, 'verifBody': i_body, 'verifHappened': i_happened, 'verifRespHeaderCount': i_resp_header_count, 'verifRespStatus': i_resp_status,
                   'verifRespWriteCount': i_resp_write_count, 'verifRespBodyIsError': i_resp_body_is_error, 'verifRespBodyIsProof': i_resp_body_is_proof})
BASE.update({'opaque:respwriter.WriteHeader': resp_WriteHeader, 'opaque:respwriter.Write': resp_Write, 'io.ReadAll': io_ReadAll})


# ------------------------------------------------------------------------------------------ proving-system files (C11/C15): token streams
EOF_ERR = Opaque('error', msg=None, eof=True)
UNEXPECTED_EOF = Opaque('error', msg=None, eof=False, unexpected=True)
_oid = [0]


def new_oid():
    _oid[0] += 1
    return _oid[0]


def ostate(st, o):
    return st.heap.get(('opq', o.oid), {})


def oset(st, o, **kw):
    d = dict(st.heap.get(('opq', o.oid), {}))
    d.update(kw)
    st.heap[('opq', o.oid)] = d


def i_stream(ex, st, args, ctx):
    """an in-memory file: sequence of tokens written so far"""
    o = Opaque('stream', oid=new_oid())
    oset(st, o, tokens=(), pos=0, cut=None)
    return o


def i_truncated_file(ex, st, args, ctx):
    """a valid proving-system file (8 header bytes + three sections of symbolic sizes >= 1, raw or compressed) cut at a symbolic offset < total"""
    o = Opaque('stream', oid=new_oid())
    n = [z3.BitVec('section%d_size' % i, 64) for i in range(3)]
    cut = z3.BitVec('cut', 64)
    hdr = [z3.BitVec('hdr[%d]' % i, 8) for i in range(8)]
    for i, x in enumerate(n):
        st.draws['section%d_size' % i] = x
        st.pc.append(z3.And(z3.UGE(x, bvval(1, 64)), z3.ULE(x, bvval(1 << 40, 64))))
    st.draws['cut'] = cut
    total = bvval(8, 64) + n[0] + n[1] + n[2]
    st.pc.append(z3.ULT(cut, total))
    raw = z3.Bool('file_is_raw')
    st.draws['file_is_raw'] = raw
    toks = (('bytes', tuple(hdr[:4])), ('bytes', tuple(hdr[4:])), ('section', 'pk', n[0]), ('section', 'vk', n[1]), ('section', 'cs', n[2]))
    oset(st, o, tokens=toks, pos=0, cut=cut, off=bvval(0, 64))
    return o


def stream_of(v):
    v = v.v if isinstance(v, Iface) else v
    if isinstance(v, Opaque) and v.tag == 'bufreader':
        return stream_of(v.inner)
    if isinstance(v, Opaque) and v.tag == 'stream':
        return v
    raise Unsupported('not a stream: %r' % (v,))


def stream_Write(ex, st, args, ctx):
    s_ = stream_of(args[0])
    data = args[1]
    cells = ex.cells(st, data)
    if not isinstance(data.len, int):
        raise Unsupported('stream write of symbolic length')
    d = ostate(st, s_)
    oset(st, s_, tokens=d['tokens'] + (('bytes', tuple(cells[:data.len])),))
    return (bvval(data.len, 64), NIL)


def section_write(kind, raw):
    def f(ex, st, args, ctx):
        used('gnark %s.WriteTo/WriteRawTo: appends one opaque section (compressed or raw) holding the object; ReadFrom/UnsafeReadFrom restores it from either form' % kind)
        obj, w = args[0], args[1]
        s_ = stream_of(w)
        d = ostate(st, s_)
        oset(st, s_, tokens=d['tokens'] + (('section', kind, None, obj, raw),))
        return (z3.BitVec(ex.newsym('written'), 64), NIL)
    return f


def io_ReadFull(ex, st, args, ctx):
    used('io.ReadFull: fills the buffer or fails (io.EOF / io.ErrUnexpectedEOF) when the stream ends first')
    s_ = stream_of(args[0])
    buf = args[1]
    n = buf.len
    d = ostate(st, s_)
    pos = d['pos']
    if pos >= len(d['tokens']) or d['tokens'][pos][0] != 'bytes' or len(d['tokens'][pos][1]) != n:
        if d.get('cut') is None:
            return (bvval(0, 64), EOF_ERR if pos >= len(d['tokens']) else UNEXPECTED_EOF)
        raise Unsupported('ReadFull does not line up with the file layout')
    cells = d['tokens'][pos][1]

    def ok(s2):
        for i in range(n):
            ex.store(s2, ex.slice_cell_ptr(buf, i), cells[i])
        d2 = ostate(s2, s_)
        oset(s2, s_, pos=pos + 1, off=(d2.get('off') + n) if d2.get('off') is not None else None)
        return (bvval(n, 64), NIL)
    if d.get('cut') is None:
        return ok(st)
    end = d['off'] + n
    fits = z3.ULE(end, d['cut'])
    whole_missing = z3.UGE(d['off'], d['cut'])
    return Forks([(fits, ok, None),
                  (z3.And(z3.Not(fits), whole_missing), (bvval(0, 64), EOF_ERR), None),
                  (z3.And(z3.Not(fits), z3.Not(whole_missing)), (z3.BitVec(ex.newsym('partial'), 64), UNEXPECTED_EOF), None)])


def section_read(kind):
    def f(ex, st, args, ctx):
        used('gnark %s reader on a truncated stream: fails; the error may be io.EOF, io.ErrUnexpectedEOF or another error (cbor returns plain io.EOF)' % kind)
        obj, r = args[0], args[1]
        s_ = stream_of(r)
        d = ostate(st, s_)
        pos = d['pos']
        toks = d['tokens']
        if pos >= len(toks):
            return (bvval(0, 64), EOF_ERR)
        t = toks[pos]
        if t[0] != 'section' or t[1] != kind:
            return (bvval(0, 64), Iface(-1, Opaque('error', msg=S('unexpected section'), origin=ctx['pos'])))
        if d.get('cut') is None:
            oset(st, obj, sys=ostate(st, t[3]).get('sys', getattr(t[3], 'sys', None)), restored_from=t[3], form='raw' if t[4] else 'compressed')
            oset(st, s_, pos=pos + 1)
            return (z3.BitVec(ex.newsym('read'), 64), NIL)
        size = t[2]
        end = d['off'] + size
        fits = z3.ULE(end, d['cut'])

        def ok(s2):
            oset(s2, obj, sys='file', restored_from='file')
            oset(s2, s_, pos=pos + 1, off=end)
            return (size, NIL)
        which = z3.Int(ex.newsym('trunc_error_kind'))
        other = Iface(-1, Opaque('error', msg=S('decode error'), origin=ctx['pos']))
        return Forks([(fits, ok, None),
                      (z3.And(z3.Not(fits), which == 0), (bvval(0, 64), EOF_ERR), None),
                      (z3.And(z3.Not(fits), which == 1), (bvval(0, 64), UNEXPECTED_EOF), None),
                      (z3.And(z3.Not(fits), which == 2), (bvval(0, 64), other), None)])
    return f


def new_key(kind):
    def f(ex, st, args, ctx):
        o = Opaque(kind, oid=new_oid(), sys=None)
        return o
    return f


def i_stub_key2(kind):
    def f(ex, st, args, ctx):
        return Opaque(kind, sys=name_of(args[0]), oid=new_oid())
    return f


def i_same_object(ex, st, args, ctx):
    """the reloaded object (b) was restored from the original (a)"""
    a, b = args
    a = a.v if isinstance(a, Iface) else a
    b = b.v if isinstance(b, Iface) else b
    if not isinstance(a, Opaque) or not isinstance(b, Opaque):
        return z3.BoolVal(False)
    return z3.BoolVal(ostate(st, b).get('restored_from') is a and a.tag == b.tag)


def i_reader_of(ex, st, args, ctx):
    """a fresh reader positioned at the start of what was written to the stream"""
    s_ = stream_of(args[0])
    oset(st, s_, pos=0)
    return s_


def os_Open(ex, st, args, ctx):
    used('os.Open: fails, or returns the file registered by the harness')
    f = st.heap.get(('file_for_open',))
    if f is None:
        return (NIL, Iface(-1, Opaque('error', msg=S('open failed'), origin=ctx['pos'])))
    c = z3.Bool(ex.newsym('open_ok'))
    return Forks([(c, (f, NIL), None), (z3.Not(c), (NIL, Iface(-1, Opaque('error', msg=S('no such file'), origin=ctx['pos']))), None)])


def i_set_file(ex, st, args, ctx):
    st.heap[('file_for_open',)] = stream_of(args[0])
    return None


def file_Close(ex, st, args, ctx):
    used('(*os.File).Close: returns nil or an error')
    st.events.append(('tag', 'file_closed'))
    c = z3.Bool(ex.newsym('close_ok'))
    st.draws['close_ok#%d' % ex.fresh] = c
    return Forks([(c, NIL, None), (z3.Not(c), Iface(-1, Opaque('error', msg=S('close failed'), origin=ctx['pos'])), None)])


def bufio_NewReaderSize(ex, st, args, ctx):
    return Opaque('bufreader', inner=args[0])


def i_is_loaded(ex, st, args, ctx):
    """the system was completely restored from the file (all three sections)"""
    ps = ex.load(st, args[0])
    oks = []
    for v in ps.f[2:5]:
        v = v.v if isinstance(v, Iface) else v
        oks.append(isinstance(v, Opaque) and ostate(st, v).get('restored_from') is not None)
    return z3.BoolVal(all(oks))


INTRINSICS.update({'verifStream': i_stream, 'verifTruncatedFile': i_truncated_file, 'verifReaderOf': i_reader_of, 'verifSameObject': i_same_object,
                   'verifSetFile': i_set_file, 'verifIsLoaded': i_is_loaded,
                   'verifStubPK': i_stub_key2('pk'), 'verifStubVK': i_stub_key2('vk'), 'verifStubCS': i_stub_key2('cs')})
BASE.update({'opaque:stream.Write': stream_Write, 'io.ReadFull': io_ReadFull, 'os.Open': os_Open, 'opaque:stream.Close': file_Close, '(*os.File).Close': file_Close,
             'bufio.NewReaderSize': bufio_NewReaderSize,
             'opaque:pk.WriteTo': section_write('pk', False), 'opaque:pk.WriteRawTo': section_write('pk', True),
             'opaque:vk.WriteTo': section_write('vk', False), 'opaque:vk.WriteRawTo': section_write('vk', True),
             'opaque:cs.WriteTo': section_write('cs', False),
             'opaque:pk.UnsafeReadFrom': section_read('pk'), 'opaque:pk.ReadFrom': section_read('pk'),
             'opaque:vk.UnsafeReadFrom': section_read('vk'), 'opaque:vk.ReadFrom': section_read('vk'),
             'opaque:cs.ReadFrom': section_read('cs'),
             'github.com/consensys/gnark/backend/groth16.NewProvingKey': new_key('pk'), 'github.com/consensys/gnark/backend/groth16.NewVerifyingKey': new_key('vk'),
             'github.com/consensys/gnark/backend/groth16.NewCS': new_key('cs'),
             'global:io.EOF': lambda ex, st: EOF_ERR, 'global:io.ErrUnexpectedEOF': lambda ex, st: UNEXPECTED_EOF})


def be_PutUint32(ex, st, args, ctx):
    used('binary.BigEndian.PutUint32/Uint32: 4-byte big-endian encoding (bit-vector extract/concat)')
    _, buf, v = args
    if isinstance(buf.len, int) and buf.len < 4:
        raise PathEnd('panic', 'PutUint32 on short buffer')
    cells = byte_cells_of_bv(v, 4)
    for i in range(4):
        ex.store(st, ex.slice_cell_ptr(buf, i), cells[i])
    return None


def be_Uint32(ex, st, args, ctx):
    _, buf = args
    if isinstance(buf.len, int) and buf.len < 4:
        raise PathEnd('panic', 'Uint32 on short buffer')
    c = ex.cells(st, buf)
    return z3.simplify(z3.Concat(c[0], c[1], c[2], c[3]))


BASE.update({'(encoding/binary.bigEndian).PutUint32': be_PutUint32, '(encoding/binary.bigEndian).Uint32': be_Uint32})


BASE.update({'(*sync.Mutex).Lock': lambda ex, st, a, c: None, '(*sync.Mutex).Unlock': lambda ex, st, a, c: None,
             '(*sync.RWMutex).Lock': lambda ex, st, a, c: None, '(*sync.RWMutex).Unlock': lambda ex, st, a, c: None,
             '(*sync.RWMutex).RLock': lambda ex, st, a, c: None, '(*sync.RWMutex).RUnlock': lambda ex, st, a, c: None})


# ------------------------------------------------------------------------------------------ sync.Mutex with state (deadlock = lock of a held mutex); body well-formedness
def mutex_Lock(ex, st, args, ctx):
    used('sync.Mutex: Lock of a mutex already held on this (sequential) path never returns: reported as deadlock')
    key = ('mutex', args[0].obj, args[0].path)
    if st.heap.get(key):
        raise PathEnd('panic', 'deadlock: Lock of a mutex that is still held (never released on an earlier path) at %s' % ctx['pos'])
    st.heap[key] = ctx['pos'] or True
    return None


def mutex_Unlock(ex, st, args, ctx):
    key = ('mutex', args[0].obj, args[0].path)
    if not st.heap.get(key):
        raise PathEnd('panic', 'unlock of unlocked mutex at %s' % ctx['pos'])
    st.heap[key] = None
    if getattr(st, 'track_all', False) and hasattr(ex, 'snapshots') and len(ex.snapshots) < 64:
        # a point at which another invocation can run against the shared state this one has published so far
        ex.snapshots.append((ctx['pos'], st.clone()))
    return None


def i_no_locks_held(ex, st, args, ctx):
    """no mutex is held and no slot of a buffered channel (semaphore) is taken"""
    return z3.BoolVal(not any(isinstance(k, tuple) and k and ((k[0] == 'mutex' and v) or (k[0] == 'chanbuf' and v[0])) for k, v in st.heap.items()))


def i_body_wellformed(ex, st, args, ctx):
    return st.heap.setdefault(('body_wf',), z3.Bool('body_is_one_wellformed_json_document'))


def json_NewDecoder(ex, st, args, ctx):
    return Opaque('jsondecoder', src=args[0])


def json_Decoder_Decode(ex, st, args, ctx):
    used('(*json.Decoder).Decode: decodes the first JSON value of the stream and ignores what follows (so it can succeed on input that is not one well-formed document)')
    target = args[1]
    m = find_method(ex, target.t, 'UnmarshalJSON')
    o = st.alloc(Opaque('bodybytes', via_decoder=True))
    data = Slice(o, 0, z3.BitVec(ex.newsym('vallen'), 64), 0)
    if m is not None and m in ex.funcs:
        return ('tailcall', m, [target.v, data])
    return json_Unmarshal(ex, st, [data, target], ctx)


BASE.update({'(*sync.Mutex).Lock': mutex_Lock, '(*sync.Mutex).Unlock': mutex_Unlock, 'encoding/json.NewDecoder': json_NewDecoder, '(*encoding/json.Decoder).Decode': json_Decoder_Decode})
INTRINSICS.update({'verifNoLocksHeld': i_no_locks_held, 'verifBodyWellFormed': i_body_wellformed})


def poseidon_Hash(ex, st, args, ctx):
    used('iden3 poseidon.Hash: uninterpreted function of its (one or two) field elements, never fails')
    cells = ex.cells(st, args[0])
    if not isinstance(args[0].len, int):
        raise Unsupported('poseidon.Hash with symbolic arity')
    vals = [bigptr(ex, st, c).v for c in cells[:args[0].len]]
    f = uf(ex, 'poseidon%d' % len(vals), *([z3.BitVecSort(BIG)] * (len(vals) + 1)))
    o = st.alloc(Big(f(*vals)))
    return (Ptr(o), NIL)


BASE.update({'github.com/iden3/go-iden3-crypto/poseidon.Hash': poseidon_Hash})


def big_Sign(ex, st, args, ctx):
    X = bigptr(ex, st, args[0])
    return z3.simplify(z3.If(X.v == 0, bvval(0, 64), bvval(-1 if X.neg else 1, 64)))


def big_IsUint64(ex, st, args, ctx):
    X = bigptr(ex, st, args[0])
    fits = z3.ULT(X.v, bvval(1 << 64, BIG))
    return z3.simplify(z3.And(X.v == 0, fits) if X.neg else fits)


def big_IsInt64(ex, st, args, ctx):
    X = bigptr(ex, st, args[0])
    return z3.simplify(z3.ULE(X.v, bvval(1 << 63, BIG)) if X.neg else z3.ULT(X.v, bvval(1 << 63, BIG)))


def big_Uint64(ex, st, args, ctx):
    used('(*math/big.Int).Uint64 / Int64: the low 64 bits of the magnitude (negated for negative values)')
    return z3.simplify(z3.Extract(63, 0, bigptr(ex, st, args[0]).v))


def big_Int64(ex, st, args, ctx):
    X = bigptr(ex, st, args[0])
    lo = z3.Extract(63, 0, X.v)
    return z3.simplify(-lo if X.neg else lo)


def big_Neg(ex, st, args, ctx):
    X = bigptr(ex, st, args[1])
    big_assign(ex, st, args[0], Big(X.v, neg=not X.neg))
    return args[0]


def big_Abs(ex, st, args, ctx):
    big_assign(ex, st, args[0], Big(bigptr(ex, st, args[1]).v))
    return args[0]


def _fmt64(signed):
    def f(ex, st, args, ctx):
        used('strconv.FormatInt/FormatUint: canonical digits in the base, with a leading minus sign for negative values')
        x, base = args[0], conc(args[1])
        if base is None:
            raise Unsupported('FormatInt with a symbolic base')
        if not signed:
            return Str(num=('', base, z3.simplify(z3.ZeroExt(BIG - 64, x))))
        neg = z3.simplify(x < 0)
        pos = lambda s2: Str(num=('', base, z3.simplify(z3.ZeroExt(BIG - 64, x))))
        ng = lambda s2: Str(parts=[('lit', '-'), ('num', '', base, z3.simplify(z3.ZeroExt(BIG - 64, -x)))])
        if z3.is_false(neg) or not ex.feasible(st, neg):
            return pos(st)
        if z3.is_true(neg) or not ex.feasible(st, z3.Not(neg)):
            return ng(st)
        return Forks([(neg, ng, None), (z3.Not(neg), pos, None)])
    return f


def strconv_ParseUint(ex, st, args, ctx):
    used('strconv.ParseUint(s, base, bits): accepts exactly the unsigned numbers of the base (0 = prefix selected) that fit in the bit size')
    s_, base, bits = args[0], conc(args[1]), conc(args[2]) or 64
    err = lambda: Iface(-1, Opaque('error', msg=S('strconv.ParseUint: invalid syntax or out of range'), origin=ctx['pos']))
    if s_.parts is not None:
        return (bvval(0, 64), err())          # a text with a sign is not an unsigned number
    if s_.num is not None:
        prefix, b, v = s_.num
        if not ((base == 0 and ((prefix == '0x' and b == 16) or (prefix == '' and b == 10) or (prefix == '0b' and b == 2))) or (base == b and prefix == '')):
            raise Unsupported('ParseUint of base-%s digits as base %s' % (b, base))
        fits = z3.simplify(z3.ULT(v, bvval(1 << bits, BIG)))
        return Forks([(fits, (z3.simplify(z3.Extract(63, 0, v)), NIL), None), (z3.Not(fits), lambda s2: (bvval((1 << bits) - 1, 64), err()), None)])
    zs = z3.simplify(s_.z)
    if z3.is_string_value(zs) and base == 0:
        t = zs.as_string()
        val = go_setstring0(t) if t[:1] not in ('+', '-') else None
        if val is None or val >= (1 << bits):
            return (bvval(0, 64), err())
        return (bvval(val, 64), NIL)
    isu = uf(ex, 'isUint%d_base%d' % (bits, base), z3.StringSort(), z3.BoolSort())
    isn = uf(ex, 'isNumber_base%d' % base, z3.StringSort(), z3.BoolSort())
    nv = uf(ex, 'numval_base%d' % base, z3.StringSort(), z3.BitVecSort(BIG))
    ok = isu(s_.z)

    def good(s2):
        # an unsigned number that fits is in particular a number, with the same value
        s2.pc.append(z3.And(isn(s_.z), z3.ULT(nv(s_.z), bvval(1 << bits, BIG))))
        return (z3.Extract(63, 0, nv(s_.z)), NIL)
    return Forks([(ok, good, None), (z3.Not(ok), lambda s2: (bvval(0, 64), err()), None)])


BASE.update({'(*math/big.Int).IsUint64': big_IsUint64, '(*math/big.Int).IsInt64': big_IsInt64, '(*math/big.Int).Uint64': big_Uint64, '(*math/big.Int).Int64': big_Int64,
             '(*math/big.Int).Neg': big_Neg, '(*math/big.Int).Abs': big_Abs, 'strconv.FormatInt': _fmt64(True), 'strconv.FormatUint': _fmt64(False), 'strconv.ParseUint': strconv_ParseUint,
             'time.Now': lambda ex, st, a, c: Opaque('time'), 'time.Since': lambda ex, st, a, c: bvval(0, 64),
             '(github.com/consensys/gnark-crypto/ecc.ID).BaseField': lambda ex, st, a, c: Ptr(st.alloc(Big(bvval(BN254_Q, BIG))))})


BASE.update({'(*math/big.Int).Sign': big_Sign})


INTRINSICS.update({'verifFieldOrder': lambda ex, st, args, ctx: Big(bvval(BN254_R, BIG))})


# ------------------------------------------------------------------------------------------ circuit construction paths (C12)
def _record_circuit(ex, st, c):
    tid = deref_type(ex, c.t)
    val = ex.load(st, c.v)
    names = struct_fields(ex, tid)
    st.events.append(('Compile', ex.tname(tid), {n: snapshot(ex, st, v) for n, v in zip(names, val.f)}))


def compile_option(ex, st, args, ctx):
    used('frontend.With*/IgnoreUnconstrainedInputs: compiler options are recorded by name and arguments')
    return Opaque('compileopt', sig='%s(%s)' % (ctx['name'].split('.')[-1], ', '.join(str(conc(a)) if z3.is_expr(a) else repr(a) for a in args)))


def frontend_Compile(ex, st, args, ctx):
    used('frontend.Compile / extractor.ExtractCircuits: record the circuit struct handed over (deep snapshot) and the compiler options; return an opaque constraint system or an error')
    _record_circuit(ex, st, args[2])
    opts = [c for c in (ex.cells(st, args[3])[:args[3].len] if len(args) > 3 and args[3] is not NIL and isinstance(args[3].len, int) else [])]
    sig = []
    for o_ in opts:
        o_ = o_.v if isinstance(o_, Iface) else o_
        sig.append(getattr(o_, 'sig', None) or (o_.name if isinstance(o_, Func) else repr(o_)))
    st.events.append(('CompileOptions', tuple(sig)))
    c = z3.Bool(ex.newsym('compile_ok'))
    return Forks([(c, (Opaque('cs', sys='compiled', oid=new_oid()), NIL), None), (z3.Not(c), (NIL, Iface(-1, Opaque('error', msg=S('compile error'), origin=ctx['pos']))), None)])


def extractor_ExtractCircuits(ex, st, args, ctx):
    for c in ex.cells(st, args[2])[:args[2].len]:
        _record_circuit(ex, st, c)
    c = z3.Bool(ex.newsym('extract_ok'))
    return Forks([(c, (Str(z3.String(ex.newsym('lean'))), NIL), None), (z3.Not(c), (S(''), Iface(-1, Opaque('error', msg=S('extract error'), origin=ctx['pos']))), None)])


def _compiled(st):
    return [e for e in st.events if e[0] == 'Compile']


def i_compiled_count(ex, st, args, ctx):
    return bvval(len(_compiled(st)), 64)


def i_compiled_options(ex, st, args, ctx):
    k = conc(args[0])
    os_ = [e for e in st.events if e[0] == 'CompileOptions']
    return S('; '.join(os_[k][1]) if k < len(os_) else '<none>')


def i_compiled_kind(ex, st, args, ctx):
    k = conc(args[0])
    cs = _compiled(st)
    if k >= len(cs):
        return S('')
    return S(cs[k][1].replace('worldcoin/gnark-mbu/', ''))


def i_compiled_int(ex, st, args, ctx):
    cs = _compiled(st)
    k = conc(args[0])
    if k >= len(cs):
        return bvval(-1, 64)
    return cs[k][2][name_of(args[1])]


def i_compiled_len(ex, st, args, ctx):
    cs = _compiled(st)
    k = conc(args[0])
    if k >= len(cs):
        return bvval(-1, 64)
    v = cs[k][2].get(name_of(args[1]))
    i = sconc(args[2], 64)
    if v is None or v is NIL:
        return bvval(0, 64)
    if i >= 0:
        if i >= len(v[2]):
            return bvval(-1, 64)
        v = v[2][i]
        if v is NIL:
            return bvval(0, 64)
    ln = v[1]
    return bvval(ln, 64) if isinstance(ln, int) else ln


def abstractor_Call(nres):
    def f(ex, st, args, ctx):
        used('abstractor.Call*: gadget calls are opaque while executing Define (only the depth guard and control flow matter)')
        g = args[1]
        gv = g.v if isinstance(g, Iface) else g
        st.events.append(('gadget', ex.tname(g.t) if isinstance(g, Iface) else '?'))
        if nres == 0:
            return Iface(-2, Opaque('var'))
        n = None
        if isinstance(gv, Struct) and isinstance(g, Iface):
            names = struct_fields(ex, g.t)
            for cand in ('Size', 'OutputSize'):
                if cand in names:
                    n = conc(gv.f[names.index(cand)])
        if n is None:
            n = 0
        o = st.alloc(Array([Iface(-2, Opaque('var'))] * n))
        return Slice(o, 0, n, n)
    return f


INTRINSICS.update({'verifCompiledOptions': i_compiled_options, 'verifCompiledCount': i_compiled_count, 'verifCompiledKind': i_compiled_kind, 'verifCompiledInt': i_compiled_int, 'verifCompiledLen': i_compiled_len,
                   'verifStubAPI': lambda ex, st, a, c: Opaque('api')})
BASE.update({'github.com/consensys/gnark/frontend.WithCompressThreshold': compile_option, 'github.com/consensys/gnark/frontend.WithCapacity': compile_option,
             'github.com/consensys/gnark/frontend.IgnoreUnconstrainedInputs': compile_option,
             'github.com/consensys/gnark/frontend.Compile': frontend_Compile, 'github.com/reilabs/gnark-lean-extractor/v2/extractor.ExtractCircuits': extractor_ExtractCircuits,
             'worldcoin/gnark-mbu/prover.LoadProvingKey': lambda ex, st, a, c: (Opaque('pk', sys='file', oid=new_oid()), NIL),
             'worldcoin/gnark-mbu/prover.LoadVerifyingKey': lambda ex, st, a, c: (Opaque('vk', sys='file', oid=new_oid()), NIL),
             'github.com/reilabs/gnark-lean-extractor/v2/abstractor.Call': abstractor_Call(0), 'github.com/reilabs/gnark-lean-extractor/v2/abstractor.Call1': abstractor_Call(1),
             'github.com/reilabs/gnark-lean-extractor/v2/abstractor.CallVoid': abstractor_Call(0),
             'opaque:api.AssertIsEqual': lambda ex, st, a, c: None})


# ------------------------------------------------------------------------------------------ goroutines / channels / http.Server (GOSYM-C: event extraction)
def cev(st, kind, *payload, pos=None):
    st.events.append(('cev', getattr(st, 'tid', 0), kind) + tuple(payload) + (pos,))


def chan_make(ex, st, ins, size=None):
    c = Chan(new_oid())
    n = conc(size) if size is not None else 0
    if n is None:
        raise Unsupported('make(chan) with a symbolic capacity at %s' % ins.get('pos'))
    if n > 0:
        # buffered channel used as a counting semaphore / queue on one sequential path: the occupancy is state
        used('buffered channel: a send takes a slot, a receive frees one; on a sequential path a send to a full channel or a receive from an empty one never returns')
        st.heap[('chanbuf', c.cid)] = ((), n)
        return c
    cev(st, 'makechan', c.cid, pos=ins.get('pos'))
    return c


def chan_send(ex, st, ch, x, ins):
    if not isinstance(ch, Chan):
        raise PathEnd('panic', 'deadlock: send on nil channel blocks forever at %s' % ins.get('pos'))
    b = st.heap.get(('chanbuf', ch.cid))
    if b is None:
        if getattr(st, 'track_all', False):
            # inside a tracked invocation: hand-over to another goroutine; which one, and what it does with the value, is outside this path
            st.events.append(('chan_handover', 'send', ch.cid, ch.cid < st.heap.get(('inv_floor',), 0), ins.get('pos')))
            return
        raise Unsupported('blocking send on an unbuffered channel at %s' % ins.get('pos'))
    items, cap_ = b
    if len(items) >= cap_:
        raise PathEnd('panic', 'deadlock: send on a full buffered channel (capacity %d, every slot taken on earlier calls and never released) at %s' % (cap_, ins.get('pos')))
    st.heap[('chanbuf', ch.cid)] = (items + (x,), cap_)


def chan_recv(ex, st, fr, ins, ch):
    if not isinstance(ch, Chan):
        raise PathEnd('panic', 'receive from nil channel blocks forever at %s' % ins.get('pos'))
    b = st.heap.get(('chanbuf', ch.cid))
    if b is not None:
        items, cap_ = b
        if not items and st.heap.get(('chanext', ch.cid)):
            # fed from outside the program (os/signal): the receive completes when the event arrives
            ex.setreg(fr, ins, (Opaque('signal'), z3.BoolVal(True)) if ins.get('commaok') else Opaque('signal'))
            return
        if not items:
            raise PathEnd('panic', 'deadlock: receive from an empty buffered channel with no sender on this path at %s' % ins.get('pos'))
        st.heap[('chanbuf', ch.cid)] = (items[1:], cap_)
        ex.setreg(fr, ins, (items[0], z3.BoolVal(True)) if ins.get('commaok') else items[0])
        return
    if getattr(st, 'track_all', False):
        shared = ch.cid < st.heap.get(('inv_floor',), 0)
        if shared:
            raise PathEnd('shared_recv', 'the invocation takes a value from a channel that exists before it and is shared with every other invocation (%s): which value it gets depends on the other requests in flight' % ins.get('pos'))
        raise Unsupported('receive of a value produced by another goroutine at %s' % ins.get('pos'))
    cev(st, 'recv', ch.cid, pos=ins.get('pos'))
    ex.setreg(fr, ins, (Struct([]), z3.BoolVal(False)) if ins.get('commaok') else Struct([]))


def chan_close(ex, st, ch, ins):
    if not isinstance(ch, Chan):
        raise PathEnd('panic', 'close of nil channel at %s' % (ins or {}).get('pos'))
    cev(st, 'close', ch.cid, pos=(ins or {}).get('pos'))


def go_stmt(ex, st, fn, args, ins):
    ths = list(st.heap.get(('threads',), ()))
    child = len(ths) + 1
    ths.append((child, fn, args, ins.get('pos')))
    st.heap[('threads',)] = tuple(ths)
    cev(st, 'go', child, pos=ins.get('pos'))


ERR_SERVER_CLOSED = Opaque('error', msg=None, server_closed=True)


def srv_id(p):
    return ('srv', p.obj, p.path)


def http_ListenAndServe(ex, st, args, ctx):
    used('(*http.Server).ListenAndServe: contract automaton (1) return ErrServerClosed if shutdown already began (2) bind (3) track listener - fails and releases the socket if shutdown began meanwhile (4) serve until shutdown; returns ErrServerClosed')
    cev(st, 'las', srv_id(args[0]), pos=ctx['pos'])
    return ERR_SERVER_CLOSED


def http_Shutdown(ex, st, args, ctx):
    used('(*http.Server).Shutdown(ctx): (a) sets the shutting-down flag and closes the tracked listeners (b) returns when no request is in flight (context.Background: waits indefinitely; a deadline context may return early with an error)')
    ctxv = args[1]
    kind = getattr(ctxv.v if isinstance(ctxv, Iface) else ctxv, 'ctxkind', 'unknown')
    cev(st, 'shutdown', srv_id(args[0]), kind, pos=ctx['pos'])
    if kind == 'background':
        return NIL
    c = z3.Bool(ex.newsym('shutdown_deadline_hit'))
    return Forks([(c, Iface(-1, Opaque('error', msg=S('context deadline exceeded'), origin=ctx['pos'])), None), (z3.Not(c), NIL, None)])


def http_Close(ex, st, args, ctx):
    used('(*http.Server).Close: closes listeners and all connections immediately')
    cev(st, 'srvclose', srv_id(args[0]), pos=ctx['pos'])
    return NIL


def ctx_Background(ex, st, args, ctx):
    return Opaque('context', ctxkind='background')


def ctx_WithTimeout(ex, st, args, ctx):
    return (Opaque('context', ctxkind='deadline'), Func('verif:noop'))


def ext_any(ex, st, args, ctx):
    """calls into libraries that only build objects (prometheus, promhttp, dd-trace, net/http mux): opaque result tagged with the callee"""
    st.events.append(('ext', ctx['name'], tuple(args)))
    return Opaque('ext', callee=ctx['name'], args=tuple(args), oid=new_oid())


BASE.update({'chan:make': chan_make, 'chan:send': chan_send, 'chan:recv': chan_recv, 'chan:close': chan_close, 'go': go_stmt,
             '(*net/http.Server).ListenAndServe': http_ListenAndServe, '(*net/http.Server).Shutdown': http_Shutdown, '(*net/http.Server).Close': http_Close,
             'context.Background': ctx_Background, 'context.TODO': ctx_Background, 'context.WithTimeout': ctx_WithTimeout, 'verif:noop': lambda ex, st, a, c: None,
             'global:net/http.ErrServerClosed': lambda ex, st: ERR_SERVER_CLOSED})


def ext_prefixes():
    ps = ['github.com/prometheus/', '(*github.com/prometheus/', '(github.com/prometheus/', 'gopkg.in/DataDog/', '(*gopkg.in/DataDog/', 'net/http.NewServeMux', '(*net/http.ServeMux).',
          'net/http.Handle', 'net/http.TimeoutHandler', 'net/http.StripPrefix', 'net/http.HandlerFunc', 'net/http.MaxBytesHandler', 'opaque:ext.']
    return [(p, ext_any) for p in ps]


def chan_select(ex, st, fr, ins):
    """select with a default branch and one send case: the send succeeds only if a receiver is parked on the channel at that instant"""
    used('select { case ch <- v: default: }: non-blocking send, succeeds iff a receiver is waiting at that instant, otherwise dropped')
    sts = ins.get('states') or []
    if ins.get('blocking') or len(sts) != 1 or sts[0]['dir'] != 'send':
        raise Unsupported('select shape not modelled at %s' % ins.get('pos'))
    ch = ex.ev(st, fr, sts[0]['chan'])
    if not isinstance(ch, Chan):
        raise Unsupported('select on nil channel')
    s2 = st.clone()
    s2.tid = getattr(st, 'tid', 0)
    cev(st, 'trysend_ok', ch.cid, pos=ins.get('pos'))
    cev(s2, 'trysend_dropped', ch.cid, pos=ins.get('pos'))
    st.frames[-1].regs[ins['name']] = (bvval(0, 64), z3.BoolVal(False))
    st.frames[-1].idx += 1
    f2 = s2.frames[-1]
    f2.regs[ins['name']] = (bvval(-1, 64), z3.BoolVal(False))
    f2.idx += 1
    return [s2, st]


BASE.update({'chan:select': chan_select})


# ------------------------------------------------------------------------------------------ C13: shared-state footprint of one invocation
def i_begin_invocation(ex, st, args, ctx):
    st.heap[('inv_floor',)] = new_oid()
    st.epoch = st.nobj + 1
    st.track_all = True
    st.events.append(('invocation-begin',))
    return None


INTRINSICS.update({'verifBeginInvocation': i_begin_invocation})
_old_lock, _old_unlock, _old_put, _old_get = mutex_Lock, mutex_Unlock, sync_pool_put, sync_pool_get


def mutex_Lock2(ex, st, args, ctx):
    st.events.append(('lock', ('mutex', args[0].obj, args[0].path), ctx['pos']))
    return _old_lock(ex, st, args, ctx)


def mutex_Unlock2(ex, st, args, ctx):
    st.events.append(('unlock', ('mutex', args[0].obj, args[0].path), ctx['pos']))
    return _old_unlock(ex, st, args, ctx)


def reachable_objs(ex, st, v, acc):
    if isinstance(v, Ptr):
        if v.obj in acc or v.obj not in st.heap:
            return
        acc.add(v.obj)
        reachable_objs(ex, st, st.heap[v.obj], acc)
    elif isinstance(v, Slice):
        o = v.obj[1].obj if isinstance(v.obj, tuple) else v.obj
        if o is not None and o not in acc and o in st.heap:
            acc.add(o)
            reachable_objs(ex, st, st.heap[o], acc)
    elif isinstance(v, Struct):
        for f in v.f:
            reachable_objs(ex, st, f, acc)
    elif isinstance(v, Array):
        for f in v.e[:64]:
            reachable_objs(ex, st, f, acc)
    elif isinstance(v, Iface):
        reachable_objs(ex, st, v.v, acc)


def sync_pool_put2(ex, st, args, ctx):
    used('sync.Pool.Put: the object (and what it references) becomes visible to every other goroutine from that instant')
    acc = set()
    reachable_objs(ex, st, args[1], acc)
    for o in acc:
        st.obj_epoch[o] = -2          # shared from now on: later accesses by this invocation race with whoever Gets it
    st.events.append(('pool_put', tuple(sorted(acc)), ctx['pos']))
    return _old_put(ex, st, args, ctx)


BASE.update({'(*sync.Mutex).Lock': mutex_Lock2, '(*sync.Mutex).Unlock': mutex_Unlock2, '(*sync.Pool).Put': sync_pool_put2})


def touch(ex, st, v, kind, pos):
    """record an access by a stub to the backing object of a slice / pointer (for the shared-state footprint)"""
    o = None
    if isinstance(v, Slice) and v.obj is not None:
        o = v.obj[1].obj if isinstance(v.obj, tuple) else v.obj
    elif isinstance(v, Ptr):
        o = v.obj
    if o is not None and st.obj_epoch.get(o, 0) < st.epoch:
        st.events.append(('shared_write' if kind == 'w' else 'shared_read', o, (), pos))
    elif o is not None and st.track_all:
        st.events.append(('priv_write' if kind == 'w' else 'priv_read', o, (), pos))


def buffer_ReadFrom(ex, st, args, ctx):
    used('(*bytes.Buffer).ReadFrom: appends an arbitrary byte string read from the reader, or fails')
    touch(ex, st, args[0], 'w', ctx['pos'])
    c = z3.Bool(ex.newsym('readfrom_ok'))
    o = st.alloc(Opaque('bodybytes'))
    st.obj_epoch[o] = st.obj_epoch.get(args[0].obj, st.epoch)      # the bytes live in the buffer's storage

    def ok(s2):
        ex.store(s2, Ptr(args[0].obj, args[0].path + (0,)), Slice(o, 0, z3.BitVec(ex.newsym('bodylen'), 64), 0))
        return (z3.BitVec(ex.newsym('n'), 64), NIL)

    def bad(s2):
        s2.events.append(('tag', 'readall_error'))
        return (bvval(0, 64), Iface(-1, Opaque('error', msg=S('read error'), origin=ctx['pos'])))
    return Forks([(c, ok, None), (z3.Not(c), bad, None)])


_json_unmarshal0 = json_Unmarshal


def json_Unmarshal2(ex, st, args, ctx):
    touch(ex, st, args[0], 'r', ctx['pos'])
    return _json_unmarshal0(ex, st, args, ctx)


BASE.update({'(*bytes.Buffer).ReadFrom': buffer_ReadFrom, 'encoding/json.Unmarshal': json_Unmarshal2})


# ------------------------------------------------------------------------------------------ CLI (C19): urfave/cli context, os, fmt.Println, repo-level API stubs
def cli_flag(kind):
    def f(ex, st, args, ctx):
        used('cli.Context.String/Uint/Int/Bool...: arbitrary flag values')
        name = name_of(args[1])
        key = 'flag:' + name
        fixed = getattr(args[0], 'fixed', None) or {}
        if name in fixed:
            fv = fixed[name]
            return S(fv) if kind == 'string' else (z3.BoolVal(bool(fv)) if kind == 'bool' else bvval(int(fv), 64))
        if key in st.draws:
            v = st.draws[key]
        elif kind == 'string':
            v = z3.String(key)
            dflt = getattr(args[0], 'flag_defaults', {}).get(name)
            if dflt is not None:
                # the flag may be absent from the command line: then its declared default Value applies
                present = z3.Bool('flagset:' + name)
                st.draws['flagset:' + name] = present
                st.draws[key + ':given'] = v
                v = z3.If(present, v, z3.StringVal(dflt))
        elif kind == 'bool':
            v = z3.Bool(key)
        else:
            v = z3.BitVec(key, 64)
            if name in ('batch-size', 'tree-depth'):
                st.pc.append(z3.ULE(v, bvval(2, 64)))      # bound: dimensions <= 2 in the CLI harness
        st.draws[key] = v
        return Str(v) if kind == 'string' else v
    return f


def fmt_Println(ex, st, args, ctx):
    used('fmt.Println: one write to standard output')
    vals = ex.cells(st, args[0]) if args[0] is not NIL else []
    st.events.append(('stdout', tuple(vals)))
    return (bvval(1, 64), NIL)


def fork_result(tag, okval, events_ok=None):
    """stub for a repo-level API: succeeds (tagged event) or fails"""
    def f(ex, st, args, ctx):
        used('%s: succeeds or returns an error (contract stub at the API boundary)' % tag)
        c = z3.Bool(ex.newsym(tag + '_ok'))
        st.draws['%s_ok#%d' % (tag, ex.fresh)] = c

        def ok(s2):
            s2.events.append(('api', tag, 'ok', tuple(args)))
            return okval(ex, s2, args) if callable(okval) else okval

        def bad(s2):
            s2.events.append(('api', tag, 'err', tuple(args)))
            err = Iface(-1, Opaque('error', msg=S(tag + ' failed'), origin=ctx['pos']))
            v = okval(ex, s2, args) if callable(okval) else okval
            if isinstance(v, tuple):
                return tuple([NIL] * (len(v) - 1)) + (err,)
            return err
        return Forks([(c, ok, None), (z3.Not(c), bad, None)])
    return f


def new_ps(ex, st, args):
    tid = ex.tid_by_str.get('worldcoin/gnark-mbu/prover.ProvingSystem')
    z = ex.zero(tid)
    f = list(z.f)
    f[0], f[1] = z3.BitVec(ex.newsym('treeDepth'), 32), z3.BitVec(ex.newsym('batchSize'), 32)
    f[2], f[3], f[4] = Opaque('pk', sys='file', oid=new_oid()), Opaque('vk', sys='file', oid=new_oid()), Opaque('cs', sys='file', oid=new_oid())
    return (Ptr(st.alloc(Struct(f))), NIL)


def signal_Notify(ex, st, args, ctx):
    used('os/signal.Notify: the channel receives a value when one of the signals arrives (external event)')
    if isinstance(args[0], Chan):
        st.heap[('chanext', args[0].cid)] = True
    return None


def cli_stubs():
    P = 'worldcoin/gnark-mbu/prover.'
    proof = lambda ex, st, a: (Ptr(st.alloc(Struct([Opaque('proof', sys='x', witness=None, coords=None)]))), NIL)
    return {
        '(*github.com/urfave/cli/v2.Context).String': cli_flag('string'), '(*github.com/urfave/cli/v2.Context).Uint': cli_flag('int'),
        '(*github.com/urfave/cli/v2.Context).Int': cli_flag('int'), '(*github.com/urfave/cli/v2.Context).Int64': cli_flag('int'),
        '(*github.com/urfave/cli/v2.Context).Bool': cli_flag('bool'),
        'fmt.Println': fmt_Println,
        P + 'ReadSystemFromFile': lambda ex, st, a, c: read_system_from_file(ex, st, a, c), P + 'ReadSystemFromS3': fork_result('ReadSystemFromS3', new_ps),
        P + 'SetupInsertion': fork_result('SetupInsertion', new_ps), P + 'SetupDeletion': fork_result('SetupDeletion', new_ps),
        P + 'ImportInsertionSetup': fork_result('ImportInsertionSetup', new_ps), P + 'ImportDeletionSetup': fork_result('ImportDeletionSetup', new_ps),
        P + 'BuildR1CSInsertion': fork_result('BuildR1CSInsertion', lambda ex, st, a: (Opaque('cs', sys='c', oid=new_oid()), NIL)),
        P + 'BuildR1CSDeletion': fork_result('BuildR1CSDeletion', lambda ex, st, a: (Opaque('cs', sys='c', oid=new_oid()), NIL)),
        P + 'ExtractLean': fork_result('ExtractLean', lambda ex, st, a: (Str(z3.String(ex.newsym('lean'))), NIL)),
        '(*' + P + 'ProvingSystem).ProveInsertion': fork_result('ProveInsertion', proof), '(*' + P + 'ProvingSystem).ProveDeletion': fork_result('ProveDeletion', proof),
        '(*' + P + 'ProvingSystem).VerifyInsertion': fork_result('VerifyInsertion', NIL), '(*' + P + 'ProvingSystem).VerifyDeletion': fork_result('VerifyDeletion', NIL),
        '(*' + P + 'ProvingSystem).WriteRawTo': fork_result('WriteRawTo', lambda ex, st, a: (z3.BitVec(ex.newsym('n'), 64), NIL)),
        '(*' + P + 'ProvingSystem).ExportSolidity': fork_result('ExportSolidity', NIL),
        '(*' + P + 'InsertionParameters).ComputeInputHashInsertion': lambda ex, st, a, c: NIL,
        '(*' + P + 'DeletionParameters).ComputeInputHashDeletion': lambda ex, st, a, c: NIL,
        'os.Create': fork_result('os.Create', lambda ex, st, a: (Opaque('osfile', oid=new_oid()), NIL)),
        'opaque:osfile.Close': lambda ex, st, a, c: NIL, '(*os.File).Close': lambda ex, st, a, c: NIL,
        '(*os.File).WriteString': fork_result('WriteString', lambda ex, st, a: (bvval(1, 64), NIL)),
        'opaque:cs.WriteTo': fork_result('cs.WriteTo', lambda ex, st, a: (bvval(1, 64), NIL)), 'opaque:vk.WriteTo': fork_result('vk.WriteTo', lambda ex, st, a: (bvval(1, 64), NIL)),
        'global:os.Stdin': lambda ex, st: Opaque('stdin'), 'global:os.Stdout': lambda ex, st: Opaque('stdout'), 'global:os.Args': lambda ex, st: Slice(None, 0, 0, 0),
        'worldcoin/gnark-mbu/server.Run': lambda ex, st, a, c: (st.events.append(('api', 'server.Run', 'ok', ())) or Struct([Chan(new_oid()), Chan(new_oid())])),
        '(*worldcoin/gnark-mbu/server.RunningJob).RequestStop': lambda ex, st, a, c: st.events.append(('api', 'RequestStop', 'ok', ())),
        '(*worldcoin/gnark-mbu/server.RunningJob).AwaitStop': lambda ex, st, a, c: st.events.append(('api', 'AwaitStop', 'ok', ())),
         'time.Now': lambda ex, st, a, c: Opaque('time'), 'time.Since': lambda ex, st, a, c: bvval(0, 64),
        'worldcoin/gnark-mbu/logging.SetJSONOutput': lambda ex, st, a, c: None,
        'worldcoin/gnark-mbu/poseidon_tree.NewTree': lambda ex, st, a, c: Struct([Iface(-2, Opaque('tree'))]),
        '(*worldcoin/gnark-mbu/poseidon_tree.PoseidonTree).Root': lambda ex, st, a, c: Big(z3.BitVec(ex.newsym('root'), BIG)),
        '(*worldcoin/gnark-mbu/poseidon_tree.PoseidonTree).Update': lambda ex, st, a, c: Slice(None, 0, 0, 0),
        'github.com/consensys/gnark/logger.Set': lambda ex, st, a, c: None,
    }


def conv_bytes2string(ex, st, x):
    return Str(z3.String(ex.newsym('string_of_bytes')))


def conv_string2bytes(ex, st, x):
    o = st.alloc(Opaque('bytes_of_string', src=x))
    return Slice(o, 0, z3.BitVec(ex.newsym('len'), 64), 0)


BASE.update({'conv:bytes2string': conv_bytes2string, 'conv:string2bytes': conv_string2bytes})


def read_system_from_file(ex, st, args, ctx):
    used('prover.ReadSystemFromFile (API boundary for the CLI): a loaded system, or an error together with a non-nil half-loaded system (as the real function does)')
    c = z3.Int(ex.newsym('ReadSystemFromFile_outcome'))

    def ok(s2):
        s2.events.append(('api', 'ReadSystemFromFile', 'ok', ()))
        return new_ps(ex, s2, args)

    def bad(with_vk):
        def f(s2):
            s2.events.append(('api', 'ReadSystemFromFile', 'err', ()))
            ps, _ = new_ps(ex, s2, args)
            v = ex.load(s2, ps)
            fl = list(v.f)
            fl[4] = NIL
            if not with_vk:
                fl[2], fl[3] = NIL, NIL
            s2.heap[ps.obj] = Struct(fl)
            return (ps, Iface(-1, Opaque('error', msg=S('truncated or unreadable keys file'), origin=ctx['pos'])))
        return f
    return Forks([(c == 0, ok, None), (c == 1, bad(False), None), (c == 2, bad(True), None)])


# ------------------------------------------------------------------------------------------ executing gadget definitions (C05 purity)
def abstractor_Call_exec(unwrap):
    def f(ex, st, args, ctx):
        used('abstractor.Call*: runs the gadget\'s DefineGadget on the stub API (used when the definition code itself is the subject)')
        g = args[1]
        m = find_method(ex, g.t, 'DefineGadget')
        if m is None or m not in ex.funcs:
            raise Unsupported('gadget %s has no DefineGadget body' % ex.tname(g.t))
        return ('tailcall', m, [g.v, args[0]], (lambda v: v.v if (unwrap and isinstance(v, Iface)) else v))
    return f


def api_any(ex, st, args, ctx):
    return Iface(-2, Opaque('var'))


INTRINSICS.update({'verifVar': lambda ex, st, a, c: Iface(-2, Opaque('var'))})


def gadget_exec_stubs():
    A = 'github.com/reilabs/gnark-lean-extractor/v2/abstractor.'
    return {A + 'Call': abstractor_Call_exec(False), A + 'Call1': abstractor_Call_exec(True), A + 'Call2': abstractor_Call_exec(True), A + 'Call3': abstractor_Call_exec(True),
            A + 'CallVoid': abstractor_Call_exec(False), 'prefix': [('opaque:api.', api_any)],
            'opaque:var.ConstantValue': lambda ex, st, a, c: (NIL, z3.BoolVal(False)), 'opaque:api.ConstantValue': lambda ex, st, a, c: (NIL, z3.BoolVal(False))}


# ------------------------------------------------------------------------------------------ bufio writers/readers over token streams (C11)
def unwrap_io(v):
    return v.v if isinstance(v, Iface) else v


def emit_token(ex, st, w, tok):
    """append a token to a stream, or to the pending buffer of a bufio.Writer in front of it"""
    w = unwrap_io(w)
    if isinstance(w, Opaque) and w.tag == 'bufwriter':
        d = ostate(st, w)
        oset(st, w, pending=d.get('pending', ()) + (tok,))
        return
    s_ = stream_of(w)
    d = ostate(st, s_)
    oset(st, s_, tokens=d['tokens'] + (tok,))


def bufio_NewWriterSize(ex, st, args, ctx):
    used('bufio.Writer: data stays in the buffer until Flush (or until the buffer fills); what is never flushed never reaches the file')
    o = Opaque('bufwriter', inner=args[0], oid=new_oid())
    oset(st, o, pending=())
    return o


def bufwriter_Flush(ex, st, args, ctx):
    w = unwrap_io(args[0])
    d = ostate(st, w)
    for tok in d.get('pending', ()):
        emit_token(ex, st, w.inner, tok)
    oset(st, w, pending=())
    return NIL


def bufwriter_Write(ex, st, args, ctx):
    data = args[1]
    cells = ex.cells(st, data)
    emit_token(ex, st, args[0], ('bytes', tuple(cells[:data.len])))
    return (bvval(data.len, 64), NIL)


def stream_Write2(ex, st, args, ctx):
    data = args[1]
    cells = ex.cells(st, data)
    if not isinstance(data.len, int):
        raise Unsupported('stream write of symbolic length')
    emit_token(ex, st, args[0], ('bytes', tuple(cells[:data.len])))
    return (bvval(data.len, 64), NIL)


def section_write2(kind, raw):
    def f(ex, st, args, ctx):
        used('gnark %s.WriteTo/WriteRawTo: appends one opaque section (compressed or raw) holding the object; ReadFrom/UnsafeReadFrom restores it from either form' % kind)
        emit_token(ex, st, args[1], ('section', kind, None, args[0], raw))
        return (z3.BitVec(ex.newsym('written'), 64), NIL)
    return f


def bufio_NewReaderSize2(ex, st, args, ctx):
    used('bufio.Reader: reads ahead from the underlying reader; once a bufio.Reader has read from a stream, reading the stream directly misses the bytes it buffered. NewReaderSize returns its argument when that already is a large enough bufio.Reader')
    inner = unwrap_io(args[0])
    if isinstance(inner, Opaque) and inner.tag == 'bufreader':
        return inner
    return Opaque('bufreader', inner=args[0], oid=new_oid())


def reader_owner(v):
    v = unwrap_io(v)
    return v.oid if isinstance(v, Opaque) and v.tag == 'bufreader' else None


def guard_readahead(fn):
    """wrap a stream-reading stub: a direct read after some bufio.Reader buffered from the same stream fails"""
    def f(ex, st, args, ctx):
        r = args[0] if not (isinstance(unwrap_io(args[0]), Opaque) and unwrap_io(args[0]).tag in ('pk', 'vk', 'cs')) else args[1]
        s_ = stream_of(r)
        d = ostate(st, s_)
        me = reader_owner(r)
        owner = d.get('buffered_by')
        if owner is not None and owner != me:
            st.events.append(('tag', 'read_past_bufio'))
            return (bvval(0, 64), Iface(-1, Opaque('error', msg=S('data was consumed by a bufio.Reader read-ahead'), origin=ctx['pos'])))
        if me is not None:
            oset(st, s_, buffered_by=me)
        return fn(ex, st, args, ctx)
    return f


BASE.update({'bufio.NewWriterSize': bufio_NewWriterSize, 'bufio.NewWriter': bufio_NewWriterSize, 'opaque:bufwriter.Flush': bufwriter_Flush, '(*bufio.Writer).Flush': bufwriter_Flush,
             'opaque:bufwriter.Write': bufwriter_Write, '(*bufio.Writer).Write': bufwriter_Write, 'opaque:stream.Write': stream_Write2,
             'opaque:pk.WriteTo': section_write2('pk', False), 'opaque:pk.WriteRawTo': section_write2('pk', True),
             'opaque:vk.WriteTo': section_write2('vk', False), 'opaque:vk.WriteRawTo': section_write2('vk', True), 'opaque:cs.WriteTo': section_write2('cs', False),
             'bufio.NewReaderSize': bufio_NewReaderSize2, 'bufio.NewReader': bufio_NewReaderSize2,
             'io.ReadFull': guard_readahead(io_ReadFull),
             'opaque:pk.UnsafeReadFrom': guard_readahead(section_read('pk')), 'opaque:pk.ReadFrom': guard_readahead(section_read('pk')),
             'opaque:vk.UnsafeReadFrom': guard_readahead(section_read('vk')), 'opaque:vk.ReadFrom': guard_readahead(section_read('vk')),
             'opaque:cs.ReadFrom': guard_readahead(section_read('cs'))})


def i_deployed_handler(ex, st, args, ctx):
    """the handler value server.Run installs for /prove: taken from the recorded mux registration, looking through the promhttp
    instrumentation wrappers (their transparency -- they call the next handler exactly once and do not alter the response -- is the
    documented promhttp contract; the wiring itself is the subject of C20)"""
    used('promhttp.InstrumentHandler*: calls the wrapped handler exactly once with the same request, response unchanged')
    for ev in reversed(st.events):
        if ev[0] == 'ext' and (ev[1].endswith('.Handle') or ev[1].endswith('.HandleFunc')):
            a = ev[2]
            pat = next((x for x in a if isinstance(x, Str)), None)
            if pat is not None and pat.z is not None and z3.is_string_value(z3.simplify(pat.z)) and z3.simplify(pat.z).as_string() == '/prove':
                cur = a[-1]
                while True:
                    inner = cur.v if isinstance(cur, Iface) else cur
                    if isinstance(inner, Opaque) and inner.tag == 'ext':
                        if 'promhttp.InstrumentHandler' not in inner.callee or len(inner.args) < 2:
                            raise Unsupported('the /prove handler is wrapped by %s, which has no contract in the encoder' % inner.callee)
                        cur = inner.args[1]
                        continue
                    return cur
    raise Unsupported('server.Run did not register a handler for /prove in a way the encoder recognises')


INTRINSICS.update({'verifDeployedHandler': i_deployed_handler})


# ------------------------------------------------------------------------------------------ strings.* on z3 strings, encoding/hex
def _zs(ex, x):
    return ex.zstr(x)


def strings_TrimPrefix(ex, st, args, ctx):
    s_, p_ = _zs(ex, args[0]), _zs(ex, args[1])
    return Str(z3.simplify(z3.If(z3.PrefixOf(p_, s_), z3.SubString(s_, z3.Length(p_), z3.Length(s_) - z3.Length(p_)), s_)))


def strings_TrimSuffix(ex, st, args, ctx):
    s_, p_ = _zs(ex, args[0]), _zs(ex, args[1])
    return Str(z3.simplify(z3.If(z3.SuffixOf(p_, s_), z3.SubString(s_, 0, z3.Length(s_) - z3.Length(p_)), s_)))


def hex_DecodeString(ex, st, args, ctx):
    used('encoding/hex.DecodeString: succeeds exactly on strings of an even number of hexadecimal digits (uninterpreted isHex/hexval/length over opaque strings; bound: at most %d bytes)' % NB)
    s_ = _zs(ex, args[0])
    ok = uf(ex, 'isEvenHex', z3.StringSort(), z3.BoolSort())(s_)
    val = uf(ex, 'hexval', z3.StringSort(), z3.BitVecSort(BIG))(s_)
    L = z3.Extract(63, 0, z3.Int2BV(z3.Length(s_) / 2, 64)) if False else z3.BitVec(ex.newsym('hexbytes'), 64)

    def good(s2):
        s2.pc.append(z3.ULE(L, bvval(NB, 64)))
        s2.pc.append(z3.BV2Int(L) * 2 == z3.Length(s_))
        s2.pc.append(z3.Or(L == NB, z3.ULT(val, bvval(1, BIG) << z3.ZeroExt(BIG - 64, 8 * L))))
        s2.events.append(('hexdecode', s_, val))
        sh = z3.ZeroExt(BIG - 64, bvval(8, 64) * (bvval(NB, 64) - L))
        return (new_bytes(ex, s2, byte_cells_of_bv(z3.simplify(val << sh), NB), L, 0, NB), NIL)

    def bad(s2):
        return (Slice(None, 0, 0, 0), Iface(-1, Opaque('error', msg=S('encoding/hex: invalid byte or odd length'), origin=ctx['pos'])))
    return Forks([(ok, good, None), (z3.Not(ok), bad, None)])


BASE.update({'strings.TrimPrefix': strings_TrimPrefix, 'strings.TrimSuffix': strings_TrimSuffix,
             'strings.HasPrefix': lambda ex, st, a, c: z3.simplify(z3.PrefixOf(_zs(ex, a[1]), _zs(ex, a[0]))),
             'strings.HasSuffix': lambda ex, st, a, c: z3.simplify(z3.SuffixOf(_zs(ex, a[1]), _zs(ex, a[0]))),
             'strings.Contains': lambda ex, st, a, c: z3.simplify(z3.Contains(_zs(ex, a[0]), _zs(ex, a[1]))),
             'encoding/hex.DecodeString': hex_DecodeString})


def hex_EncodeToString(ex, st, args, ctx):
    used('encoding/hex.EncodeToString: two lower-case hexadecimal digits per byte (leading zero digits kept)')
    b = args[0]
    v = bytes_value(ex, st, b) if b is not NIL else bvval(0, BIG)
    return Str(parts=[('hexpad', v, b.len if b is not NIL else 0)])


def strings_TrimLeft(ex, st, args, ctx):
    x, cut = args[0], args[1]
    cz = z3.simplify(ex.zstr(cut))
    if x.parts is not None and len(x.parts) == 1 and x.parts[0][0] == 'hexpad' and z3.is_string_value(cz) and cz.as_string() == '0':
        return Str(num=('', '16z', x.parts[0][1]))
    raise Unsupported('strings.TrimLeft(%r, %s)' % (x, cz))


BASE.update({'encoding/hex.EncodeToString': hex_EncodeToString, 'strings.TrimLeft': strings_TrimLeft})


# ------------------------------------------------------------------------------------------ sync.WaitGroup, sync/atomic values, http.Server shutdown hooks
def _wg_key(p):
    return ('wg', p.obj, p.path)


def wg_Add(ex, st, args, ctx):
    used('sync.WaitGroup: Wait returns at an instant at which the counter (adds so far minus dones so far) is zero')
    n = conc(args[1])
    if n is None:
        raise Unsupported('WaitGroup.Add with a symbolic delta')
    cev(st, 'wg_add', _wg_key(args[0]), n, pos=ctx['pos'])
    return None


def wg_Done(ex, st, args, ctx):
    cev(st, 'wg_add', _wg_key(args[0]), -1, pos=ctx['pos'])
    return None


def wg_Wait(ex, st, args, ctx):
    cev(st, 'wg_wait', _wg_key(args[0]), pos=ctx['pos'])
    return None


def _atomic_field(ex, st, p):
    v = ex.load(st, p)
    if not isinstance(v, Struct):
        raise Unsupported('atomic value of unexpected shape %r' % (v,))
    # the payload is the last field (noCopy / alignment markers come first)
    return Ptr(p.obj, p.path + (len(v.f) - 1,)), v.f[-1]


def atomic_Load(ex, st, args, ctx):
    used('sync/atomic typed values: Load/Store/Add/Swap/CompareAndSwap are single reads/writes of the payload (no data race by definition)')
    fp, cur = _atomic_field(ex, st, args[0])
    if st.obj_epoch.get(fp.obj, 0) < st.epoch:
        st.events.append(('atomic_read', fp.obj, fp.path, ctx['pos']))
    return cur if not ctx['name'].startswith('(*sync/atomic.Bool)') else z3.simplify(cur != 0)


def atomic_Store(ex, st, args, ctx):
    fp, cur = _atomic_field(ex, st, args[0])
    v = args[1]
    if z3.is_bool(v):
        v = z3.If(v, z3.BitVecVal(1, cur.size()), z3.BitVecVal(0, cur.size()))
    if st.obj_epoch.get(fp.obj, 0) < st.epoch:
        st.events.append(('atomic_write', fp.obj, fp.path, ctx['pos']))
    o = st.heap[fp.obj]

    def upd(val, path):
        if not path:
            return z3.simplify(v)
        k = path[0]
        if isinstance(val, Struct):
            f = list(val.f)
            f[k] = upd(f[k], path[1:])
            return Struct(f)
        e = list(val.e)
        e[k] = upd(e[k], path[1:])
        return Array(e)
    st.heap[fp.obj] = upd(o, fp.path)
    return None


def atomic_Add(ex, st, args, ctx):
    fp, cur = _atomic_field(ex, st, args[0])
    new = z3.simplify(cur + args[1])
    atomic_Store(ex, st, [args[0], new], ctx)
    return new


def atomic_Swap(ex, st, args, ctx):
    old = atomic_Load(ex, st, args, ctx)
    atomic_Store(ex, st, args, ctx)
    return old


def http_RegisterOnShutdown(ex, st, args, ctx):
    used('(*http.Server).RegisterOnShutdown: the function runs in its own goroutine once Shutdown has begun (modelled as a goroutine that may start any time after registration: a superset of the real schedules)')
    hooks = list(st.heap.get(('shutdown_hooks',), ()))
    hooks.append(args[1])
    st.heap[('shutdown_hooks',)] = tuple(hooks)
    if isinstance(args[1], Func):
        go_stmt(ex, st, ('value', args[1]), [], {'pos': ctx['pos']})
    return None


_AT = ['Bool', 'Int32', 'Int64', 'Uint32', 'Uint64']
BASE.update({'(*sync.WaitGroup).Add': wg_Add, '(*sync.WaitGroup).Done': wg_Done, '(*sync.WaitGroup).Wait': wg_Wait,
             '(*net/http.Server).RegisterOnShutdown': http_RegisterOnShutdown})
for _t in _AT:
    BASE.update({'(*sync/atomic.%s).Load' % _t: atomic_Load, '(*sync/atomic.%s).Store' % _t: atomic_Store, '(*sync/atomic.%s).Swap' % _t: atomic_Swap})
    if _t != 'Bool':
        BASE['(*sync/atomic.%s).Add' % _t] = atomic_Add


def i_run_shutdown_hooks(ex, st, args, ctx):
    """run the functions registered with RegisterOnShutdown (the stop was requested while this request was already accepted)"""
    hooks = st.heap.get(('shutdown_hooks',), ())
    st.events.append(('tag', 'shutdown_hooks_ran'))
    if not hooks:
        return None
    if len(hooks) > 1:
        raise Unsupported('more than one shutdown hook')
    return ('tailcallv', hooks[0], [])


INTRINSICS.update({'verifRunShutdownHooks': i_run_shutdown_hooks})


# ------------------------------------------------------------------------------------------ os/signal subscriptions (C14: the command-line server)
def signal_NotifyContext(ex, st, args, ctx):
    used('os/signal.NotifyContext: the context is done when one of the signals arrives; calling the returned stop function (or signal.Stop/Reset) restores the default disposition, after which SIGINT terminates the process')
    st.events.append(('api', 'signal.Subscribe', 'ok', ()))
    ch = Chan(new_oid())
    st.heap[('chanbuf', ch.cid)] = ((), 1)
    st.heap[('chanext', ch.cid)] = True
    return (Opaque('context', ctxkind='signal', done=ch), Func('verif:signal_stop'))


def signal_unsubscribe(ex, st, args, ctx):
    st.events.append(('api', 'signal.Unsubscribe', 'ok', ()))
    return None


def context_Done(ex, st, args, ctx):
    c = args[0].v if isinstance(args[0], Iface) else args[0]
    ch = getattr(c, 'done', None)
    if ch is None:
        ch = Chan(new_oid())          # a context that is never cancelled: receiving from it blocks forever
        st.heap[('chanbuf', ch.cid)] = ((), 1)
    return ch


_old_notify = signal_Notify


def signal_Notify2(ex, st, args, ctx):
    st.events.append(('api', 'signal.Subscribe', 'ok', ()))
    return _old_notify(ex, st, args, ctx)


BASE.update({'os/signal.NotifyContext': signal_NotifyContext, 'verif:signal_stop': signal_unsubscribe, 'os/signal.Stop': signal_unsubscribe, 'os/signal.Reset': signal_unsubscribe,
             'os/signal.Ignore': signal_unsubscribe, 'opaque:context.Done': context_Done, 'os/signal.Notify': signal_Notify2})


def stream_Read(ex, st, args, ctx):
    used('io.Reader.Read on a file: fills the buffer while data remains, returns what is left (possibly fewer bytes) at the cut, and (0, io.EOF) from then on; a loop that keeps reading at EOF never ends')
    s_ = stream_of(args[0])
    buf = args[1]
    n = buf.len
    if not isinstance(n, int):
        raise Unsupported('Read into a buffer of symbolic length')
    d = ostate(st, s_)
    pos, toks = d['pos'], d['tokens']
    at_end = pos >= len(toks)
    if n == 0:
        return (bvval(0, 64), NIL)

    def eof(s2):
        d2 = ostate(s2, s_)
        k = d2.get('eof_reads', 0) + 1
        oset(s2, s_, eof_reads=k)
        if k >= 3:
            raise PathEnd('panic', 'hang: the stream is read again and again at end of file (a read loop that ignores io.EOF never terminates) at %s' % ctx['pos'])
        return (bvval(0, 64), EOF_ERR)
    if at_end:
        return eof(st)
    t = toks[pos]
    if t[0] != 'bytes':
        raise Unsupported('Read in the middle of a %s section' % t[1])
    done = d.get('tokoff', 0)
    cells = t[1][done:]
    k = min(n, len(cells))

    def ok(s2):
        for i in range(k):
            ex.store(s2, ex.slice_cell_ptr(buf, i), cells[i])
        d2 = ostate(s2, s_)
        adv = done + k >= len(t[1])
        oset(s2, s_, pos=pos + 1 if adv else pos, tokoff=0 if adv else done + k, off=(d2.get('off') + k) if d2.get('off') is not None else None, eof_reads=0)
        return (bvval(k, 64), NIL)
    if d.get('cut') is None:
        return ok(st)
    end = d['off'] + k
    fits = z3.ULE(end, d['cut'])
    nothing = z3.UGE(d['off'], d['cut'])

    def partial(s2):
        got = z3.simplify(d['cut'] - d['off'])
        for i in range(k):
            ex.store(s2, ex.slice_cell_ptr(buf, i), cells[i])
        oset(s2, s_, pos=len(toks), off=d['cut'], eof_reads=0)
        return (got, NIL)
    return Forks([(fits, ok, None), (z3.And(z3.Not(fits), nothing), eof, None), (z3.And(z3.Not(fits), z3.Not(nothing)), partial, None)])


BASE.update({'opaque:stream.Read': stream_Read})


def fmt_Sscan(ex, st, args, ctx):
    used('fmt.Sscan(s, *big.Int): succeeds on an uninterpreted class of strings (not tied to SetString\'s: it skips leading space and stops at the first character that does not belong to the number)')
    s_ = args[0]
    tgt = ex.cells(st, args[1])
    if len(tgt) != 1 or not isinstance(tgt[0], Iface):
        raise Unsupported('fmt.Sscan with %d targets' % len(tgt))
    p_ = tgt[0].v
    if not isinstance(ex.load(st, p_), Big):
        raise Unsupported('fmt.Sscan into a non-big.Int target')
    if s_.num is not None:
        ex.store(st, p_, Big(s_.num[2]))
        return (bvval(1, 64), NIL)
    zs = ex.zstr(s_)
    ok = uf(ex, 'sscanOK', z3.StringSort(), z3.BoolSort())(zs)
    val = uf(ex, 'sscanVal', z3.StringSort(), z3.BitVecSort(BIG))(zs)
    isn = uf(ex, 'isNumber_base0', z3.StringSort(), z3.BoolSort())
    nv = uf(ex, 'numval_base0', z3.StringSort(), z3.BitVecSort(BIG))

    def good(s2):
        s2.pc.append(z3.Implies(isn(zs), val == nv(zs)))
        ex.store(s2, p_, Big(val))
        return (bvval(1, 64), NIL)
    def bad(s2):
        s2.pc.append(z3.Not(isn(zs)))         # the scanner accepts at least every number SetString accepts (same number syntax, prefix of the text)
        return (bvval(0, 64), Iface(-1, Opaque('error', msg=S('scan error'), origin=ctx['pos'])))
    return Forks([(ok, good, None), (z3.Not(ok), bad, None)])


BASE.update({'fmt.Sscan': fmt_Sscan})


# ------------------------------------------------------------------------------------------ fingerprints (caches keyed by a digest of the request)
def be_AppendUint32(ex, st, args, ctx):
    used('binary.BigEndian.AppendUint32: appends the 4-byte big-endian encoding')
    _, buf, v = args
    return ex.append(st, buf, new_bytes(ex, st, byte_cells_of_bv(v, 4), 4), None)


def _digest_uf(ex, name, bits):
    key = (name, BYTECAP)
    if key not in ex.uf:
        ex.uf[key] = z3.Function(name, z3.BitVecSort(64), z3.BitVecSort(8 * BYTECAP), z3.BitVecSort(bits))
    return ex.uf[key]


def sha256_Sum256(ex, st, args, ctx):
    used('crypto/sha256.Sum256 (and other digests): an uninterpreted function of (length, bytes) - two digests are equal in a model only if the solver can make the byte strings equal or chooses a collision; collisions are filtered by the native replay')
    data = args[0]
    if data is NIL or getattr(data, 'obj', None) is None:
        ln, packed = bvval(0, 64), bvval(0, 8 * BYTECAP)
    else:
        ln, packed = pack(ex, st, data)
    h = _digest_uf(ex, 'sha256', 256)(ln, packed)
    return Array(byte_cells_of_bv(h, 32))


BASE.update({'(encoding/binary.bigEndian).AppendUint32': be_AppendUint32, 'crypto/sha256.Sum256': sha256_Sum256})


def once_Do(ex, st, args, ctx):
    used('(*sync.Once).Do: runs the function on the first call only (what it did happens-before every later Do returns)')
    key = ('once', args[0].obj, args[0].path)
    if st.heap.get(key):
        return None
    st.heap[key] = True
    return ('tailcallv', args[1], [])


BASE.update({'(*sync.Once).Do': once_Do})
