"""GOSYM: symbolic executor for the go/ssa subset used by the anchored functions of worldcoin/semaphore-mtb.
Input: JSON from engine/gosym/ssadump (functions of the repo built from the current working tree + overlay harness).
Integers are bit-vectors of their Go width, slices have symbolic length within a concrete capacity, []byte values are
cell arrays with symbolic length, math/big.Int is a 256-bit unsigned value, everything outside the repo is a stub with a
stated contract (stubs.py). Paths are explored depth-first; every branch is checked for feasibility with z3; harness
assertions and implicit obligations (bounds, nil) are decided per path."""
import os
import json, os, subprocess, sys, time, copy, itertools
import z3

BIG = int(os.environ.get('GOSYM_BIG', '256'))           # bits of the math/big.Int model (256 by default; C07 runs at 264 so that values >= 2^256 exist)
NB = BIG // 8
BYTECAP = 200       # capacity of []byte values created by append / Bytes()


class Unsupported(Exception):
    pass


class PathEnd(Exception):
    def __init__(self, status, info=None):
        self.status, self.info = status, info


# ----------------------------------------------------------------------------------------------- values
class Nil:
    def __repr__(self):
        return 'nil'


NIL = Nil()


class Ptr:
    __slots__ = ('obj', 'path')

    def __init__(self, obj, path=()):
        self.obj, self.path = obj, tuple(path)

    def __repr__(self):
        return 'Ptr(%s,%s)' % (self.obj, self.path)

    def __eq__(self, o):
        return isinstance(o, Ptr) and o.obj == self.obj and o.path == self.path

    def __hash__(self):
        return hash((self.obj, self.path))


class Struct:
    __slots__ = ('f',)

    def __init__(self, f):
        self.f = tuple(f)

    def __repr__(self):
        return 'Struct%s' % (self.f,)


class Array:
    __slots__ = ('e',)

    def __init__(self, e):
        self.e = tuple(e)

    def __repr__(self):
        return 'Array(%d)' % len(self.e)


class Slice:
    __slots__ = ('obj', 'off', 'len', 'cap', 'lo', 'hi')

    def __init__(self, obj, off, ln, cap, lo=None, hi=None):
        self.obj, self.off, self.len, self.cap = obj, off, ln, cap
        if isinstance(ln, int):
            lo = hi = ln
        self.lo, self.hi = (0 if lo is None else lo), (cap if hi is None else hi)

    def __repr__(self):
        return 'Slice(obj=%s,off=%s,len=%s,cap=%s)' % (self.obj, self.off, self.len, self.cap)


class Iface:
    __slots__ = ('t', 'v')

    def __init__(self, t, v):
        self.t, self.v = t, v      # t: type id of the dynamic type

    def __repr__(self):
        return 'Iface(%s,%r)' % (self.t, self.v)


class Func:
    __slots__ = ('name', 'binds', 'recv')

    def __init__(self, name, binds=(), recv=None):
        self.name, self.binds, self.recv = name, tuple(binds), recv

    def __repr__(self):
        return 'Func(%s)' % self.name


_bigcell = [0]


class Big:
    """math/big.Int: magnitude as an unsigned BIG-bit value, sign as a per-path flag (a symbolic sign forks where it is created).
    `cell` names the backing array: Go copies a big.Int struct shallowly, so every copy of a value shares it, and a mutator applied to
    one copy (Set, SetBytes, ...) that fits the array writes through to all of them. A constant zero has no array (nil)."""
    __slots__ = ('v', 'neg', 'cell')

    def __init__(self, v, neg=False, cell='auto'):
        self.v = v
        self.neg = neg
        if cell == 'auto':
            zero = z3.is_bv_value(v) and v.as_long() == 0 if z3.is_expr(v) else False
            if zero:
                cell = None
            else:
                _bigcell[0] += 1
                cell = _bigcell[0]
        self.cell = cell


def rbig(st, b):
    """the current value of a big.Int whose backing array may have been written through another copy"""
    if isinstance(b, Big) and b.cell is not None:
        o = st.heap.get(('bigcell', b.cell))
        if o is not None:
            return Big(o[0], o[1], cell=b.cell)
    return b

    def __repr__(self):
        return 'Big(%s%s)' % ('-' if self.neg else '', self.v)


class Opaque:
    """stub object (groth16 proof, witness, logger, ...)"""

    def __init__(self, tag, **kw):
        self.tag = tag
        self.__dict__.update(kw)

    def __repr__(self):
        return 'Opaque(%s)' % self.tag


class Str:
    """string: z3 String term, or a numeric string produced by big.Int.Text / Sprintf("0x%s")"""
    __slots__ = ('z', 'num', 'parts')

    def __init__(self, z=None, num=None, parts=None):
        self.z, self.num = z, num      # num = (prefix, base, bv)
        self.parts = parts             # concatenation: [('lit', text) | ('num', prefix, base, bv)], z and num unset

    def __repr__(self):
        if self.parts is not None:
            return 'Str(parts %s)' % ([p[:3] if p[0] == 'num' else p for p in self.parts],)
        return 'Str(%s)' % (self.z if self.num is None else ('num', self.num[0], self.num[1]))


def S(lit):
    return Str(z3.StringVal(lit))


class MapVal:
    def __init__(self, items=None):
        self.items = list(items or [])


TOMB = ('deleted-map-entry',)


class Chan:
    def __init__(self, cid):
        self.cid = cid


def bvval(v, bits):
    return z3.BitVecVal(v, bits)


def conc(x):
    """python int if x is a concrete bit-vector else None"""
    if isinstance(x, int):
        return x
    x = z3.simplify(x)
    if z3.is_bv_value(x):
        return x.as_long()
    return None


def sconc(x, bits):
    v = conc(x)
    if v is None:
        return None
    return v - (1 << bits) if v >> (bits - 1) else v


# ----------------------------------------------------------------------------------------------- state
class Frame:
    __slots__ = ('fn', 'block', 'prev', 'idx', 'regs', 'defers', 'ret_to', 'visits')

    def __init__(self, fn):
        self.fn, self.block, self.prev, self.idx = fn, 0, -1, 0
        self.regs, self.defers, self.ret_to, self.visits = {}, [], None, {}

    def clone(self):
        f = Frame(self.fn)
        f.block, f.prev, f.idx = self.block, self.prev, self.idx
        f.regs, f.defers, f.ret_to, f.visits = dict(self.regs), list(self.defers), self.ret_to, dict(self.visits)
        return f


class State:
    def __init__(self):
        self.frames = []
        self.heap = {}
        self.nobj = 0
        self.pc = []
        self.events = []
        self.globals = {}
        self.epoch = 0          # allocations at or after this epoch belong to the current "invocation" (C13)
        self.obj_epoch = {}
        self.draws = {}         # nondet name -> term
        self.notes = []
        self.track_all = False

    def clone(self):
        s = State()
        s.frames = [f.clone() for f in self.frames]
        s.heap = dict(self.heap)
        s.nobj = self.nobj
        s.pc = list(self.pc)
        s.events = list(self.events)
        s.globals = dict(self.globals)
        s.epoch = self.epoch
        s.obj_epoch = dict(self.obj_epoch)
        s.draws = dict(self.draws)
        s.notes = list(self.notes)
        s.tid = getattr(self, 'tid', 0)
        s.track_all = self.track_all
        return s

    def alloc(self, v):
        self.nobj += 1
        self.heap[self.nobj] = v
        self.obj_epoch[self.nobj] = self.epoch
        return self.nobj


class Result:
    def __init__(self, status, state, info=None, ret=None):
        self.status, self.state, self.info, self.ret = status, state, info, ret


# ----------------------------------------------------------------------------------------------- executor
class Exec:
    def __init__(self, prog, stubs=None, loop_bound=12, max_paths=20000, timeout_ms=20000, follow_prefix='worldcoin/gnark-mbu'):
        self.funcs = prog['funcs']
        self.types = prog['types']
        self.methods = prog['methods']
        self.globals_t = prog['globals']
        self.tid_by_str = {t['str']: i for i, t in enumerate(self.types) if t}
        self.stubs = stubs or {}
        self.loop_bound = loop_bound
        self.max_paths = max_paths
        self.timeout_ms = timeout_ms
        self.follow_prefix = follow_prefix
        self.fresh = 0
        self.solver_calls = 0
        self.solver_time = 0.0
        self.results = []
        self.uf = {}
        self.checked_obligations = 0
        self.unwind_failures = []
        self.trace_calls = set()
        self.incomplete = None
        self.time_budget = int(os.environ.get('GOSYM_TIME_BUDGET', '600'))

    # ---- types
    def T(self, tid):
        return self.types[tid]

    def under(self, tid):
        t = self.types[tid]
        n = 0
        while t['kind'] == 'named':
            t = self.types[t['under']]
            n += 1
            if n > 50:
                raise Unsupported('cyclic named type %s' % self.types[tid]['str'])
        return t

    def tname(self, tid):
        return self.types[tid]['str']

    def isbig(self, tid):
        return self.types[tid]['str'] == 'math/big.Int'

    def zero(self, tid):
        if self.isbig(tid):
            return Big(bvval(0, BIG))
        t = self.under(tid)
        k = t['kind']
        if k == 'basic':
            b = t['basic']
            if b == 'int':
                return bvval(0, t['bits'])
            if b == 'bool':
                return z3.BoolVal(False)
            if b == 'string':
                return S('')
            if b == 'float':
                return Opaque('float', v=0.0)
            return NIL
        if k == 'struct':
            return Struct([self.zero(f['type']) for f in t['fields']])
        if k == 'array':
            return Array([self.zero(t['elem'])] * t['len'])
        return NIL

    def newsym(self, base):
        self.fresh += 1
        return '%s!%d' % (base, self.fresh)

    # ---- solver
    def check(self, pc, extra=()):
        s = z3.Solver()
        s.set('timeout', self.timeout_ms)
        for c in pc:
            s.add(c)
        for c in extra:
            s.add(c)
        t = time.time()
        r = s.check()
        self.solver_calls += 1
        self.solver_time += time.time() - t
        if os.environ.get('GOSYM_TRACE') and time.time() - t > 1.0:
            print('[gosym] slow solver call %.1fs -> %s (pc=%d) in %s' % (time.time() - t, r, len(pc), getattr(self, 'cur_pos', '?')), flush=True)
        return str(r), s

    def feasible(self, st, cond):
        c = z3.simplify(cond)
        if z3.is_true(c):
            return True
        if z3.is_false(c):
            return False
        r, _ = self.check(st.pc, [c])
        if r == 'unknown':
            raise Unsupported('solver unknown on a branch feasibility query')
        return r == 'sat'

    def must(self, st, cond):
        """cond holds on every model of the path condition"""
        c = z3.simplify(cond)
        if z3.is_true(c):
            return True
        return not self.feasible(st, z3.Not(c))

    # ---- heap access
    def load(self, st, p, pos=None):
        if isinstance(p, Opaque):
            return p
        if not isinstance(p, Ptr):
            raise PathEnd('panic', 'nil pointer dereference at %s' % pos)
        v = st.heap[p.obj]
        for k in p.path:
            v = v.f[k] if isinstance(v, Struct) else v.e[k]
        return v

    def store(self, st, p, val, pos=None):
        if not isinstance(p, Ptr):
            raise PathEnd('panic', 'nil pointer dereference (store) at %s' % pos)
        if st.obj_epoch.get(p.obj, 0) < st.epoch:
            st.events.append(('shared_write', p.obj, p.path, pos))
        elif st.track_all:
            st.events.append(('priv_write', p.obj, p.path, pos))

        def upd(v, path):
            if not path:
                return val
            k = path[0]
            if isinstance(v, Struct):
                f = list(v.f)
                f[k] = upd(f[k], path[1:])
                return Struct(f)
            e = list(v.e)
            e[k] = upd(e[k], path[1:])
            return Array(e)
        st.heap[p.obj] = upd(st.heap[p.obj], p.path)

    # ---- evaluation of operands
    def const(self, c):
        tid = c['t']
        t = self.under(tid)
        if c.get('nil'):
            if self.isbig(tid):
                return Big(bvval(0, BIG))
            if t['kind'] == 'basic' or t['kind'] in ('struct', 'array'):
                return self.zero(tid)
            return NIL
        if t['kind'] == 'basic':
            b = t['basic']
            if b == 'int':
                return bvval(int(c['v']), t['bits'])
            if b == 'bool':
                return z3.BoolVal(bool(c['v']))
            if b == 'string':
                return S(c['v'])
            if b == 'float':
                return Opaque('float', v=c['v'])
        raise Unsupported('constant of type %s' % self.tname(tid))

    def ev(self, st, fr, v):
        k = v['k']
        if k == 'local':
            if v['n'] not in fr.regs:
                raise Unsupported('read of undefined register %s in %s' % (v['n'], fr.fn['name']))
            return fr.regs[v['n']]
        if k == 'const':
            return self.const(v)
        if k == 'global':
            if v['n'] not in st.globals:
                st.globals[v['n']] = st.alloc(self.global_init(st, v['n']))
                st.obj_epoch[st.globals[v['n']]] = -1
            return Ptr(st.globals[v['n']])
        if k == 'func':
            return Func(v['n'])
        if k == 'freevar':
            return fr.regs['$fv:' + v['n']]
        if k == 'builtin':
            return Func('builtin:' + v['n'])
        raise Unsupported('operand kind ' + k)

    def global_init(self, st, name):
        h = self.stubs.get('global:' + name)
        if h is not None:
            return h(self, st)
        return self.zero(self.globals_t[name])

    # ---- running
    def run(self, entry, args=(), state=None, on_end=None):
        st = state or State()
        fn = self.funcs[entry]
        fr = Frame(fn)
        for p, a in zip(fn['params'], args):
            fr.regs[p['n']] = a
        st.frames.append(fr)
        # package initialiser of the entry's package runs first (other packages' init functions are no-ops)
        initname = entry.rsplit('.', 1)[0] + '.init'
        if initname in self.funcs and not getattr(self, 'skip_init', False):
            fi = Frame(self.funcs[initname])
            fi.ret_to = ('defer', None)
            st.frames.append(fi)
            # ... and before it the initialisers of the module's own library packages it depends on (package-level state such as
            # semaphores or caches lives there); third-party packages' initialisers stay no-ops
            for other in [self.follow_prefix + '/prover.init', self.follow_prefix + '/server.init']:
                if other in self.funcs and other != initname:
                    fo = Frame(self.funcs[other])
                    fo.ret_to = ('defer', None)
                    st.frames.append(fo)
        work = [st]
        self.results = []
        t_start = time.time()
        while work:
            if time.time() - t_start > self.time_budget:
                self.incomplete = 'time budget of %ds exceeded after %d finished paths (%d pending)' % (self.time_budget, len(self.results), len(work))
                break
            if len(self.results) + len(work) > self.max_paths:
                self.incomplete = 'path budget exceeded (%d)' % self.max_paths
                break
            s = work.pop()
            try:
                forks = self.step_until_fork(s)
                work.extend(forks)
            except PathEnd as e:
                self.results.append(Result(e.status, s, e.info, getattr(e, 'ret', None)))
        return self.results

    def run_threads(self, result, max_states=64):
        """after the main thread of a path has finished: run every goroutine it (transitively) spawned to completion, one after the
        other, on the same heap (they communicate only through channel/server events, which are recorded, not executed).
        Nondeterministic stub outcomes inside a goroutine fork the exploration. Returns the list of final states."""
        finals = []
        work = [(result.state, 0)]
        while work:
            st, done = work.pop()
            ths = st.heap.get(('threads',), ())
            if done >= len(ths):
                st.tid = 0
                finals.append(st)
                if len(finals) > max_states:
                    raise Unsupported('too many goroutine outcome combinations')
                continue
            tid, target, args, pos = ths[done]
            st.tid = tid
            st.frames = []
            dummy = Frame({'name': 'goroutine#%d' % tid, 'blocks': [{'index': 0, 'instrs': [{'op': 'Return', 'results': []}], 'preds': [], 'succs': []}], 'params': [], 'freevars': []})
            st.frames.append(dummy)
            live = []
            try:
                out = self.invoke_value(st, dummy, target, list(args), ret_to=('defer', None), pos=pos)
                live = list(out) if out is not None else [st]
            except PathEnd as e:
                if e.status != 'ok':
                    st.events.append(('cev', tid, 'abort', e.status, str(e.info), None))
                work.append((st, done + 1))
                continue
            while live:
                s2 = live.pop()
                s2.tid = tid
                try:
                    forks = self.step_until_fork(s2)
                    for f in forks:
                        f.tid = tid
                    live.extend(forks)
                except PathEnd as e:
                    if e.status != 'ok':
                        s2.events.append(('cev', tid, 'abort', e.status, str(e.info), None))
                    work.append((s2, done + 1))
        return finals

    def step_until_fork(self, st):
        """execute instructions of state st until it ends (PathEnd) or forks (returns list of successor states)"""
        while True:
            fr = st.frames[-1]
            blk = fr.fn['blocks'][fr.block]
            if fr.idx >= len(blk['instrs']):
                raise Unsupported('fell off block %d of %s' % (fr.block, fr.fn['name']))
            ins = blk['instrs'][fr.idx]
            self.cur_pos = ins.get('pos') or self.cur_pos if hasattr(self, 'cur_pos') else ins.get('pos')
            out = self.exec_instr(st, fr, ins)
            if out is not None:
                return out

    def jump(self, fr, to):
        fr.prev, fr.block, fr.idx = fr.block, to, 0
        fr.visits[to] = fr.visits.get(to, 0) + 1
        if fr.visits[to] > self.loop_bound:
            self.unwind_failures.append((fr.fn['name'], to))
            raise PathEnd('unwind', 'loop bound %d exceeded in %s block %d' % (self.loop_bound, fr.fn['name'], to))

    def exec_instr(self, st, fr, ins):
        op = ins['op']
        h = getattr(self, 'op_' + op, None)
        if h is None:
            raise Unsupported('instruction %s at %s' % (op, ins.get('pos')))
        return h(st, fr, ins)

    def setreg(self, fr, ins, v):
        fr.regs[ins['name']] = v
        fr.idx += 1

    # ---- instructions
    def op_Alloc(self, st, fr, ins):
        o = st.alloc(self.zero(ins['elem']))
        self.setreg(fr, ins, Ptr(o))

    def op_Jump(self, st, fr, ins):
        self.jump(fr, fr.fn['blocks'][fr.block]['succs'][0])

    def op_If(self, st, fr, ins):
        c = z3.simplify(self.ev(st, fr, ins['cond']))
        succ = fr.fn['blocks'][fr.block]['succs']
        if z3.is_true(c):
            self.jump(fr, succ[0])
            return
        if z3.is_false(c):
            self.jump(fr, succ[1])
            return
        ft, ff = self.feasible(st, c), self.feasible(st, z3.Not(c))
        if ft and not ff:
            st.pc.append(c)
            self.jump(fr, succ[0])
            return
        if ff and not ft:
            st.pc.append(z3.Not(c))
            self.jump(fr, succ[1])
            return
        if not ft and not ff:
            raise PathEnd('infeasible')
        s2 = st.clone()
        st.pc.append(c)
        s2.pc.append(z3.Not(c))
        live = []
        for s, to in ((s2, succ[1]), (st, succ[0])):
            try:
                self.jump(s.frames[-1], to)
                live.append(s)
            except PathEnd as e:
                self.results.append(Result(e.status, s, e.info))
        return live

    def op_Phi(self, st, fr, ins):
        preds = fr.fn['blocks'][fr.block]['preds']
        blk = fr.fn['blocks'][fr.block]['instrs']
        # all phis of a block read their operands simultaneously
        i = fr.idx
        vals = []
        while i < len(blk) and blk[i]['op'] == 'Phi':
            e = blk[i]['edges'][preds.index(fr.prev)]
            vals.append((blk[i]['name'], self.ev(st, fr, e)))
            i += 1
        for n, v in vals:
            fr.regs[n] = v
        fr.idx = i

    def op_Return(self, st, fr, ins):
        vals = [self.ev(st, fr, r) for r in ins['results']]
        self.do_return(st, vals)

    def do_return(self, st, vals):
        fr = st.frames.pop()
        ret = vals[0] if len(vals) == 1 else (tuple(vals) if vals else None)
        if self.trace_calls and any(fr.fn['name'].endswith(t) for t in self.trace_calls):
            st.events.append(('ret', fr.fn['name'], ret))
        if not st.frames:
            e = PathEnd('ok')
            e.ret = ret
            raise e
        caller = st.frames[-1]
        if fr.ret_to is not None:
            kind, payload = fr.ret_to
            if kind == 'reg':
                caller.regs[payload] = ret
                caller.idx += 1
            elif kind == 'defer':
                pass       # continue running defers of the caller: handled by op_RunDefers re-entry
            elif kind == 'cont':
                payload(st, ret)

    def op_RunDefers(self, st, fr, ins):
        if fr.defers:
            call = fr.defers.pop()
            # re-execute RunDefers after the deferred call returns
            self.invoke_value(st, fr, call[0], call[1], ret_to=('defer', None), pos=ins.get('pos'))
            return
        fr.idx += 1

    def op_Defer(self, st, fr, ins):
        fn, args = self.resolve_call(st, fr, ins['call'])
        fr.defers.append((fn, args))
        fr.idx += 1

    def op_Panic(self, st, fr, ins):
        v = self.ev(st, fr, ins['x'])
        raise PathEnd('panic', 'explicit panic at %s: %r' % (ins.get('pos'), v))

    def op_Store(self, st, fr, ins):
        p = self.ev(st, fr, ins['addr'])
        v = self.ev(st, fr, ins['val'])
        self.store(st, p, v, ins.get('pos'))
        fr.idx += 1

    def op_UnOp(self, st, fr, ins):
        x = self.ev(st, fr, ins['x'])
        u = ins['unop']
        if u == '*':
            if isinstance(x, Ptr) and st.obj_epoch.get(x.obj, 0) < st.epoch:
                st.events.append(('shared_read', x.obj, x.path, ins.get('pos')))
            elif isinstance(x, Ptr) and st.track_all:
                st.events.append(('priv_read', x.obj, x.path, ins.get('pos')))
            self.setreg(fr, ins, self.load(st, x, ins.get('pos')))
        elif u == '!':
            self.setreg(fr, ins, z3.simplify(z3.Not(x)))
        elif u == '-':
            self.setreg(fr, ins, z3.simplify(-x))
        elif u == '^':
            self.setreg(fr, ins, z3.simplify(~x))
        elif u == '<-':
            return self.chan_recv(st, fr, ins, x)
        else:
            raise Unsupported('unop ' + u)

    def chan_recv(self, st, fr, ins, ch):
        h = self.stubs.get('chan:recv')
        if h is None:
            raise Unsupported('channel receive at %s' % ins.get('pos'))
        return h(self, st, fr, ins, ch)

    def intinfo(self, tid):
        t = self.under(tid)
        if t['kind'] == 'basic' and t['basic'] == 'int':
            return t['bits'], t['signed']
        return None

    def op_BinOp(self, st, fr, ins):
        x = self.ev(st, fr, ins['x'])
        y = self.ev(st, fr, ins['y'])
        o = ins['binop']
        xt = ins['x'].get('t', ins['y'].get('t'))
        self.setreg(fr, ins, self.binop(st, o, x, y, xt, ins['y'].get('t'), ins))

    def binop(self, st, o, x, y, xt, yt, ins):
        info = self.intinfo(xt) if xt is not None else None
        if isinstance(x, Str) or isinstance(y, Str):
            if o in ('==', '!='):
                r = self.str_eq(x, y)
                return z3.simplify(r if o == '==' else z3.Not(r))
            if o == '+':
                if y.num is not None and y.num[1] == '16z':      # hex digits with leading zeros trimmed: "" for zero
                    if self.must(st, y.num[2] != 0):
                        y = Str(num=(y.num[0], 16, y.num[2]))
                    elif self.must(st, y.num[2] == 0):
                        y = S('')
                    else:
                        raise Unsupported('concatenation with zero-trimmed hex digits whose value may or may not be zero')
                if x.num is None and x.parts is None and y.num is not None and y.num[0] == '' and y.num[1] == 16:
                    zx = z3.simplify(x.z)
                    if z3.is_string_value(zx) and zx.as_string() == '0x':
                        return Str(num=('0x', 16, y.num[2]))
                if x.num is not None or y.num is not None or x.parts is not None or y.parts is not None:
                    return Str(parts=self.str_parts(x) + self.str_parts(y))
                return Str(z3.Concat(self.zstr(x), self.zstr(y)))
            raise Unsupported('string op ' + o)
        if info:
            bits, signed = info
            if o in ('<<', '>>'):
                yb = self.intinfo(yt)[0]
                if yb < bits:
                    y = z3.ZeroExt(bits - yb, y)
                elif yb > bits:
                    big = z3.UGE(y, bits)
                    y = z3.If(big, bvval(bits, bits), z3.Extract(bits - 1, 0, y))
                if o == '<<':
                    r = x << y
                else:
                    r = (x >> y) if signed else z3.LShR(x, y)
                return z3.simplify(r)
            tbl = {'+': lambda: x + y, '-': lambda: x - y, '*': lambda: x * y, '&': lambda: x & y, '|': lambda: x | y, '^': lambda: x ^ y, '&^': lambda: x & ~y,
                   '==': lambda: x == y, '!=': lambda: x != y,
                   '<': lambda: (x < y) if signed else z3.ULT(x, y), '<=': lambda: (x <= y) if signed else z3.ULE(x, y),
                   '>': lambda: (x > y) if signed else z3.UGT(x, y), '>=': lambda: (x >= y) if signed else z3.UGE(x, y)}
            if o in ('/', '%'):
                if not self.must(st, y != 0):
                    raise PathEnd('panic', 'integer divide by zero possible at %s' % ins.get('pos'))
                if o == '/':
                    return z3.simplify((x / y) if signed else z3.UDiv(x, y))
                return z3.simplify(z3.SRem(x, y) if signed else z3.URem(x, y))
            if o in tbl:
                return z3.simplify(tbl[o]())
            raise Unsupported('int binop ' + o)
        if z3.is_bool(x) and z3.is_bool(y):
            if o == '==':
                return z3.simplify(x == y)
            if o == '!=':
                return z3.simplify(x != y)
            if o == '&&':
                return z3.simplify(z3.And(x, y))
            if o == '||':
                return z3.simplify(z3.Or(x, y))
        if o in ('==', '!='):
            r = self.ref_eq(x, y)
            return z3.simplify(r if o == '==' else z3.Not(r))
        raise Unsupported('binop %s on %r,%r' % (o, x, y))

    def ref_eq(self, x, y):
        """equality of pointers / interfaces / nil"""
        def isnil(v):
            return v is NIL or v is None
        if isinstance(x, Iface) and x.t == -1:
            x = x.v
        if isinstance(y, Iface) and y.t == -1:
            y = y.v
        if isnil(x) or isnil(y):
            a = y if isnil(x) else x
            if isnil(a):
                return z3.BoolVal(True)
            if isinstance(a, Slice):
                return z3.BoolVal(a.obj is None)
            if isinstance(a, Opaque) and getattr(a, 'nilcond', None) is not None:
                return a.nilcond
            return z3.BoolVal(False)
        if isinstance(x, Ptr) and isinstance(y, Ptr):
            return z3.BoolVal(x == y)
        if isinstance(x, Iface) and isinstance(y, Iface):
            if x.t != y.t:
                return z3.BoolVal(False)
            return self.ref_eq(x.v, y.v)
        if isinstance(x, Opaque) and isinstance(y, Opaque):
            return z3.BoolVal(x is y)
        raise Unsupported('equality of %r and %r' % (x, y))

    def zstr(self, s):
        if s.num is not None or s.parts is not None:
            raise Unsupported('numeric string used as a plain string')
        return s.z

    def str_parts(self, s):
        if s.parts is not None:
            return list(s.parts)
        if s.num is not None:
            return [('num',) + tuple(s.num)]
        z = z3.simplify(s.z)
        if not z3.is_string_value(z):
            raise Unsupported('concatenation of a numeric string with a symbolic string')
        return [('lit', z.as_string())] if z.as_string() else []

    def parts_eq(self, xp, yp):
        """equality of two concatenations of literals and number texts. Exact when the text splits uniquely (every number is followed by a
        literal that starts with a non-digit, or ends the string) or when it is a plain sequence of hexadecimal texts (compared as digit
        strings: lengths and nibbles); otherwise unsupported."""
        def norm(ps):
            out = []
            for p in ps:
                if p[0] == 'lit' and out and out[-1][0] == 'lit':
                    out[-1] = ('lit', out[-1][1] + p[1])
                elif p[0] == 'num' and p[1]:
                    out += [('lit', p[1]), ('num', '', p[2], p[3])]
                    if len(out) > 2 and out[-3][0] == 'lit':
                        out[-3:-1] = [('lit', out[-3][1] + out[-2][1])]
                else:
                    out.append(p)
            return out
        xp, yp = norm(xp), norm(yp)
        shape = lambda ps: [(p[0], p[1] if p[0] == 'lit' else p[2]) for p in ps]
        alphabet = '0123456789abcdefABCDEFxX'
        unique = all(not (p[0] == 'num' and i + 1 < len(ps) and (ps[i + 1][0] == 'num' or ps[i + 1][1][0] in alphabet)) for ps in (xp, yp) for i, p in enumerate(ps))
        if shape(xp) == shape(yp) and unique:
            return z3.And(*[a[3] == b[3] for a, b in zip(xp, yp) if a[0] == 'num']) if any(a[0] == 'num' for a in xp) else z3.BoolVal(True)
        if all(p[0] == 'num' and p[2] == 16 for p in xp + yp) and len(xp) <= 3 and len(yp) <= 3:
            W = BIG * max(len(xp), len(yp))

            def digits(ps):
                total, ln = z3.BitVecVal(0, W), z3.BitVecVal(0, W)
                for p in ps:
                    v = z3.ZeroExt(W - BIG, p[3])
                    L = z3.BitVecVal(1, W)
                    for k in range(2, BIG // 4 + 1):
                        L = z3.If(z3.LShR(v, 4 * (k - 1)) != 0, z3.BitVecVal(k, W), L)
                    total = (total << (4 * L)) | v
                    ln = ln + L
                return total, ln
            (tx, lx), (ty, ly) = digits(xp), digits(yp)
            return z3.And(tx == ty, lx == ly)
        raise Unsupported('comparison of concatenated number texts of shapes %s and %s' % (shape(xp), shape(yp)))

    def str_eq(self, x, y):
        if x.parts is not None or y.parts is not None:
            return self.parts_eq(self.str_parts(x), self.str_parts(y))
        if x.num is not None or y.num is not None:
            if x.num is not None and y.num is not None:
                return z3.And(z3.BoolVal(x.num[0] == y.num[0] and x.num[1] == y.num[1]), x.num[2] == y.num[2])
            other = y if x.num is not None else x
            me = x if x.num is not None else y
            oz = z3.simplify(other.z)
            if me.num[1] == '16z' and z3.is_string_value(oz) and oz.as_string() == '':
                return me.num[2] == 0
            if z3.is_string_value(oz) and go_number_like(oz.as_string()) is False:
                return z3.BoolVal(False)       # e.g. comparison with "" or a non-numeric literal
            raise Unsupported('comparison of a numeric string with %s' % oz)
        return x.z == y.z

    def op_Convert(self, st, fr, ins):
        x = self.ev(st, fr, ins['x'])
        src, dst = ins['x'].get('t'), ins['type']
        si, di = self.intinfo(src), self.intinfo(dst)
        if si and di:
            sb, ss = si
            db, _ = di
            if db == sb:
                r = x
            elif db < sb:
                r = z3.Extract(db - 1, 0, x)
            else:
                r = z3.SignExt(db - sb, x) if ss else z3.ZeroExt(db - sb, x)
            self.setreg(fr, ins, z3.simplify(r))
            return
        ds, ss_ = self.under(dst), self.under(src)
        if ds['kind'] == 'basic' and ds.get('basic') == 'string' and ss_['kind'] == 'slice':
            self.setreg(fr, ins, self.bytes_to_string(st, x))
            return
        if ds['kind'] == 'slice' and ss_['kind'] == 'basic' and ss_.get('basic') == 'string':
            self.setreg(fr, ins, self.string_to_bytes(st, x))
            return
        if ds['kind'] == ss_['kind']:
            self.setreg(fr, ins, x)
            return
        raise Unsupported('convert %s -> %s' % (self.tname(src), self.tname(dst)))

    def bytes_to_string(self, st, x):
        h = self.stubs.get('conv:bytes2string')
        if h:
            return h(self, st, x)
        raise Unsupported('[]byte -> string')

    def string_to_bytes(self, st, x):
        h = self.stubs.get('conv:string2bytes')
        if h:
            return h(self, st, x)
        raise Unsupported('string -> []byte')

    def op_ChangeType(self, st, fr, ins):
        self.setreg(fr, ins, self.ev(st, fr, ins['x']))

    def op_ChangeInterface(self, st, fr, ins):
        self.setreg(fr, ins, self.ev(st, fr, ins['x']))

    def op_MakeInterface(self, st, fr, ins):
        self.setreg(fr, ins, Iface(ins['xtype'], self.ev(st, fr, ins['x'])))

    def op_MakeClosure(self, st, fr, ins):
        binds = [self.ev(st, fr, b) for b in ins['bindings']]
        self.setreg(fr, ins, Func(ins['fn']['n'], binds))

    def op_MakeMap(self, st, fr, ins):
        o = st.alloc(MapVal())
        self.setreg(fr, ins, Ptr(o))

    def op_MapUpdate(self, st, fr, ins):
        m = self.ev(st, fr, ins['map'])
        k = self.ev(st, fr, ins['key'])
        v = self.ev(st, fr, ins['value'])
        if not isinstance(m, Ptr):
            raise PathEnd('panic', 'assignment to entry in nil map at %s' % ins.get('pos'))
        mv = st.heap[m.obj]
        st.heap[m.obj] = MapVal(mv.items + [(k, v)])
        self.touch_obj(st, m.obj, 'w', ins)
        fr.idx += 1

    def op_MakeChan(self, st, fr, ins):
        h = self.stubs.get('chan:make')
        if h is None:
            raise Unsupported('make(chan) at %s' % ins.get('pos'))
        self.setreg(fr, ins, h(self, st, ins, self.ev(st, fr, ins['size']) if ins.get('size') else None))

    def op_Send(self, st, fr, ins):
        h = self.stubs.get('chan:send')
        if h is None:
            raise Unsupported('instruction Send at %s' % ins.get('pos'))
        h(self, st, self.ev(st, fr, ins['chan']), self.ev(st, fr, ins['x']), ins)
        fr.idx += 1

    def op_Go(self, st, fr, ins):
        h = self.stubs.get('go')
        if h is None:
            raise Unsupported('go statement at %s' % ins.get('pos'))
        fn, args = self.resolve_call(st, fr, ins['call'])
        h(self, st, fn, args, ins)
        fr.idx += 1

    def op_MakeSlice(self, st, fr, ins):
        n = self.ev(st, fr, ins['len'])
        t = self.under(ins['type'])
        elem = t['elem']
        nc = conc(n)
        if nc is not None:
            if nc > 4096:
                raise Unsupported('make of %d elements' % nc)
            o = st.alloc(Array([self.zero(elem)] * nc))
            self.setreg(fr, ins, Slice(o, 0, nc, nc))
            return
        # symbolic length: capacity = smallest bound the path condition implies (searched up to loop_bound)
        bits = n.size()
        cap = None
        for k in (self.loop_bound, 32, 64, BYTECAP):
            if self.must(st, z3.ULE(n, bvval(k, bits))):
                cap = k
                break
        if cap is None:
            self.unwind_failures.append((fr.fn['name'], 'make'))
            raise PathEnd('unwind', 'make([]T, n): n not bounded by %d at %s' % (self.loop_bound, ins.get('pos')))
        o = st.alloc(Array([self.zero(elem)] * cap))
        n64 = z3.ZeroExt(64 - bits, n) if bits < 64 else n
        self.setreg(fr, ins, Slice(o, 0, z3.simplify(n64), cap, 0, cap))

    def slen(self, s):
        if s is NIL:
            return 0
        return s.len

    def zlen(self, s):
        l = self.slen(s)
        return bvval(l, 64) if isinstance(l, int) else l

    def op_Slice(self, st, fr, ins):
        x = self.ev(st, fr, ins['x'])
        lo = self.ev(st, fr, ins['low']) if ins.get('low') else None
        hi = self.ev(st, fr, ins['high']) if ins.get('high') else None
        xt = self.under(ins['x']['t'])
        if isinstance(x, Str):
            raise Unsupported('string slicing')
        if xt['kind'] == 'ptr':     # pointer to array
            arr = self.load(st, x, ins.get('pos'))
            n = len(arr.e)
            base = Slice(('ptr', x), 0, n, n)
            lo_c = conc(lo) if lo is not None else 0
            hi_c = conc(hi) if hi is not None else n
            if lo_c is None and hi_c is not None:
                # symbolic low bound with a small range: fork on its value
                outs = []
                for v in range(0, n + 1):
                    c = lo == bvval(v, lo.size())
                    if self.feasible(st, c):
                        s2 = st.clone()
                        s2.pc.append(c)
                        f2 = s2.frames[-1]
                        if v > hi_c:
                            self.results.append(Result('panic', s2, 'slice bounds out of range at %s' % ins.get('pos')))
                            continue
                        f2.regs[ins['name']] = Slice(('ptr', x), v, hi_c - v, n - v)
                        f2.idx += 1
                        outs.append(s2)
                if self.feasible(st, z3.UGT(lo, bvval(n, lo.size()))):
                    self.results.append(Result('panic', st, 'slice bounds out of range possible at %s' % ins.get('pos')))
                return outs
            if lo_c is None or hi_c is None:
                raise Unsupported('symbolic slice bounds on array')
            if not (0 <= lo_c <= hi_c <= n):
                raise PathEnd('panic', 'slice bounds out of range at %s' % ins.get('pos'))
            self.setreg(fr, ins, Slice(('ptr', x), lo_c, hi_c - lo_c, n - lo_c))
            return
        if x is NIL:
            x = Slice(None, 0, 0, 0)
        lo_c = conc(lo) if lo is not None else 0
        if lo_c is None:
            # symbolic low bound: one successor per feasible value within the slice's capacity (the instruction is re-executed with
            # the bound pinned); values beyond the capacity are a bounds panic
            if ins['low']['k'] != 'local' or x.cap > 256:
                raise Unsupported('symbolic low slice bound at %s' % ins.get('pos'))
            top = min(x.cap, x.hi if isinstance(x.hi, int) else x.cap)
            outs = []
            for v in range(0, top + 1):
                c = lo == bvval(v, lo.size())
                if self.feasible(st, c):
                    s2 = st.clone()
                    s2.pc.append(c)
                    s2.frames[-1].regs[ins['low']['n']] = bvval(v, lo.size())
                    outs.append(s2)
            if self.feasible(st, z3.UGT(lo, bvval(top, lo.size()))):
                self.results.append(Result('panic', st, 'slice bounds out of range possible at %s' % ins.get('pos')))
            return outs
        if hi is None:
            newlen = x.len - lo_c if isinstance(x.len, int) else z3.simplify(x.len - lo_c)
            if isinstance(x.len, int):
                if lo_c > x.len:
                    raise PathEnd('panic', 'slice bounds out of range at %s' % ins.get('pos'))
            elif not self.must(st, z3.UGE(x.len, bvval(lo_c, 64))):
                raise PathEnd('panic', 'slice bounds out of range possible at %s' % ins.get('pos'))
            self.setreg(fr, ins, Slice(x.obj, x.off + lo_c, newlen, x.cap - lo_c, max(0, x.lo - lo_c), x.hi - lo_c))
            return
        hi_c = conc(hi)
        if hi_c is None:
            # x[lo:hi] with symbolic hi: length hi-lo, must stay within the capacity (else a panic path)
            hi64 = hi if hi.size() == 64 else z3.ZeroExt(64 - hi.size(), hi)
            if not self.must(st, z3.And(z3.ULE(hi64, bvval(x.cap, 64)), z3.UGE(hi64, bvval(lo_c, 64)))):
                raise PathEnd('panic', 'slice bounds out of range possible at %s' % ins.get('pos'))
            self.setreg(fr, ins, Slice(x.obj, x.off + lo_c, z3.simplify(hi64 - lo_c), x.cap - lo_c, 0, x.cap - lo_c))
            return
        if not (0 <= lo_c <= hi_c <= x.cap):
            raise PathEnd('panic', 'slice bounds out of range at %s' % ins.get('pos'))
        self.setreg(fr, ins, Slice(x.obj, x.off + lo_c, hi_c - lo_c, x.cap - lo_c))

    def slice_cell_ptr(self, s, i):
        if isinstance(s.obj, tuple) and s.obj[0] == 'ptr':
            p = s.obj[1]
            return Ptr(p.obj, p.path + (s.off + i,))
        return Ptr(s.obj, (s.off + i,))

    def op_IndexAddr(self, st, fr, ins):
        x = self.ev(st, fr, ins['x'])
        i = self.ev(st, fr, ins['index'])
        ic = conc(i)
        xt = self.under(ins['x']['t'])
        if xt['kind'] == 'ptr':        # *[N]T
            if not isinstance(x, Ptr):
                raise PathEnd('panic', 'nil pointer dereference at %s' % ins.get('pos'))
            n = self.under(xt['elem'])['len']
            if ic is None:
                raise Unsupported('symbolic array index at %s' % ins.get('pos'))
            sic = sconc(i, i.size()) if not isinstance(i, int) else i
            if not (0 <= sic < n):
                raise PathEnd('panic', 'index out of range [%d] with length %d at %s' % (sic, n, ins.get('pos')))
            self.setreg(fr, ins, Ptr(x.obj, x.path + (ic,)))
            return
        if x is NIL:
            x = Slice(None, 0, 0, 0)
        if ic is None:
            raise Unsupported('symbolic slice index at %s' % ins.get('pos'))
        sic = sconc(i, i.size()) if not isinstance(i, int) else i
        self.bounds(st, x, sic, ins)
        self.setreg(fr, ins, self.slice_cell_ptr(x, sic))

    def bounds(self, st, s, i, ins):
        self.checked_obligations += 1
        if i < 0:
            raise PathEnd('panic', 'negative index at %s' % ins.get('pos'))
        if isinstance(s.len, int):
            if i >= s.len:
                raise PathEnd('panic', 'index out of range [%d] with length %d at %s' % (i, s.len, ins.get('pos')))
            return
        if i >= s.cap or not self.must(st, z3.UGT(s.len, bvval(i, 64))):
            r, sol = self.check(st.pc, [z3.ULE(s.len, bvval(i, 64))]) if i < s.cap else ('sat', None)
            e = PathEnd('panic', 'index out of range [%d] possible (symbolic length) at %s' % (i, ins.get('pos')))
            raise e

    def op_Index(self, st, fr, ins):
        x = self.ev(st, fr, ins['x'])
        i = conc(self.ev(st, fr, ins['index']))
        if isinstance(x, Array):
            if i is None:
                raise Unsupported('symbolic index into array value')
            self.setreg(fr, ins, x.e[i])
            return
        raise Unsupported('Index on %r' % (x,))

    def op_FieldAddr(self, st, fr, ins):
        x = self.ev(st, fr, ins['x'])
        if isinstance(x, Opaque):      # field of a library object: stays opaque
            self.setreg(fr, ins, Opaque('ext', callee='field#%d' % ins['field'], args=(x,), oid=id(x)))
            return
        if not isinstance(x, Ptr):
            raise PathEnd('panic', 'nil pointer dereference (field) at %s' % ins.get('pos'))
        self.setreg(fr, ins, Ptr(x.obj, x.path + (ins['field'],)))

    def op_Field(self, st, fr, ins):
        x = self.ev(st, fr, ins['x'])
        self.setreg(fr, ins, x.f[ins['field']])

    def op_Extract(self, st, fr, ins):
        x = self.ev(st, fr, ins['x'])
        self.setreg(fr, ins, x[ins['index']])

    def op_TypeAssert(self, st, fr, ins):
        x = self.ev(st, fr, ins['x'])
        at = ins['asserted']
        ok = isinstance(x, Iface) and (x.t == at or self.under(at)['kind'] == 'iface')
        if ins['commaok']:
            v = x.v if (ok and self.under(at)['kind'] != 'iface') else (x if ok else self.zero(at))
            self.setreg(fr, ins, (v, z3.BoolVal(bool(ok))))
            return
        if not ok:
            raise PathEnd('panic', 'type assertion failed at %s' % ins.get('pos'))
        self.setreg(fr, ins, x.v if self.under(at)['kind'] != 'iface' else x)

    def op_Select(self, st, fr, ins):
        h = self.stubs.get('chan:select')
        if h is None:
            raise Unsupported('select at %s' % ins.get('pos'))
        return h(self, st, fr, ins)

    def key_eq(self, a, b):
        if isinstance(a, Str) or isinstance(b, Str):
            return z3.simplify(self.str_eq(a, b))
        if z3.is_expr(a) or z3.is_expr(b):
            return z3.simplify(a == b)
        if isinstance(a, Iface) and isinstance(b, Iface):
            return self.key_eq(a.v, b.v) if a.t == b.t else z3.BoolVal(False)
        if isinstance(a, (int, bool)) and isinstance(b, (int, bool)):
            return z3.BoolVal(a == b)
        if isinstance(a, Struct) and isinstance(b, Struct) and len(a.f) == len(b.f):
            return z3.simplify(z3.And(*[self.key_eq(p, q) for p, q in zip(a.f, b.f)])) if a.f else z3.BoolVal(True)
        if isinstance(a, Array) and isinstance(b, Array) and len(a.e) == len(b.e):
            return z3.simplify(z3.And(*[self.key_eq(p, q) for p, q in zip(a.e, b.e)])) if a.e else z3.BoolVal(True)
        if isinstance(a, Ptr) and isinstance(b, Ptr):
            return z3.BoolVal(a.obj == b.obj and tuple(a.path) == tuple(b.path))
        if (a is NIL or isinstance(a, Ptr)) and (b is NIL or isinstance(b, Ptr)):
            return z3.BoolVal(a is b)
        raise Unsupported('map key comparison of %r and %r' % (a, b))

    def op_Lookup(self, st, fr, ins):
        """m[k] on a map kept as an update log (latest entry wins, TOMB = deleted): one successor state per entry the key can equal"""
        m = self.ev(st, fr, ins['x'])
        key = self.ev(st, fr, ins['index'])
        vt = ins['type']
        if ins.get('commaok'):
            tt = self.types[vt]
            vt = tt['elems'][0] if tt.get('kind') == 'tuple' else vt
        if m is NIL:
            items = []
        elif isinstance(m, Ptr) and isinstance(st.heap.get(m.obj), MapVal):
            items = st.heap[m.obj].items
        else:
            raise Unsupported('lookup on %r at %s' % (m, ins.get('pos')))
        if isinstance(m, Ptr):
            self.touch_obj(st, m.obj, 'r', ins)
        outs = []          # (conds, value, found)
        nots = []
        for k, v in reversed(items):
            c = self.key_eq(key, k)
            if z3.is_false(c):
                continue
            outs.append((nots + [c], v))
            if z3.is_true(c):
                break
            nots = nots + [z3.Not(c)]
        else:
            outs.append((nots, TOMB))
        live = []
        for i, (conds, v) in enumerate(outs):
            conds = [c for c in conds if not z3.is_true(c)]
            if conds and not self.feasible(st, z3.And(*conds) if len(conds) > 1 else conds[0]):
                continue
            live.append((conds, v))
        if not live:
            raise PathEnd('infeasible')
        states = [st] + [st.clone() for _ in live[1:]]
        for s, (conds, v) in zip(states, live):
            s.pc.extend(conds)
            found = v is not TOMB
            val = v if found else self.zero(vt)
            f = s.frames[-1]
            f.regs[ins['name']] = (val, z3.BoolVal(found)) if ins.get('commaok') else val
            f.idx += 1
        return states if len(states) > 1 else None

    def touch_obj(self, st, obj, kind, ins):
        if st.obj_epoch.get(obj, 0) < st.epoch:
            st.events.append(('shared_write' if kind == 'w' else 'shared_read', obj, (), ins.get('pos')))
        elif st.track_all:
            st.events.append(('priv_write' if kind == 'w' else 'priv_read', obj, (), ins.get('pos')))

    # ---- calls
    def resolve_call(self, st, fr, c):
        args = [self.ev(st, fr, a) for a in c['args']]
        if c.get('invoke'):
            recv = self.ev(st, fr, c['recv'])
            return ('invoke', c['method'], recv), args
        fnv = c['fn']
        if fnv['k'] == 'builtin':
            return ('builtin', fnv['n'], c), args
        if fnv['k'] == 'func':
            return ('static', fnv['n']), args
        f = self.ev(st, fr, fnv)
        return ('value', f), args

    def op_Call(self, st, fr, ins):
        target, args = self.resolve_call(st, fr, ins['call'])
        return self.invoke_value(st, fr, target, args, ret_to=('reg', ins['name']), pos=ins.get('pos'), ins=ins)

    def deliver(self, st, fr, ret_to, val):
        """a stub produced a value for the pending call of frame fr"""
        if ret_to[0] == 'reg':
            fr.regs[ret_to[1]] = val
            fr.idx += 1
        elif ret_to[0] == 'defer':
            pass
        elif ret_to[0] == 'cont':
            ret_to[1](st, val)

    def invoke_value(self, st, fr, target, args, ret_to, pos=None, ins=None):
        kind = target[0]
        if kind == 'builtin':
            v = self.builtin(st, fr, target[1], args, target[2], ins)
            self.deliver(st, fr, ret_to, v)
            return
        if kind == 'value':
            f = target[1]
            if not isinstance(f, Func):
                raise PathEnd('panic', 'call of nil function at %s' % pos)
            name, binds = f.name, f.binds
            if f.recv is not None:
                args = [f.recv] + args
        elif kind == 'static':
            name, binds = target[1], ()
        elif kind == 'invoke':
            meth, recv = target[1], target[2]
            if recv is NIL or recv is None:
                raise PathEnd('panic', 'invoke %s on nil interface at %s' % (meth, pos))
            if isinstance(recv, Opaque):
                return self.call_stub(st, fr, 'opaque:%s.%s' % (recv.tag, meth), [recv] + args, ret_to, pos, ins)
            if not isinstance(recv, Iface):
                raise Unsupported('invoke %s on %r at %s' % (meth, recv, pos))
            if isinstance(recv.v, Opaque):
                return self.call_stub(st, fr, 'opaque:%s.%s' % (recv.v.tag, meth), [recv.v] + args, ret_to, pos, ins)
            ms = self.methods.get(self.tname(recv.t), {})
            if meth not in ms:
                raise Unsupported('no method %s on %s at %s' % (meth, self.tname(recv.t), pos))
            name, binds = ms[meth], ()
            args = [recv.v] + args
        else:
            raise Unsupported('call kind ' + kind)
        base = name.rsplit('.', 1)[-1]
        if base == 'init' and kind == 'static':
            self.deliver(st, fr, ret_to, None)      # initialisers of imported packages: not modelled
            return
        if base.startswith('verif') and ('intr:' + base) in self.stubs:
            return self.call_stub(st, fr, name, args, ret_to, pos, ins, handler=self.stubs['intr:' + base])
        if name in self.stubs:
            return self.call_stub(st, fr, name, args, ret_to, pos, ins)
        fn = self.funcs.get(name)
        if fn is None:
            for pre, h in self.stubs.get('prefix', []):
                if name.startswith(pre):
                    return self.call_stub(st, fr, name, args, ret_to, pos, ins, handler=h)
            raise Unsupported('call of %s (no body, no stub) at %s' % (name, pos))
        if self.trace_calls and any(name.endswith(t) for t in self.trace_calls):
            st.events.append(('call', name))
        nf = Frame(fn)
        for p, a in zip(fn['params'], args):
            nf.regs[p['n']] = a
        for fv, b in zip(fn['freevars'] or [], binds):
            nf.regs['$fv:' + fv['n']] = b
        nf.ret_to = ret_to
        if len(st.frames) > 200:
            raise Unsupported('call depth')
        st.frames.append(nf)

    def call_stub(self, st, fr, name, args, ret_to, pos, ins, handler=None):
        h = handler or self.stubs.get(name)
        if h is None:
            for pre, hh in self.stubs.get('prefix', []):
                if name.startswith(pre):
                    h = hh
                    break
        if h is None:
            raise Unsupported('no stub for %s at %s' % (name, pos))
        out = h(self, st, args, {'name': name, 'pos': pos, 'ins': ins})
        if isinstance(out, tuple) and len(out) == 4 and out[0] == 'tailcall':
            post = out[3]
            caller = fr

            def cont(st2, val, ret_to=ret_to):
                self.deliver(st2, st2.frames[-1], ret_to, post(val) if post.__code__.co_argcount == 1 else post(st2, val))
            return self.invoke_value(st, fr, ('static', out[1]), out[2], ('cont', cont), pos, ins)
        if isinstance(out, tuple) and len(out) == 3 and out[0] == 'tailcall':
            # the stub delegates to a repo function (e.g. json.Marshal -> MarshalJSON method)
            return self.invoke_value(st, fr, ('static', out[1]), out[2], ret_to, pos, ins)
        if isinstance(out, tuple) and len(out) == 3 and out[0] == 'tailcallv':
            return self.invoke_value(st, fr, ('value', out[1]), out[2], ret_to, pos, ins)
        if isinstance(out, Forks):
            res = []
            for cond, val, mut in out.alts:
                if not self.feasible(st, cond):
                    continue
                s2 = st.clone()
                s2.pc.append(cond)
                if mut:
                    mut(s2)
                f2 = s2.frames[-1]
                self.deliver(s2, f2, ret_to, val(s2) if callable(val) else val)
                res.append(s2)
            if not res:
                raise PathEnd('infeasible')
            return res
        self.deliver(st, fr, ret_to, out)

    # ---- builtins
    def builtin(self, st, fr, name, args, c, ins):
        if name == 'len':
            x = args[0]
            if isinstance(x, Str) and x.num is not None:
                ln = z3.BitVec(self.newsym('numstrlen'), 64)      # digits of a number: at least one character
                st.pc.append(z3.And(z3.UGE(ln, bvval(1, 64)), z3.ULE(ln, bvval(80, 64))))
                return ln
            if isinstance(x, Str):
                h = self.stubs.get('builtin:len:string')
                if h:
                    return h(self, st, x)
                zs = z3.simplify(self.zstr(x))
                if z3.is_string_value(zs):
                    return bvval(len(zs.as_string().encode('utf-8', 'surrogatepass')), 64)
                # symbolic string: uninterpreted length with the one fact code relies on (empty <=> length 0); avoids int/bv/string mixing
                if 'strlen' not in self.uf:
                    self.uf['strlen'] = z3.Function('strlen', z3.StringSort(), z3.BitVecSort(64))
                ln = self.uf['strlen'](zs)
                st.pc.append((ln == 0) == (zs == z3.StringVal('')))
                st.pc.append(z3.ULT(ln, bvval(1 << 32, 64)))
                return ln
            if x is NIL:
                return bvval(0, 64)
            if isinstance(x, Slice):
                return self.zlen(x)
            if isinstance(x, Array):
                return bvval(len(x.e), 64)
            if isinstance(x, Ptr) and isinstance(st.heap.get(x.obj), MapVal):
                return bvval(len(st.heap[x.obj].items), 64)
            raise Unsupported('len of %r' % (x,))
        if name == 'cap':
            x = args[0]
            return bvval(0 if x is NIL else x.cap, 64)
        if name == 'append':
            return self.append(st, args[0], args[1], ins)
        if name == 'copy':
            return self.copy(st, args[0], args[1], ins)
        if name == 'delete':
            m, k = args[0], args[1]
            if isinstance(m, Ptr) and isinstance(st.heap.get(m.obj), MapVal):
                st.heap[m.obj] = MapVal(st.heap[m.obj].items + [(k, TOMB)])
                self.touch_obj(st, m.obj, 'w', ins)
            return None
        if name == 'close':
            h = self.stubs.get('chan:close')
            if h is None:
                raise Unsupported('close(chan)')
            h(self, st, args[0], ins)
            return None
        if name == 'ssa:wrapnilchk':
            if args[0] is NIL:
                raise PathEnd('panic', 'nil receiver')
            return args[0]
        raise Unsupported('builtin ' + name)

    def cells(self, st, s):
        """list of cell values of slice s up to its capacity"""
        if s is NIL or s.obj is None:
            return []
        if isinstance(s.obj, tuple):
            arr = self.load(st, s.obj[1])
        else:
            arr = st.heap[s.obj]
        return list(arr.e[s.off:s.off + s.cap])

    def append(self, st, a, b, ins):
        """append(a, b...): always yields a fresh backing array (no aliasing-dependent behaviour is modelled)"""
        ca = self.cells(st, a) if a is not NIL else []
        cb = self.cells(st, b) if b is not NIL else []
        la = 0 if a is NIL else a.len
        lb = 0 if b is NIL else b.len
        if isinstance(la, int) and isinstance(lb, int):
            newc = ca[:la] + cb[:lb]
            o = st.alloc(Array(newc))
            return Slice(o, 0, la + lb, len(newc))
        alo, ahi = (la, la) if isinstance(la, int) else (a.lo, a.hi)
        blo, bhi = (lb, lb) if isinstance(lb, int) else (b.lo, b.hi)
        cap = ahi + bhi
        if cap > BYTECAP * 4:
            raise Unsupported('append: capacity %d too large' % cap)
        zla = bvval(la, 64) if isinstance(la, int) else la
        zlb = bvval(lb, 64) if isinstance(lb, int) else lb
        sample = (ca + cb)[0] if (ca + cb) else None
        if sample is None or not z3.is_bv(sample):
            raise Unsupported('append with symbolic length of non-integer elements at %s' % (ins or {}).get('pos'))
        zero = bvval(0, sample.size())
        newc = []
        for k in range(cap):
            # element k of the result: a[k] if k < len(a) else b[k - len(a)]
            v = zero
            for la_v in range(ahi, alo - 1, -1):
                j = k - la_v
                if 0 <= j < len(cb) and j < bhi:
                    v = z3.If(zla == la_v, cb[j], v) if alo != ahi else cb[j]
            if k < len(ca) and k < ahi:
                v = z3.If(z3.UGT(zla, bvval(k, 64)), ca[k], v) if not isinstance(la, int) else (ca[k] if k < la else v)
            newc.append(z3.simplify(v))
        o = st.alloc(Array(newc))
        res = Slice(o, 0, z3.simplify(zla + zlb), cap, alo + blo, ahi + bhi)
        if res.hi - res.lo >= 16:
            self.tighten(st, res)
        return res

    def tighten(self, st, s):
        """narrow the syntactic length interval of a slice with the solver (binary search on the path condition)"""
        lo, hi = s.lo, s.hi
        a, b = lo, hi
        while a < b:          # smallest m with len <= m always
            m = (a + b) // 2
            if self.must(st, z3.ULE(s.len, bvval(m, 64))):
                b = m
            else:
                a = m + 1
        hi = a
        a, b = lo, hi
        while a < b:          # largest m with len >= m always
            m = (a + b + 1) // 2
            if self.must(st, z3.UGE(s.len, bvval(m, 64))):
                a = m
            else:
                b = m - 1
        s.lo, s.hi = a, hi
        if s.lo == s.hi:
            s.len = s.lo

    def copy(self, st, dst, src, ins):
        """copy(dst, src): n = min(len(dst), len(src)); dst[i] = src[i] for i < n"""
        if dst is NIL or src is NIL:
            return bvval(0, 64)
        cs = self.cells(st, src)
        ld, ls = dst.len, src.len
        if not isinstance(ld, int):
            raise Unsupported('copy into a slice of symbolic length')
        if isinstance(ls, int):
            n = min(ld, ls)
            for i in range(n):
                self.store(st, self.slice_cell_ptr(dst, i), cs[i])
            return bvval(n, 64)
        cd = self.cells(st, dst)
        for i in range(min(ld, src.hi)):
            self.store(st, self.slice_cell_ptr(dst, i), z3.simplify(z3.If(z3.UGT(ls, bvval(i, 64)), cs[i], cd[i])))
        zld = bvval(ld, 64)
        return z3.simplify(z3.If(z3.ULT(ls, zld), ls, zld))


def go_number_like(lit):
    """False if the literal cannot be the text of a number"""
    t = lit[2:] if lit[:2].lower() == '0x' else lit
    return bool(t) and all(ch in '0123456789abcdefABCDEF' for ch in t)


class Forks:
    """nondeterministic stub outcome: alts = [(path condition, value or fn(state)->value, state mutator or None)]"""

    def __init__(self, alts):
        self.alts = alts


def load_program(cfg, scratch):
    """build ssadump (once per scratch dir) and run it"""
    here = os.path.dirname(os.path.abspath(__file__))
    exe = os.path.join(scratch, 'ssadump')
    env = dict(os.environ, GOFLAGS='-mod=mod', GOPROXY='off', GOSUMDB='off', GOTOOLCHAIN='local')
    if not os.path.exists(exe):
        p = subprocess.run(['go', 'build', '-o', exe, '.'], cwd=os.path.join(here, 'ssadump'), env=env, stdout=subprocess.PIPE, stderr=subprocess.STDOUT, text=True)
        if p.returncode:
            raise RuntimeError('ssadump build failed: ' + p.stdout)
    import tempfile
    d = tempfile.mkdtemp(prefix='ssa_', dir=scratch)
    json.dump(cfg, open(d + '/cfg.json', 'w'))
    p = subprocess.run([exe, d + '/cfg.json', d + '/out.json'], env=env, stdout=subprocess.PIPE, stderr=subprocess.PIPE, text=True)
    if p.returncode:
        raise RuntimeError('ssadump failed: ' + p.stderr[-3000:])
    prog = json.load(open(d + '/out.json'))
    prog['errors'] = prog.get('errors') or []
    for f in prog['funcs'].values():
        for k in ('params', 'freevars', 'results', 'blocks'):
            f[k] = f.get(k) or []
        for b in f['blocks']:
            for k in ('preds', 'succs', 'instrs'):
                b[k] = b.get(k) or []
    return prog
