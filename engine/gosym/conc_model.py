"""GOSYM-C: interleaving semantics of the goroutine/channel/http.Server events extracted from go/ssa (job.go, spawnServerJob, Run),
encoded with one integer timestamp per event (partial-order / difference-logic style). The threads are straight-line, all blocking
conditions are monotone (a closed channel stays closed, a finished request stays finished), so this encoding is complete for them.

net/http enters as the contract automaton documented in stubs.py (ListenAndServe: check flag, bind, track, serve; Shutdown: begin, wait
for in-flight requests, return; Close: immediate)."""
import collections, time
import z3


class Model:
    def __init__(self, events, k_requests=1):
        """events: list of ('cev', tid, kind, payload..., pos) in recording order, plus ('note', text) markers of the main thread"""
        self.threads = collections.OrderedDict()
        self.notes = {}
        self.T = {}
        self.cons = []
        self.labels = {}
        self.k = k_requests
        main_last = None
        for e in events:
            if e[0] == 'note':
                self.notes[e[1]] = main_last      # index of the last main-thread event before the note
                continue
            if e[0] != 'cev':
                continue
            tid, kind = e[1], e[2]
            self.threads.setdefault(tid, []).append({'kind': kind, 'args': e[3:-1], 'pos': e[-1], 'tid': tid, 'idx': len(self.threads.get(tid, []))})
            if tid == 0:
                main_last = len(self.threads[0]) - 1
        self.problems = []     # structural findings (double close, recv without close, aborted goroutine)
        self.build()

    def tv(self, name):
        if name not in self.T:
            self.T[name] = z3.Int(name)
            self.cons.append(self.T[name] >= 0)
        return self.T[name]

    def build(self):
        closes = collections.defaultdict(list)
        sends = collections.defaultdict(list)
        wg_adds = collections.defaultdict(list)
        self.servers = collections.defaultdict(dict)
        # --- event timestamps (some events expand into several instants)
        for tid, evs in self.threads.items():
            for e in evs:
                n = 'T%d_%d_%s' % (tid, e['idx'], e['kind'])
                e['name'] = n
                k = e['kind']
                if k == 'las':
                    s = e['args'][0]
                    e['first'], e['last'] = self.tv(n + '_check'), self.tv(n + '_ret')
                    self.servers[s].setdefault('las', []).append(e)
                elif k == 'shutdown':
                    s = e['args'][0]
                    e['first'], e['last'] = self.tv(n + '_begin'), self.tv(n + '_ret')
                    self.cons.append(e['first'] < e['last'])
                    self.servers[s].setdefault('shutdown', []).append(e)
                elif k == 'srvclose':
                    s = e['args'][0]
                    e['first'] = e['last'] = self.tv(n)
                    self.servers[s].setdefault('srvclose', []).append(e)
                else:
                    e['first'] = e['last'] = self.tv(n)
                if k == 'close':
                    closes[e['args'][0]].append(e)
                if k in ('trysend_ok', 'trysend_dropped'):
                    sends[e['args'][0]].append(e)
                if k == 'wg_add':
                    wg_adds[e['args'][0]].append(e)
                if k == 'abort':
                    self.problems.append('goroutine %d aborts: %s' % (tid, e['args']))
        # --- program order and goroutine start
        for tid, evs in self.threads.items():
            for a, b in zip(evs, evs[1:]):
                self.cons.append(a['last'] < b['first'])
        for tid, evs in self.threads.items():
            for e in evs:
                if e['kind'] == 'go':
                    child = self.threads.get(e['args'][0])
                    if child:
                        self.cons.append(e['last'] < child[0]['first'])
        # --- channels: a receive on an unbuffered chan struct{} that is only ever closed completes after a close
        for tid, evs in self.threads.items():
            for e in evs:
                if e['kind'] == 'recv':
                    cs = closes.get(e['args'][0], [])
                    # the instant the goroutine parks on the channel: after its previous event (or its start), before the receive completes
                    arrive = self.tv(e['name'] + '_arrive')
                    self.cons.append(arrive > (evs[e['idx'] - 1]['last'] if e['idx'] > 0 else self.thread_start(tid)))
                    self.cons.append(arrive < e['first'])
                    wake = []
                    for sd in sends.get(e['args'][0], []):
                        if sd['kind'] == 'trysend_ok':       # hand-over: the receiver was already parked
                            self.cons.append(arrive < sd['first'])
                            wake.append(sd)
                        else:                                   # dropped: nobody was parked yet
                            self.cons.append(sd['first'] < arrive)
                    if wake or (sends.get(e['args'][0]) and not cs):
                        if not wake and not cs:
                            self.problems.append('receive at %s can never complete: the only wake-up is a non-blocking send that is dropped when it comes before the receiver is parked (deadlock)' % e['pos'])
                            self.deadlock_feasible = True
                        else:
                            self.cons.append(z3.Or(*[c['last'] < e['first'] for c in cs + wake]))
                        continue
                    if not cs:
                        self.problems.append('receive at %s can never complete: the channel is never closed (deadlock)' % e['pos'])
                        self.cons.append(z3.BoolVal(False))
                    else:
                        self.cons.append(z3.Or(*[c['last'] < e['first'] for c in cs]))
        # --- wait groups: Wait completes at an instant at which the counter (adds and dones that have happened) is zero
        for tid, evs in self.threads.items():
            for e in evs:
                if e['kind'] == 'wg_wait':
                    ads = wg_adds.get(e['args'][0], [])
                    arrive = self.tv(e['name'] + '_arrive')
                    self.cons.append(arrive > (evs[e['idx'] - 1]['last'] if e['idx'] > 0 else self.thread_start(tid)))
                    self.cons.append(arrive < e['first'])
                    self.cons.append(z3.Sum([z3.If(a['last'] < e['first'], z3.IntVal(a['args'][1]), z3.IntVal(0)) for a in ads] + [z3.IntVal(0)]) == 0)
                    if sum(a['args'][1] for a in ads) != 0:
                        self.problems.append('WaitGroup waited on at %s: adds and dones do not balance (Wait can never return or the counter goes negative)' % e['pos'])
        for ch, cs in closes.items():
            if len(cs) > 1:
                self.problems.append('channel closed twice (%s): panic' % ', '.join(str(c['pos']) for c in cs))
        # --- servers
        self.bound_checks = []     # (server, bound?, release time)
        self.requests = []
        for s, d in self.servers.items():
            stops = d.get('shutdown', []) + d.get('srvclose', [])
            begin = None
            if stops:
                # the instant the server's shutting-down flag is set: the earliest stop
                begin = self.tv('S%s_%s_flag' % (s[1], 'x'))
                self.cons.append(z3.Or(*[begin == x['first'] for x in stops]))
                self.cons += [begin <= x['first'] for x in stops]
            d['begin'] = begin
            for li, l in enumerate(d.get('las', [])):
                n = l['name']
                c1, ret = l['first'], l['last']
                b2, c3 = self.tv(n + '_bind'), self.tv(n + '_track')
                rel = self.tv(n + '_release')
                self.cons += [c1 < b2, b2 < c3]
                if begin is None:
                    self.problems.append('server %s is started but never shut down' % (s,))
                    continue
                early = begin < c1
                trackfail = z3.And(z3.Not(early), begin < c3)
                tracked = z3.And(z3.Not(early), z3.Not(trackfail))
                # early: returns at once, nothing bound. trackfail: the deferred Close releases the socket at c3. tracked: Shutdown/Close releases it.
                self.cons.append(z3.If(early, z3.And(ret > c1, rel == c1), z3.If(trackfail, z3.And(rel == c3, ret > c3), z3.And(rel == begin, ret > begin))))
                l.update(early=early, trackfail=trackfail, tracked=tracked, bind=b2, track=c3, release=rel)
                self.bound_checks.append((s, z3.Not(early), b2, rel, l))
            # requests: only on servers that have a handler worth waiting for (all servers; k each would blow up: k on each)
            for r in range(self.k):
                acc, fin = self.tv('R%s_%d_accept' % (s[1], r)), self.tv('R%s_%d_finish' % (s[1], r))
                accepted = z3.Bool('R%s_%d_accepted' % (s[1], r))
                self.cons.append(acc < fin)
                ls = d.get('las', [])
                if ls and begin is not None:
                    self.cons.append(z3.Implies(accepted, z3.Or(*[z3.And(l['tracked'], l['track'] < acc, acc < begin) for l in ls])))
                else:
                    self.cons.append(z3.Not(accepted))
                cut = z3.BoolVal(False)
                for x in d.get('srvclose', []):      # Close kills the connection if the request is still running
                    cut = z3.Or(cut, z3.And(accepted, x['first'] < fin))
                self.requests.append({'server': s, 'accept': acc, 'finish': fin, 'accepted': accepted, 'cut': cut})
                for x in d.get('shutdown', []):
                    if x['args'][1] == 'background':
                        self.cons.append(z3.Implies(accepted, fin < x['last']))
                    # a deadline context may return before the request finishes: no constraint

    def thread_start(self, tid):
        for t2, evs in self.threads.items():
            for e in evs:
                if e['kind'] == 'go' and e['args'][0] == tid:
                    return e['last']
        return z3.IntVal(0)

    def t_note(self, note):
        i = self.notes.get(note)
        if i is None:
            return None
        return self.threads[0][i]['last']

    def solve(self, extra, timeout=60):
        s = z3.Solver()
        s.set('timeout', timeout * 1000)
        s.add(*self.cons)
        s.add(*extra)
        t = time.time()
        r = str(s.check())
        return r, time.time() - t, s

    def schedule(self, model):
        """events ordered by their model timestamps (the counterexample interleaving)"""
        items = []
        for n, v in self.T.items():
            items.append((model.eval(v, model_completion=True).as_long(), n))
        items.sort()
        return ['%d %s' % (t, n) for t, n in items]

    def properties(self):
        """[(name, violation formula)]: sat = a schedule violating the property"""
        ta = self.t_note('await-returned')
        out = []
        if ta is None:
            return out
        for s, d in self.servers.items():
            for x in d.get('shutdown', []):
                out.append(('when AwaitStop returns, Shutdown of server@%s has returned' % x['pos'], x['last'] > ta))
        viol = z3.Or(*[z3.And(r['accepted'], z3.Or(r['finish'] > ta, r['cut'])) for r in self.requests]) if self.requests else z3.BoolVal(False)
        out.append(('every request accepted before the stop has completed (not cut off) when AwaitStop returns', viol))
        for s, bound, bind, rel, l in self.bound_checks:
            out.append(('no listener of server started at %s is still bound (or bound later) when AwaitStop returns' % l['pos'], z3.And(bound, z3.Or(rel > ta, bind > ta))))
        return out
