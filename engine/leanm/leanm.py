"""LEANM: parser of the machine-generated Lean DSL emitted by gnark-lean-extractor (FormalVerification.lean) and its translation to
SMT terms. Gates and gadget calls are uninterpreted (functions / predicates), existential gate variables are eliminated by their
defining gate, so two definitions are equivalent iff the solver cannot separate them for any interpretation of the gates."""
import re
import z3

TOK = re.compile(r"\s*(?:(vec!\[)|(->|=>|:=)|([A-Za-zℕ_][A-Za-z0-9_.!']*)|(0x[0-9a-fA-F]+|\d+)|(∃|∧|[()\[\],:=]))")


def tokenize(s):
    out, i = [], 0
    while i < len(s):
        m = TOK.match(s, i)
        if not m:
            if s[i:].strip() == '':
                break
            raise SyntaxError('cannot tokenize at %r' % s[i:i + 40])
        i = m.end()
        out.append(next(g for g in m.groups() if g is not None))
    return out


def parse_type(t, i):
    """returns (type, i): type = 'F' | ('vec', elem, n) | ('fn', arg) | 'Prop'"""
    if t[i] == '(':
        ty, i = parse_type(t, i + 1)
        assert t[i] == ')', t[i - 3:i + 3]
        i += 1
    elif t[i] == 'Vector':
        el, i = parse_type(t, i + 1)
        n = int(t[i], 0)
        ty, i = ('vec', el, n), i + 1
    elif t[i] in ('F', 'Prop', 'ℕ'):
        ty, i = t[i], i + 1
    else:
        raise SyntaxError('type at %s' % t[i:i + 5])
    if i < len(t) and t[i] == '->':
        r, i = parse_type(t, i + 1)
        ty = ('fn', ty, r)
    return ty, i


OUT = object()


class Def:
    def __init__(self, name, params, body_tokens, text):
        self.name, self.params, self.toks, self.text = name, params, body_tokens, text

    @property
    def ret_type(self):
        for n, ty in self.params:
            if n == 'k':
                return ty[1]
        return None


def parse_file(text):
    """{name: Def} in file order, plus the list of other top-level lines"""
    defs = {}
    parts = re.split(r'(?m)^def ', text)
    header = parts[0]
    for p in parts[1:]:
        end = re.search(r'(?m)^(end |namespace |variable |abbrev |set_option |import )', p)
        body = p[:end.start()] if end else p
        head, _, rhs = body.partition(':=')
        toks = tokenize(head)
        name = toks[0]
        i = 1
        params = []
        while i < len(toks) and toks[i] == '(':
            pn = toks[i + 1]
            assert toks[i + 2] == ':'
            ty, j = parse_type(toks, i + 3)
            assert toks[j] == ')', (name, toks[j - 2:j + 2])
            params.append((pn, ty))
            i = j + 1
        defs[name] = Def(name, params, tokenize(rhs), 'def ' + body.rstrip())
    return defs, header


class Enc:
    """translation of definition bodies to z3 (Int-sorted field elements, everything else uninterpreted)"""

    def __init__(self, sigs):
        self.sigs = sigs          # name -> Def (for return shapes of gadget calls)
        self.fn = {}
        self.nil = z3.Int('vec!nil')

    def uf(self, name, arity, ret):
        key = (name, arity, ret)
        if key not in self.fn:
            self.fn[key] = z3.Function('%s/%d' % (name, arity), *([z3.IntSort()] * arity + [z3.BoolSort() if ret == 'bool' else z3.IntSort()]))
        return self.fn[key]

    def chain(self, v):
        """value (Int term or nested list) -> one Int term (cons chain) preserving structure"""
        if isinstance(v, list):
            t = self.nil
            for x in reversed(v):
                t = self.uf('vec!cons', 2, 'int')(self.chain(x), t)
            return t
        return v

    def shape_val(self, ty, mk, path=()):
        if ty == 'F':
            return mk(path)
        if ty[0] == 'vec':
            return [self.shape_val(ty[1], mk, path + (i,)) for i in range(ty[2])]
        raise SyntaxError('shape %s' % (ty,))

    def encode(self, d, suffix=''):
        """returns z3 Bool for definition d with parameters as constants Name[i]..; continuation k uninterpreted"""
        env = {}
        for n, ty in d.params:
            if n == 'k':
                env['k'] = ('k', ty)
            else:
                env[n] = self.shape_val(ty, lambda path, n=n: z3.Int(n + ''.join('[%d]' % i for i in path)))
        self.t, self.i, self.d = d.toks, 0, d
        if len(self.t) == 1 and re.fullmatch(r'0x[0-9a-fA-F]+|\d+', self.t[0]):
            return z3.Int(d.name) == int(self.t[0], 0)       # constant definition (Order)
        f = self.conj(env)
        if self.i != len(self.t):
            raise SyntaxError('%s: trailing tokens %s' % (d.name, self.t[self.i:self.i + 5]))
        return f

    # ---- parsing + evaluation in one pass
    def peek(self):
        return self.t[self.i] if self.i < len(self.t) else None

    def eat(self, x=None):
        tok = self.t[self.i]
        if x is not None and tok != x:
            raise SyntaxError('%s: expected %s got %s at %s' % (self.d.name, x, tok, self.t[max(0, self.i - 4):self.i + 4]))
        self.i += 1
        return tok

    def conj(self, env):
        parts = [self.atom(env)]
        while self.peek() == '∧':
            self.eat()
            parts.append(self.atom(env))
        return z3.And(*parts) if len(parts) > 1 else parts[0]

    def arg(self, env):
        tok = self.peek()
        if tok == '(':
            self.eat()
            if re.fullmatch(r'0x[0-9a-fA-F]+|\d+', self.peek()) and self.t[self.i + 1] == ':':
                v = z3.IntVal(int(self.eat(), 0))
                self.eat(':')
                self.eat('F')
                self.eat(')')
                return v
            v = self.expr(env)
            self.eat(')')
            return v
        if tok == 'vec![':
            self.eat()
            items = []
            while self.peek() != ']':
                items.append(self.arg(env))
                if self.peek() == ',':
                    self.eat()
            self.eat(']')
            return items
        if re.fullmatch(r'0x[0-9a-fA-F]+|\d+', tok):
            return z3.IntVal(int(self.eat(), 0))
        name = self.eat()
        if name not in env:
            raise SyntaxError('%s: unbound %s' % (self.d.name, name))
        v = env[name]
        while self.peek() == '[':
            self.eat()
            idx = int(self.eat(), 0)
            self.eat(']')
            v = v[idx]
        return v

    def is_arg_start(self):
        tok = self.peek()
        return tok is not None and tok not in ('∧', ')', ']', ',', 'fun', '=', ':=') and (tok in ('(', 'vec![') or re.fullmatch(r"[A-Za-z_0-9][A-Za-z0-9_.!']*|0x[0-9a-fA-F]+", tok) is not None)

    def expr(self, env):
        """Gates.f a b ... as a function value"""
        name = self.eat()
        args = []
        while self.is_arg_start():
            args.append(self.arg(env))
        cs = [self.chain(a) for a in args]
        return self.uf(name, len(cs), 'int')(*cs)

    def atom(self, env, binder=None):
        tok = self.peek()
        if tok == '∃':
            self.eat()
            x = self.eat()
            self.eat(',')
            env = dict(env)
            first = self.atom(env, binder=x)
            rest = [first]
            while self.peek() == '∧':
                self.eat()
                rest.append(self.atom(env))
            return z3.And(*rest) if len(rest) > 1 else rest[0]
        if tok == 'True':
            self.eat()
            return z3.BoolVal(True)
        if tok == 'k' and 'k' in env:
            self.eat()
            v = self.arg(env)
            return self.uf('k!' + self.d.name.split('_')[0], 1, 'bool')(self.chain(v))
        if binder is not None and tok == binder:
            self.eat()
            self.eat('=')
            env[binder] = self.expr(env)
            return z3.BoolVal(True)
        name = self.eat()
        args = []
        while self.is_arg_start():
            if binder is not None and self.peek() == binder:
                self.eat()
                args.append(OUT)
            else:
                args.append(self.arg(env))
        if name.startswith('Gates.'):
            ins = [a for a in args if a is not OUT]
            cs = [self.chain(a) for a in ins]
            if any(a is OUT for a in args):
                if name == 'Gates.to_binary':
                    n = int(str(ins[1]))
                    env[binder] = [self.uf(name + '!out', len(cs) + 1, 'int')(*(cs + [z3.IntVal(i)])) for i in range(n)]
                else:
                    env[binder] = self.uf(name + '!out', len(cs), 'int')(*cs)
                return self.uf(name + '!ok', len(cs), 'bool')(*cs)
            if name == 'Gates.eq' and len(cs) == 2:
                return cs[0] == cs[1]
            return self.uf(name, len(cs), 'bool')(*cs)
        # gadget call, possibly with a continuation
        cs = [self.chain(a) for a in args]
        ok = self.uf(name + '!ok', len(cs), 'bool')(*cs)
        if self.peek() == 'fun':
            self.eat()
            x = self.eat()
            self.eat('=>')
            callee = self.sigs.get(name)
            if callee is None or callee.ret_type is None:
                raise SyntaxError('%s: call of %s with a continuation but no known result type' % (self.d.name, name))
            env = dict(env)
            outf = self.uf(name + '!out', len(cs) + 1, 'int')
            cnt = [0]

            def mk(path):
                cnt[0] += 1
                return outf(*(cs + [z3.IntVal(cnt[0] - 1)]))
            env[x] = self.shape_val(callee.ret_type, mk)
            return z3.And(ok, self.conj(env))
        return ok
