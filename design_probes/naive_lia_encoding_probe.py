import json, sys, time, z3
P=21888242871839275222246405745257275088548364400416034343698204186575808495617
def sgn(c):
    c=int(c)%P
    return c if c<=P//2 else c-P
def load(fn): return json.load(open(fn))
class Enc:
    def __init__(s, d):
        s.d=d; s.s=z3.Solver(); s.n=len(d['Public'])+len(d['Secret'])+d['NbInternal']
        s.w=[z3.Int(f"w{i}") for i in range(s.n)]
        s.s.add(s.w[0]==1)
        for v in s.w[1:]: s.s.add(v>=0, v<P)
        s.isbool=set([0]); s.kc=0
        s.H=z3.Function("H", z3.IntSort(), z3.IntSort(), z3.IntSort())
        s.names={n:i for i,n in enumerate(d['Public']+d['Secret'])}
    def le(s, l):  # integer-valued linear expr (not reduced), with bounds
        e=0; lo=0; hi=0
        for c,w in l:
            c=sgn(c); w=int(w); e = e + c*s.w[w]
            ub = 1 if (w in s.isbool) else P-1
            if c>=0: hi+=c*ub
            else: lo+=c*ub
        return e,lo,hi
    def cong(s, e, lo, hi):  # e == 0 mod P
        klo = -((-lo)//P) if lo<0 else 0
        khi = hi//P
        klo = -(( -lo + P-1)//P) if lo<0 else 0
        if klo==0 and khi==0: return e==0
        s.kc+=1; k=z3.Int(f"k{s.kc}"); s.s.add(k>=klo,k<=khi); return e==k*P
    def boolwires(s):
        # detect b*(1-b)=0
        for c in s.d['Constraints']:
            L,R,O=c['L'],c['R'],c['O']
            if len(L)==1 and sgn(L[0][0])==1 and all(sgn(x[0])==0 for x in O):
                b=int(L[0][1]); r={int(w):sgn(cc) for cc,w in R}
                if r=={0:1,b:-1}: s.isbool.add(b)
    def constraints(s):
        s.boolwires()
        for b in s.isbool:
            if b: s.s.add(z3.Or(s.w[b]==0,s.w[b]==1))
        for c in s.d['Constraints']:
            L,R,O=c['L'],c['R'],c['O']
            O=[x for x in O if sgn(x[0])!=0]
            def wires(l): return [int(w) for _,w in l]
            if all(w in s.isbool for w in wires(L)) and len(L)<=1 or all(w in s.isbool for w in wires(L)) and len(L)<=3:
                gate,other=L,R
            elif all(w in s.isbool for w in wires(R)) and len(R)<=3:
                gate,other=R,L
            else:
                raise Exception("nonlinear "+str(c))
            # enumerate gate values
            gw=sorted(set(wires(gate))-{0})
            eo,loo,hio=s.le(O)
            er,lor,hir=s.le(other)
            cases=[]
            for m in range(1<<len(gw)):
                asg={w:(m>>i)&1 for i,w in enumerate(gw)}; asg[0]=1
                g=sum(sgn(cc)*asg[int(w)] for cc,w in gate)
                cond=z3.And(*[s.w[w]==asg[w] for w in gw]) if gw else True
                # g*other - O == 0 mod P
                e = g*er - eo
                lo = (g*lor if g>=0 else g*hir) - hio
                hi = (g*hir if g>=0 else g*lor) - loo
                cases.append(z3.Implies(cond, s.cong(e,lo,hi)))
            s.s.add(*cases)
        for h in s.d['Hints']:
            if h['Name'].endswith('ufHint'):
                a=[]
                for inp in h['Inputs']:
                    e,lo,hi=s.le(inp)
                    if len(inp)==1 and sgn(inp[0][0])==1: a.append(e)
                    else:
                        s.kc+=1; u=z3.Int(f"u{s.kc}"); s.s.add(u>=0,u<P, s.cong(e-u, lo-(P-1), hi)); a.append(u)
                s.s.add(s.w[h['Wires'][0]]==s.H(*a))
    def Hc(s,a,b):
        t=s.H(a,b); s.s.add(t>=0,t<P); return t
def spec_ins(enc, D, B):
    d=enc.d; s=enc
    W=lambda n: s.w[s.names[n]]
    nb=[h for h in d['Hints'] if h['Name'].endswith('NBits')]
    assert len(nb)==B
    root=W('PreRoot'); ok=[]
    for i in range(B):
        bits=[s.w[x] for x in nb[i]['Wires']]
        # index relation: sum bits == StartIndex + i  (as integers, in range)
        idx = W('StartIndex')+i
        ok.append(sum((1<<j)*bits[j] for j in range(D))==idx)
        def fold(leaf):
            cur=leaf
            for j in range(D):
                sib=W(f'MerkleProofs_{i}_{j}')
                cur=z3.If(bits[j]==1, s.Hc(sib,cur), s.Hc(cur,sib))
            return cur
        ok.append(fold(z3.IntVal(0))==root)
        root=fold(W(f'IdComms_{i}'))
    ok.append(root==W('PostRoot'))
    return z3.And(*ok)
if __name__=="__main__":
    D=int(sys.argv[2]); B=int(sys.argv[3])
    d=load(sys.argv[1]); e=Enc(d); e.constraints()
    sp=spec_ins(e,D,B)
    e.s.add(z3.Not(sp))
    e.s.set("timeout",300000)
    t=time.time(); r=e.s.check(); print(D,B,"soundness:",r, round(time.time()-t,2),"s  constraints",len(d['Constraints']))
    if r==z3.sat:
        m=e.s.model(); print({n:m.eval(e.w[i]) for n,i in e.names.items()})
