import json, sys, time, z3, itertools
P=21888242871839275222246405745257275088548364400416034343698204186575808495617
def red(c): return int(c)%P
# LE: dict atom->coeff (mod P), atom 1 is const key 'one'
class Enc:
    def __init__(s,d):
        s.d=d; s.s=z3.Solver(); s.kc=0
        s.nin=len(d['Public'])+len(d['Secret']); s.n=s.nin+d['NbInternal']
        s.names={n:i for i,n in enumerate(d['Public']+d['Secret'])}
        s.val=[None]*s.n      # wire -> LE over atoms
        s.atomvar={}          # atom id -> z3 Int
        s.case={}             # atom id -> list[(z3 Bool cond, LE)]
        s.boolatoms=set()
        s.H=z3.Function("H", z3.IntSort(), z3.IntSort(), z3.IntSort())
        s.FM=z3.Function("fmul", z3.IntSort(), z3.IntSort(), z3.IntSort()); s.fm={}; s.asserts=[]; s.invzero=[]; s.nbits=[]
        s.val[0]={'one':1}
        for i in range(1,s.nin): s.val[i]={s.newatom(f"in{i}"):1}
        s.hintout={}
        for hi,h in enumerate(d['Hints']):
            for k,w in enumerate(h['Wires']): s.hintout[w]=(hi,k)
        s.hdone=set()
    def newatom(s,name):
        v=z3.Int(name); s.s.add(v>=0,v<P); s.atomvar[name]=v; return name
    def lin(s,l):   # R1CS LE -> LE over atoms (all wires must be valued)
        out={}
        for c,w in l:
            c=red(c); w=int(w)
            if c==0: continue
            v=s.val[w]
            if v is None: return None
            for a,ca in v.items():
                out[a]=(out.get(a,0)+c*ca)%P
        return {a:c for a,c in out.items() if c}
    def unknowns(s,l): return [int(w) for c,w in l if red(c) and s.val[int(w)] is None]
    def boolsupport(s,le):
        return all(a=='one' or a in s.boolatoms for a in le)
    def cases_of_bool_le(s,le):
        ats=[a for a in le if a!='one']
        res=[]
        for bits in itertools.product([0,1],repeat=len(ats)):
            g=le.get('one',0)
            for a,b in zip(ats,bits): g=(g+le[a]*b)%P
            cond=z3.And(*[ (s.atomvar[a]==b) for a,b in zip(ats,bits)]) if ats else z3.BoolVal(True)
            res.append((cond,g))
        return res
    def scale(s,le,g): return {a:(c*g)%P for a,c in le.items() if (c*g)%P}
    def sub(s,a,b):
        out=dict(a)
        for k,c in b.items(): out[k]=(out.get(k,0)-c)%P
        return {k:c for k,c in out.items() if c}
    def expand(s,le):
        """return list of (cond, plainLE) with no case atoms"""
        for a in le:
            if a in s.case:
                res=[]
                rest={k:c for k,c in le.items() if k!=a}
                for cond,sub in s.case[a]:
                    le2=dict(rest)
                    for k,c in sub.items(): le2[k]=(le2.get(k,0)+c*le[a])%P
                    le2={k:c for k,c in le2.items() if c}
                    for c2,pl in s.expand(le2): res.append((z3.simplify(z3.And(cond,c2)),pl))
                return res
        return [(z3.BoolVal(True),le)]
    def mat_plain(s,le):
        if not le: return z3.IntVal(0)
        if len(le)==1:
            (a,c),=le.items()
            if a=='one': return z3.IntVal(c)
            if c==1: return s.atomvar[a]
        # fallback canonical var with congruence
        s.kc+=1; u=z3.Int(f"u{s.kc}"); k=z3.Int(f"k{s.kc}")
        e=sum((c if c<=P//2 else c-P)*(s.atomvar[a] if a!='one' else 1) for a,c in le.items())
        s.s.add(u>=0,u<P,e-u==k*P); s.fallbacks=getattr(s,'fallbacks',0)+1
        return u
    def mat(s,le):
        cs=s.expand(le)
        t=s.mat_plain(cs[-1][1])
        for cond,pl in reversed(cs[:-1]): t=z3.If(cond,s.mat_plain(pl),t)
        return t
    def assert_zero(s,le):
        for cond,pl in s.expand(le):
            if not pl: continue
            s.s.add(z3.Implies(cond, s.eqzero(pl)))
    def eqzero(s,pl):
        # a - b == 0 pattern
        items=[(a,c) for a,c in pl.items()]
        if len(items)==2:
            (a1,c1),(a2,c2)=items
            if (c1+c2)%P==0 and c1 in (1,P-1):
                v=lambda a: s.atomvar[a] if a!='one' else 1
                return v(a1)==v(a2)
        if len(items)==1 and items[0][0]=='one': return z3.BoolVal(False)
        s.kc+=1; k=z3.Int(f"k{s.kc}")
        e=sum((c if c<=P//2 else c-P)*(s.atomvar[a] if a!='one' else 1) for a,c in pl.items())
        s.fallbacks=getattr(s,'fallbacks',0)+1
        s.s.add(k*P<=e, e<k*P+P)   # k := floor(e/P), definitional => polarity-safe
        return e==k*P
    def run(s):
        d=s.d
        def dohints():
            for hi,h in enumerate(d['Hints']):
                if hi in s.hdone: continue
                ins=[s.lin(i) for i in h['Inputs']]
                if any(i is None for i in ins): continue
                s.hdone.add(hi)
                if h['Name'].endswith('ufHint'):
                    args=[s.mat(i) for i in ins]
                    a=s.newatom(f"uf{hi}"); s.s.add(s.atomvar[a]==s.H(*args)); s.val[h['Wires'][0]]={a:1}
                else:
                    for k,w in enumerate(h['Wires']): s.val[w]={s.newatom(f"h{hi}_{k}"):1}
                    if h['Name'].endswith('NBits'): s.nbits.append((ins[0],[s.val[w] for w in h['Wires']]))
                    if h['Name'].endswith('InvZero'): s.invzero.append((ins[0],s.val[h['Wires'][0]]))
        dohints()
        for c in d['Constraints']:
            L,R,O=c['L'],c['R'],c['O']
            unk=set(s.unknowns(L)+s.unknowns(R)+s.unknowns(O))
            lL,lR=s.lin(L),s.lin(R)
            if not unk:
                lO=s.lin(O)
                # booleanity?
                if len(lL)==1 and not lO:
                    (a,c1),=lL.items()
                    if a!='one' and c1==1 and lR=={'one':1,a:P-1}:
                        s.boolatoms.add(a); s.s.add(z3.Or(s.atomvar[a]==0,s.atomvar[a]==1)); continue
                for cond,pr in s.prodcases(lL,lR):
                    le=s.sub(pr,lO)
                    for c2,pl in s.expand(le):
                        if pl: s.asserts.append(z3.Implies(z3.And(cond,c2), s.eqzero(pl)))
            else:
                assert len(unk)==1 and not s.unknowns(L) and not s.unknowns(R), c
                w=unk.pop(); cw=[red(cc) for cc,ww in O if int(ww)==w][0]
                rest=s.lin([x for x in O if int(x[1])!=w])
                inv=pow(cw,-1,P)
                cs=[(cond, s.scale(s.sub(pr,rest),inv)) for cond,pr in s.prodcases(lL,lR)]
                if len(cs)==1: s.val[w]=cs[0][1]
                else:
                    a=f"case{w}"; s.case[a]=cs; s.val[w]={a:1}
            dohints()
    def monic(s,le):
        k=sorted(le,key=str)[0]; c=le[k]; inv=pow(c,-1,P)
        return s.scale(le,inv),c
    def fmul(s,lL,lR):
        lL,cL=s.monic(lL); lR,cR=s.monic(lR)
        return {s.fmul1(lL,lR):(cL*cR)%P}
    def fmul1(s,lL,lR):
        a=s.mat(lL); b=s.mat(lR)
        key=(a.get_id(),b.get_id())
        if key in s.fm: return s.fm[key]
        at=s.newatom(f"fm{len(s.fm)}"); v=s.atomvar[at]
        s.s.add(v==s.FM(a,b), s.FM(a,b)==s.FM(b,a))
        s.s.add(z3.Implies(a==0,v==0), z3.Implies(b==0,v==0), z3.Implies(a==1,v==b), z3.Implies(b==1,v==a), z3.Implies(v==0, z3.Or(a==0,b==0)))
        s.fm[key]=at; return at
    def prodcases(s,lL,lR):
        if s.boolsupport(lL): return [(cond,s.scale(lR,g)) for cond,g in s.cases_of_bool_le(lL)]
        if s.boolsupport(lR): return [(cond,s.scale(lL,g)) for cond,g in s.cases_of_bool_le(lR)]
        return [(z3.BoolVal(True),s.fmul(lL,lR))]
    def Hc(s,a,b):
        t=s.H(a,b); s.s.add(t>=0,t<P); return t

def spec_del(s,D,B):
    d=s.d
    W=lambda n: s.mat(s.val[s.names[n]])
    root=W('PreRoot'); ok=[]
    for i in range(B):
        v,bw=s.nbits[i]
        bits=[s.mat(b) for b in bw]
        ok.append(sum((1<<j)*bits[j] for j in range(D+1))==W(f'Idx_{i}'))
        skip=bits[D]
        def fold(leaf):
            cur=leaf
            for j in range(D):
                sib=W(f'MerkleProofs_{i}_{j}')
                cur=z3.If(bits[j]==1, s.Hc(sib,cur), s.Hc(cur,sib))
            return cur
        ok.append(z3.Or(skip==1, fold(W(f'IdComms_{i}'))==root))
        root=z3.If(skip==1, root, fold(z3.IntVal(0)))
    ok.append(root==W('PostRoot'))
    return z3.And(*ok)
if __name__=="__main__":
    D=int(sys.argv[2]); B=int(sys.argv[3]); mode=sys.argv[4]; d=json.load(open(sys.argv[1]))
    t0=time.time(); e=Enc(d); e.run(); sp=spec_del(e,D,B); e.s.set("timeout",120000)
    if mode=="sound":
        e.s.add(*e.asserts); e.s.add(z3.Not(sp))
    else:
        e.s.add(sp)
        for a,x in e.invzero:
            am,c=e.monic(a); av=e.mat(am); xv=e.mat(x)
            # a = c*am ; honest x = 1/a  => fmul(am,x) = 1/c
            e.s.add(z3.If(av==0, xv==0, e.FM(av,xv)==pow(c,-1,P)))
            # make sure fmul atom for (a,x) exists with axioms: handled when constraint created
        e.s.add(z3.Not(z3.And(*e.asserts)))
    t=time.time(); r=e.s.check()
    print(D,B,mode,r,"solve",round(time.time()-t,2),"fallbacks",getattr(e,'fallbacks',0),"fmul",len(e.fm),"asserts",len(e.asserts),flush=True)
    if r==z3.sat and mode=="sound":
        m=e.s.model(); print({n:m.eval(e.mat(e.val[i])) for n,i in e.names.items() if i})
    if r==z3.sat and mode!="sound":
        m=e.s.model()
        pass
        print({n:m.eval(e.mat(e.val[i])) for n,i in e.names.items() if i})
        for a,x in e.invzero: print("invzero a",a,"x",x)
        pass
