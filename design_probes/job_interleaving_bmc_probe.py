# Mock of the GOSYM-C encoding for server/job.go + spawnServerJob + Run (design probe).
# Threads are straight-line event lists (what the sequential executor would extract from SSA);
# net/http is a contract automaton. Interleavings are symbolic: one scheduler choice per step.
import z3, sys, time
def build(K, graceful=True, wait_start=False):
    # shared state variables (per step): channel closed flags, server flags, counters
    chans=['stopC','closedC','stopM','closedM','stopP','closedP','startedM','startedP']
    srv=['M','P']
    threads={}
    # events: (kind, arg)
    def waiter(s):   # SpawnJob$1 for server s
        ev=[('recv','stop'+s), ('shutdown_begin',s), ('shutdown_wait',s)]
        if wait_start: ev.append(('recv','started'+s))      # candidate fix: wait for start() to return
        ev.append(('close','closed'+s)); return ev
    def starter(s):  # go start(): ListenAndServe
        return [('las_check',s), ('las_listen',s), ('las_track',s), ('las_block',s), ('close','started'+s)]
    threads['main']=[('close','stopC'),('recv','closedC'),('observe',None)]
    threads['wC']=[('recv','stopC'),('close','stopM'),('close','stopP'),('recv','closedM'),('recv','closedP'),('close','closedC')]
    for s in srv:
        threads['w'+s]=waiter(s); threads['s'+s]=starter(s)
    for j in range(K): threads[f'r{j}']=[('accept','P'),('finish','P')]
    names=list(threads); T=len(names)
    N=sum(len(v) for v in threads.values())
    S=z3.SolverFor('QF_BV'); S.set('timeout',240000)
    def mk(step):
        st={}
        for n in names: st['pc_'+n]=z3.BitVec(f'pc_{n}_{step}',4)
        for c in chans: st['cl_'+c]=z3.Bool(f'cl_{c}_{step}')
        for s in srv:
            for f in ('shut','bound','tracked','skip','shutret'): st[f+s]=z3.Bool(f'{f}{s}_{step}')
            st['infl'+s]=z3.BitVec(f'infl{s}_{step}',4)
        st['bad']=z3.Bool(f'bad_{step}')
        return st
    states=[mk(i) for i in range(N+1)]
    s0=states[0]
    for n in names: S.add(s0['pc_'+n]==0)
    for c in chans: S.add(z3.Not(s0['cl_'+c]))
    for s in srv:
        for f in ('shut','bound','tracked','skip','shutret'): S.add(z3.Not(s0[f+s]))
        S.add(s0['infl'+s]==0)
    S.add(z3.Not(s0['bad']))
    def enabled_and_effect(st,nx,n,i,ev):
        kind,arg=ev; en=z3.BoolVal(True); eff=[]; changed=set()
        def setv(k,v): eff.append(nx[k]==v); changed.add(k)
        if kind=='close':
            setv('cl_'+arg,z3.BoolVal(True)); eff.append(z3.Implies(st['cl_'+arg], nx['bad']))  # double close = panic
            changed.add('bad'); eff.append(z3.Implies(z3.Not(st['cl_'+arg]), nx['bad']==st['bad']))
        elif kind=='recv': en=st['cl_'+arg]
        elif kind=='shutdown_begin':
            setv('shut'+arg,z3.BoolVal(True)); setv('tracked'+arg,z3.BoolVal(False))
            # Shutdown closes *tracked* listeners; a listener that is bound but not yet tracked stays open
            setv('bound'+arg, z3.And(st['bound'+arg], z3.Not(st['tracked'+arg])))
            if not graceful: pass
        elif kind=='shutdown_wait':
            en = st['infl'+arg]==0 if graceful else z3.BoolVal(True)
            setv('shutret'+arg,z3.BoolVal(True))
        elif kind=='las_check': setv('skip'+arg, st['shut'+arg])
        elif kind=='las_listen': setv('bound'+arg, z3.Not(st['skip'+arg]))
        elif kind=='las_track':
            ok=z3.And(z3.Not(st['skip'+arg]), z3.Not(st['shut'+arg]))
            setv('tracked'+arg, ok); setv('skip'+arg, z3.Or(st['skip'+arg], z3.Not(ok)))
            setv('bound'+arg, z3.And(st['bound'+arg], ok))      # trackListener fails -> deferred l.Close()
        elif kind=='las_block': en=z3.Or(st['skip'+arg], st['shut'+arg])
        elif kind=='accept':
            en=z3.And(st['tracked'+arg], z3.Not(st['shut'+arg])); setv('infl'+arg, st['infl'+arg]+1)
        elif kind=='finish': setv('infl'+arg, st['infl'+arg]-1)
        elif kind=='observe':
            viol=z3.Or(*[z3.Not(st['shutret'+s]) for s in srv], *[st['bound'+s] for s in srv], *[st['infl'+s]!=0 for s in srv])
            eff.append(nx['bad']==z3.Or(st['bad'],viol)); changed.add('bad')
        return en,eff,changed
    sched=[z3.BitVec(f'sched_{i}',5) for i in range(N)]
    for i in range(N):
        st,nx=states[i],states[i+1]
        S.add(z3.Or(sched[i]==31, z3.ULT(sched[i],T)))
        opts=[]
        anyen=[]
        for ti,n in enumerate(names):
            for pc,ev in enumerate(threads[n]):
                en,eff,changed=enabled_and_effect(st,nx,n,pc,ev)
                guard=z3.And(st['pc_'+n]==pc, en); anyen.append(guard)
                frame=[nx[k]==st[k] for k in st if k not in changed and k!='pc_'+n]
                opts.append(z3.Implies(z3.And(sched[i]==ti, st['pc_'+n]==pc), z3.And(en, nx['pc_'+n]==pc+1, *eff, *frame)))
            # thread finished cannot be scheduled
            opts.append(z3.Implies(sched[i]==ti, z3.ULT(st['pc_'+n],len(threads[n]))))
        S.add(*opts)
        # stutter (-1) only allowed when nothing is enabled (so deadlock is visible) and keeps the state
        S.add(z3.Implies(sched[i]==31, z3.And(z3.Not(z3.Or(*anyen)), *[nx[k]==st[k] for k in st])))
    last=states[N]
    main_done = last['pc_main']==len(threads['main'])
    return S,last,main_done,names,threads,states,sched
def check(K,graceful,wait_start):
    S,last,main_done,names,threads,states,sched=build(K,graceful,wait_start)
    t=time.time()
    S.push(); S.add(last['bad']); r1=S.check(); m=S.model() if r1==z3.sat else None; S.pop()
    S.push(); S.add(z3.Not(main_done)); r2=S.check(); S.pop()
    print(f"K={K} graceful={graceful} wait_start={wait_start}: safety-violation reachable: {r1}; main-stuck reachable: {r2}; {round(time.time()-t,1)}s",flush=True)
    if m is not None:
        tr=[]
        for i,sc in enumerate(sched):
            v=m.eval(sc,True).as_long()
            if v!=31:
                n=names[v]; pc=m.eval(states[i]['pc_'+n],True).as_long(); tr.append(f"{n}:{threads[n][pc][0]}({threads[n][pc][1]})")
        print("   schedule:", " ".join(tr))
import sys
for a in sys.argv[1:]:
    K,g,w=a.split(',')
    check(int(K),g=='1',w=='1')
