import json,sys,time,z3
from blift import Lift
d=json.load(open(sys.argv[1])); nbytes=int(sys.argv[2]); dom=int(sys.argv[3]) if len(sys.argv)>3 else 1
t0=time.time(); L=Lift(d); P=L.P
inb={L.atoms[a][1]:L.zb[a] for a in L.atoms if L.atoms[a][0]=='in'}
n=8*nbytes
msg=[inb[f"In_{i}"] for i in range(n)]
T,F_=z3.BoolVal(True),z3.BoolVal(False)
padded=((n+8+1087)//1088)*1088 if n>0 else 1088
Pbits=msg+[T if (dom>>i)&1 else F_ for i in range(8)]+[F_]*(padded-n-8)
Pbits[-1]=z3.Xor(Pbits[-1],T)
# reference state, index (x*5+y)*64+k
S=[F_]*1600
markers=[h for h in d['Hints'] if h['Name'].endswith('marker')]
s=z3.Solver(); nd=[0]
def sync():
    s.add(*L.defs[nd[0]:]); nd[0]=len(L.defs)
sync()
tq=0
for j,blk in enumerate(range(0,padded,1088)):
    for x in range(5):
        for y in range(5):
            if x+5*y<17:
                for k in range(64):
                    idx=(x*5+y)*64+k; S[idx]=z3.Xor(S[idx],Pbits[blk+(x+5*y)*64+k])
    h=markers[j]; real_in=[L.asbool(L.lin(i)) for i in h['Inputs'][1:]]
    sync(); s.push(); s.add(z3.Or(*[a!=b for a,b in zip(real_in,S)])); t=time.time(); r=s.check(); tq+=time.time()-t; s.pop()
    assert r==z3.unsat,("F input mismatch at block",j,r)
    S=[L.asbool(L.val[w]) for w in h['Wires']]   # congruence: same function, equal inputs => take the real outputs
Z=[S[(x*5+0)*64+k] for x in range(4) for k in range(64)]
# the circuit asserts h[i]==Out_i ; so constraint-satisfied => Out == real squeeze. Check: asserts <=> (Out == Z)
ok=z3.And(*[L.assert_term(f) for f in L.asserts])
spec=z3.And(*[inb[f"Out_{i}"]==Z[i] for i in range(256)])
sync(); s.push(); s.add(ok!=spec); t=time.time(); r=s.check(); tq+=time.time()-t; s.pop()
print(sys.argv[1],"bytes",nbytes,"blocks",padded//1088,"lift",round(time.time()-t0-tq,2),"s queries",round(tq,2),"s final:",r)
