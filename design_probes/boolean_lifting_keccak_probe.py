import json, sys, time, z3, itertools
P=21888242871839275222246405745257275088548364400416034343698204186575808495617
d=json.load(open(sys.argv[1])); rnd=int(sys.argv[2])
nin=len(d['Public'])+len(d['Secret']); n=nin+d['NbInternal']
names=d['Public']+d['Secret']
# atoms: id -> ('in',name) | ('fn', support tuple, table tuple)   all boolean atoms
atoms={}; zb={}
def new_in(name):
    a=len(atoms); atoms[a]=('in',name); zb[a]=z3.Bool(name); return a
memo={}
def new_fn(sup,table):
    # drop irrelevant vars
    sup=list(sup); table=list(table)
    i=0
    while i<len(sup):
        k=len(sup); irrelevant=True
        for m in range(1<<k):
            if table[m]!=table[m^(1<<i)]: irrelevant=False;break
        if irrelevant:
            table=[table[m] for m in range(1<<k) if not (m>>i)&1]; sup.pop(i)
        else: i+=1
    key=(tuple(sup),tuple(table))
    if key in memo: return memo[key]
    if len(sup)==0: return ('const',table[0])
    if len(sup)==1 and table==[0,1]: return sup[0]
    a=len(atoms); atoms[a]=('fn',tuple(sup),tuple(table))
    # z3 definition
    terms=[z3.And(*[ zb[s] if (m>>i)&1 else z3.Not(zb[s]) for i,s in enumerate(sup)]) for m in range(1<<len(sup)) if table[m]]
    zb[a]=z3.Or(*terms) if terms else z3.BoolVal(False)
    v=z3.Bool(f"f{a}"); defs.append(v==zb[a]); zb[a]=v
    memo[key]=a; return a
defs=[]
val=[None]*n; val[0]={'one':1}
booltyped=set()
for i in range(1,nin): val[i]={new_in(names[i]):1}
def lin(l):
    out={}
    for c,w in l:
        c=int(c)%P
        if not c: continue
        v=val[int(w)]
        if v is None: return None
        for a,ca in v.items(): out[a]=(out.get(a,0)+c*ca)%P
    return {a:c for a,c in out.items() if c}
mv={}  # mv atom id -> (support tuple, table)
def aval(a,asg):
    if a in mv:
        s_,t_=mv[a]; m=0
        for i,x in enumerate(s_): m|=asg[x]<<i
        return t_[m]
    return asg[a]
def close(s):
    """split support into free atoms and dependent fn atoms (whose support is inside s)"""
    s=set(s); dep=[]
    changed=True
    while changed:
        changed=False
        for a in sorted(s):
            if a in atoms and atoms[a][0]=='fn' and set(atoms[a][1])<= (s-{a}) :
                s.discard(a); dep.append(a); changed=True
    return sorted(s), dep
def assignments(s):
    free,dep=close(s)
    # order dep so that dependencies evaluated first
    for m in range(1<<len(free)):
        asg={a:(m>>i)&1 for i,a in enumerate(free)}
        todo=list(dep)
        while todo:
            for a in list(todo):
                sp,tb=atoms[a][1],atoms[a][2]
                if all(x in asg for x in sp):
                    k=0
                    for i,x in enumerate(sp): k|=asg[x]<<i
                    asg[a]=tb[k]; todo.remove(a)
        yield asg
def expand1(s):
    out=set()
    for a in s:
        if a in atoms and atoms[a][0]=='fn': out|=set(atoms[a][1])
        out.add(a)
    return sorted(out)
def evalle(le,asg):
    return (le.get('one',0)+sum(c*aval(a,asg) for a,c in le.items() if a!='one'))%P
def sup(le):
    out=set()
    for a in le:
        if a=='one': continue
        if a in mv: out|=set(mv[a][0])
        else: out.add(a)
    return sorted(out)
def cut(le):
    """if le 2-valued over its support -> u + (v-u)*beta"""
    s=sup(le)
    if len(s)<=1 and not any(a in mv for a in le): return le
    for _ in range(3):
        free,dep=close(s)
        vals=[evalle(le,asg) for asg in assignments(s)]
        vs=sorted(set(vals))
        if len(vs)<=2 or len(expand1(s))>10: break
        s=expand1(s)
    s=free
    if len(vs)==1: return {'one':vs[0]} if vs[0] else {}
    if len(vs)==2:
        u,v=vs; b=new_fn(s,[1 if x==v else 0 for x in vals])
        if isinstance(b,tuple): return {'one':(u if b[1]==0 else v)}
        out={b:(v-u)%P}
        if u: out['one']=u
        return out
    return le
asserts=[]; t0=time.time(); nb=0
for c in d['Constraints']:
    unk=set(int(w) for l in (c['L'],c['R'],c['O']) for cc,w in l if int(cc)%P and val[int(w)] is None)
    L=cut(lin(c['L'])); R=cut(lin(c['R']))
    if not unk:
        O=lin(c['O']); s=sorted(set(sup(L))|set(sup(R))|set(sup(O)))
        assert len(s)<=6,(c,s)
        tab=[]
        for m in range(1<<len(s)):
            asg={a:(m>>i)&1 for i,a in enumerate(s)}
            tab.append(1 if (evalle(L,asg)*evalle(R,asg)-evalle(O,asg))%P==0 else 0)
        if len(s)==1 and tab==[1,1]: nb+=1; continue   # booleanity of boolean atom: tautology in bool view
        f=new_fn(s,tab)
        if f==('const',1): continue
        asserts.append(f)
    else:
        assert len(unk)==1
        w=unk.pop(); cw=[int(cc)%P for cc,ww in c['O'] if int(ww)==w][0]; inv=pow(cw,-1,P)
        rest=lin([x for x in c['O'] if int(x[1])!=w])
        s=sorted(set(sup(L))|set(sup(R))|set(sup(rest)))
        assert len(s)<=6,(c,s)
        vals=[]
        for m in range(1<<len(s)):
            asg={a:(m>>i)&1 for i,a in enumerate(s)}
            vals.append(((evalle(L,asg)*evalle(R,asg)-evalle(rest,asg))*inv)%P)
        vs=sorted(set(vals))
        if len(vs)==1: val[w]={'one':vs[0]} if vs[0] else {}
        elif len(vs)==2:
            u,v=vs; b=new_fn(s,[1 if x==v else 0 for x in vals])
            le={b:(v-u)%P}
            if u: le['one']=u
            val[w]=le
        else:
            a=('mv',w); mv[a]=(tuple(s),tuple(vals)); val[w]={a:1}
print("lifted in",round(time.time()-t0,2),"s atoms",len(atoms),"asserts",len(asserts),"bool-tautologies",nb)
# outputs
tap=[h for h in d['Hints'] if h['Name'].endswith('tap')][0]
outs=[]
for i in tap['Inputs']:
    le=cut(lin(i))
    # must be boolean: either const or single atom coeff 1
    if not le: outs.append(z3.BoolVal(False))
    elif le=={'one':1}: outs.append(z3.BoolVal(True))
    else:
        (a,c),=le.items(); assert c==1; outs.append(zb[a])
# reference round on BV64 lanes
RC=[0x0000000000000001,0x0000000000008082,0x800000000000808A,0x8000000080008000,0x000000000000808B,0x0000000080000001,0x8000000080008081,0x8000000000008009,0x000000000000008A,0x0000000000000088,0x0000000080008009,0x000000008000000A,0x000000008000808B,0x800000000000008B,0x8000000000008089,0x8000000000008003,0x8000000000008002,0x8000000000000080,0x000000000000800A,0x800000008000000A,0x8000000080008081,0x8000000000008080,0x0000000080000001,0x8000000080008008]
# rotation offsets computed from spec
rot=[[0]*5 for _ in range(5)]
x,y=1,0
for t in range(24):
    rot[x][y]=((t+1)*(t+2)//2)%64
    x,y=y,(2*x+3*y)%5
A=[[None]*5 for _ in range(5)]
inb={}
for a,(k,*r) in atoms.items():
    if k=='in': inb[r[0]]=zb[a]
def lane(x,y):
    bits=[z3.If(inb[f"A_{x}_{y}_{k}"],z3.BitVecVal(1,1),z3.BitVecVal(0,1)) for k in range(64)]
    return z3.Concat(*reversed(bits))
for x in range(5):
    for y in range(5): A[x][y]=lane(x,y)
C=[A[x][0]^A[x][1]^A[x][2]^A[x][3]^A[x][4] for x in range(5)]
D=[C[(x-1)%5]^z3.RotateLeft(C[(x+1)%5],1) for x in range(5)]
A2=[[A[x][y]^D[x] for y in range(5)] for x in range(5)]
B=[[None]*5 for _ in range(5)]
for x in range(5):
    for y in range(5): B[y][(2*x+3*y)%5]=z3.RotateLeft(A2[x][y],rot[x][y])
A3=[[B[x][y]^(~B[(x+1)%5][y]&B[(x+2)%5][y]) for y in range(5)] for x in range(5)]
A3[0][0]=A3[0][0]^z3.BitVecVal(RC[rnd],64)
s=z3.Solver(); s.add(*defs)
diff=[]
i=0
for x in range(5):
    for y in range(5):
        for k in range(64):
            ref=z3.Extract(k,k,A3[x][y])==1
            diff.append(outs[i]!=ref); i+=1

import time
tt=time.time(); worst=0
for lane in range(25):
    s.push(); s.add(z3.Or(*diff[lane*64:(lane+1)*64])); t=time.time(); r=s.check(); dt=time.time()-t; worst=max(worst,dt); s.pop()
    assert r==z3.unsat,(lane,r)
print("25 per-lane queries all unsat; total",round(time.time()-tt,1),"s; worst lane",round(worst,1),"s")
