import z3, sys, time
P = 21888242871839275222246405745257275088548364400416034343698204186575808495617
def run(D, B, mutate=None, tlimit=120000):
    s = z3.Solver(); s.set("timeout", tlimit)
    H = z3.Function("H", z3.IntSort(), z3.IntSort(), z3.IntSort())
    cnt=[0]; happs=set()
    def fresh(n):
        cnt[0]+=1
        v = z3.Int(f"{n}_{cnt[0]}"); s.add(v>=0, v<P); return v
    def Hc(a,b):
        t = H(a,b); s.add(t>=0, t<P); return t
    def cong0(E, lo, hi):
        # E == 0 mod P, with k in [lo,hi]
        if lo==hi==0: return E==0
        cnt[0]+=1
        k = z3.Int(f"k_{cnt[0]}"); s.add(k>=lo,k<=hi); return E == k*P
    start = fresh("start"); pre = fresh("pre")
    prev = pre; prev_spec = pre; bad=[]
    for i in range(B):
        # idx = start + i mod p
        idx = fresh("idx"); s.add(cong0(start + i - idx, 0, 1))
        item = fresh("item"); sibs=[fresh("sib") for _ in range(D)]
        bits=[fresh("b") for _ in range(D)]
        for b in bits: s.add(z3.Or(b==0,b==1))
        s.add(cong0(sum(2**j*bits[j] for j in range(D)) - idx, -1, (2**D)//P + 1))
        def circ(leaf):
            cur = leaf
            for j in range(D):
                d1=fresh("d1"); d2=fresh("d2")
                s.add(z3.If(bits[j]==1, d1==sibs[j], d1==cur))
                s.add(z3.If(bits[j]==1, d2==cur, d2==sibs[j]))
                cur = Hc(d1,d2)
            return cur
        def spec(leaf):
            cur = leaf
            for j in range(D):
                cur = z3.If(bits[j]==1, Hc(sibs[j],cur), Hc(cur,sibs[j]))
            return cur
        re = circ(z3.IntVal(0))
        if mutate!="noempty": s.add(re==prev)
        rn = circ(item)
        bad.append(spec(z3.IntVal(0)) != prev_spec)
        prev_spec = spec(item); prev = rn
    bad.append(prev != prev_spec)
    s.add(z3.Or(*bad))
    t=time.time(); r=s.check(); return r, round(time.time()-t,2)
for D,B in [(1,1),(3,2),(8,2),(16,2),(32,1),(32,4)]:
    print(D,B, run(D,B), flush=True)
print("mut", run(3,2,"noempty"))
