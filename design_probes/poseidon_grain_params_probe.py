import re,sys
P=0x30644e72e131a029b85045b68181585d2833e84879b9709143e1f593f0000001
def params(t,RF,RP,n=254,field=1,sbox=0):
    bits=[]
    def put(v,w): bits.extend(int(b) for b in bin(v)[2:].zfill(w))
    put(field,2); put(sbox,4); put(n,12); put(t,12); put(RF,10); put(RP,10); bits.extend([1]*30)
    assert len(bits)==80
    st=bits[:]
    def step():
        nb=st[62]^st[51]^st[38]^st[23]^st[13]^st[0]
        st.pop(0); st.append(nb); return nb
    for _ in range(160): step()
    def rbits(k):
        out=[]
        while len(out)<k:
            b1=step(); b2=step()
            if b1==1: out.append(b2)
        return out
    def rint(): return int(''.join(map(str,rbits(n))),2)
    rc=[]
    while len(rc)<(RF+RP)*t:
        v=rint()
        if v<P: rc.append(v)
    # mds
    while True:
        rl=[rint()%P for _ in range(2*t)]
        if len(set(rl))==2*t: break
    xs,ys=rl[:t],rl[t:]
    M=[[pow((xs[i]+ys[j])%P,-1,P) for j in range(t)] for i in range(t)]
    return rc,M
src=open('/repo/prover/poseidon/constants.go').read()
def table(name):
    m=re.search(r'var '+name+r' = \[\]\[\]frontend.Variable\{(.*?)\n\}', src, re.S)
    rows=re.findall(r'\{(.*?)\}',m.group(1),re.S)
    return [[int(x,16) for x in re.findall(r'hex\("(0x[0-9a-fA-F]+)"\)',r)] for r in rows]
for t,RP in [(2,56),(3,57)]:
    rc,M=params(t,8,RP)
    C=table(f'CONSTANTS_{t}'); MD=table(f'MDS_{t}')
    flat=[x for r in C for x in r]
    print(t,"rows",len(C),"rc equal:",flat==rc,"first eq:",flat[0]==rc[0], "mds equal:",MD==M, "mdsT equal:",MD==[list(r) for r in zip(*M)])
