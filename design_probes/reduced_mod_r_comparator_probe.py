import json,sys,time,z3
from blift import Lift
d=json.load(open(sys.argv[1])); n=int(sys.argv[2]); t0=time.time(); L=Lift(d); P=L.P
ok=z3.And(*[L.assert_term(f) for f in L.asserts]) if L.asserts else z3.BoolVal(True)
inb={L.atoms[a][1]:L.zb[a] for a in L.atoms if L.atoms[a][0]=='in'}
bits=[z3.If(inb[f"In_{i}"],z3.BitVecVal(1,1),z3.BitVecVal(0,1)) for i in range(n)]
val=z3.Concat(*reversed(bits))
spec = z3.ULT(val, z3.BitVecVal(P,n)) if n>=P.bit_length() else z3.BoolVal(True)
s=z3.Solver(); s.add(*L.defs); s.add(ok!=spec); t=time.time(); r=s.check()
print(sys.argv[1],"field bits",P.bit_length(),"n",n,"asserts",len(L.asserts),"lift",round(t-t0,2),"equiv:",r,round(time.time()-t,2),"s")
