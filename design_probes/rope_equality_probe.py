import z3, time, sys
W=64
def bv(n): return z3.BitVecVal(n,W)
class Seg:
    def __init__(s,kind,length,x=None): s.kind=kind; s.len=length; s.x=x
def L_of(x,name,s):
    """byte length of 256-bit x as BV64 with defining constraints"""
    L=z3.BitVec('L_'+name,W)
    s.add(z3.ULE(L,bv(32)))
    # x < 2^(8L)  and (L==0 or x >= 2^(8(L-1)))
    sh=z3.ZeroExt(256-W, L*8)
    one=z3.BitVecVal(1,256)
    s.add(z3.Or(L==32, z3.ULT(x, one<<sh)))
    s.add(z3.Or(L==0, z3.UGE(x, one<<(sh-8))))
    return L
def byte_minbe(x,L,k):  # k-th byte (BV64 index) of minimal big-endian of x with length L
    sh=z3.ZeroExt(256-W,(L-1-k)*8)
    return z3.Extract(7,0,z3.LShR(x,sh))
def byte_be(x,n,k):     # fixed n-byte big endian, k concrete or symbolic
    sh=(bv(n)-1-k)*8
    if x.size()>W: sh=z3.ZeroExt(x.size()-W,sh)
    elif x.size()<W: x=z3.ZeroExt(W-x.size(),x)
    return z3.Extract(7,0,z3.LShR(x,sh))
def byteAt(rope,i):
    """i: python int; returns BV8 term"""
    off=bv(0); res=z3.BitVecVal(0,8); conds=[]
    out=None
    for sg in rope:
        k=bv(i)-off
        inside=z3.And(z3.ULE(off,bv(i)), z3.ULT(bv(i),off+sg.len))
        if sg.kind=='minbe': b=byte_minbe(sg.x,sg.len,k)
        elif sg.kind=='be': b=byte_be(sg.x,sg.n,k)
        elif sg.kind=='zeros': b=z3.BitVecVal(0,8)
        conds.append((inside,b)); off=off+sg.len
    t=z3.BitVecVal(0,8)
    for c,b in reversed(conds): t=z3.If(c,b,t)
    return t
def total(rope):
    t=bv(0)
    for sg in rope: t=t+sg.len
    return t
def be(x,n):
    sg=Seg('be',bv(n),x); sg.n=n; return sg
def run(B,fixed,pad_comms=True):
    s=z3.Solver(); s.set("timeout",300000)
    start=z3.BitVec('start',32); pre=z3.BitVec('pre',256); post=z3.BitVec('post',256)
    comms=[z3.BitVec(f'c{i}',256) for i in range(B)]
    data=[be(start,4)]
    for nm,x in (('pre',pre),('post',post)):
        L=L_of(x,nm,s)
        if fixed: data.append(Seg('zeros',bv(32)-L))
        data.append(Seg('minbe',L,x))
    for i,c in enumerate(comms):
        L=L_of(c,f'c{i}',s)
        # code: if len<32 { pad } -- both branches give zeros(32-L) (n=0 when L==32)
        if pad_comms: data.append(Seg('zeros',bv(32)-L))
        data.append(Seg('minbe',L,c))
    ref=[be(start,4),be(pre,32),be(post,32)]+[be(c,32) for c in comms]
    N=4+32*(2+B)
    neq=[total(data)!=bv(N)]
    for i in range(N):
        neq.append(z3.And(z3.ULT(bv(i),total(data)), byteAt(data,i)!=byteAt(ref,i)))
    s.add(z3.Or(*neq))
    t=time.time(); r=s.check(); dt=round(time.time()-t,2)
    msg=""
    if r==z3.sat:
        m=s.model(); msg=" pre=%x post=%x"%(m.eval(pre,True).as_long(), m.eval(post,True).as_long())
    print(f"B={B} fixed={fixed}: {r} {dt}s{msg}",flush=True)
for B in (0,1,2,3):
    run(B,False)
for B in (0,1,2,3):
    run(B,True)
