import json, sys, time, z3, itertools
class Lift:
    def __init__(s,d,bool_inputs=True,marker_bool=True):
        s.d=d; s.P=int(d['Field']); P=s.P
        s.nin=len(d['Public'])+len(d['Secret']); s.n=s.nin+d['NbInternal']; s.names=d['Public']+d['Secret']
        s.atoms={}; s.zb={}; s.memo={}; s.defs=[]; s.mv={}; s.val=[None]*s.n; s.val[0]={'one':1}; s.asserts=[]
        for i in range(1,s.nin): s.val[i]={s.new_in(s.names[i]):1}
        s.hint_of={}
        for hi,h in enumerate(d['Hints'] or []):
            for k,w in enumerate(h['Wires']): s.val[w]={s.new_in(f"h{hi}_{k}"):1}
        s.run()
    def new_in(s,name):
        a=len(s.atoms); s.atoms[a]=('in',name); s.zb[a]=z3.Bool(name); return a
    def new_fn(s,sup,table):
        sup=list(sup); table=list(table); i=0
        while i<len(sup):
            k=len(sup)
            if all(table[m]==table[m^(1<<i)] for m in range(1<<k)):
                table=[table[m] for m in range(1<<k) if not (m>>i)&1]; sup.pop(i)
            else: i+=1
        key=(tuple(sup),tuple(table))
        if key in s.memo: return s.memo[key]
        if len(sup)==0: return ('const',table[0])
        if len(sup)==1 and table==[0,1]: return sup[0]
        a=len(s.atoms); s.atoms[a]=('fn',tuple(sup),tuple(table))
        terms=[z3.And(*[ s.zb[x] if (m>>i)&1 else z3.Not(s.zb[x]) for i,x in enumerate(sup)]) for m in range(1<<len(sup)) if table[m]]
        v=z3.Bool(f"f{a}"); s.defs.append(v==(z3.Or(*terms) if terms else z3.BoolVal(False))); s.zb[a]=v
        s.memo[key]=a; return a
    def lin(s,l):
        out={}
        for c,w in l:
            c=int(c)%s.P
            if not c: continue
            v={'one':1} if int(w)==4294967295 else s.val[int(w)]
            if v is None: return None
            for a,ca in v.items(): out[a]=(out.get(a,0)+c*ca)%s.P
        return {a:c for a,c in out.items() if c}
    def aval(s,a,asg):
        if a in s.mv:
            sp,tb=s.mv[a]; m=0
            for i,x in enumerate(sp): m|=asg[x]<<i
            return tb[m]
        return asg[a]
    def ev(s,le,asg): return (le.get('one',0)+sum(c*s.aval(a,asg) for a,c in le.items() if a!='one'))%s.P
    def sup(s,le):
        out=set()
        for a in le:
            if a=='one': continue
            if a in s.mv: out|=set(s.mv[a][0])
            else: out.add(a)
        return sorted(out)
    def close(s,sp):
        sp=set(sp); dep=[]; ch=True
        while ch:
            ch=False
            for a in sorted(sp):
                if s.atoms[a][0]=='fn' and set(s.atoms[a][1])<=(sp-{a}): sp.discard(a); dep.append(a); ch=True
        return sorted(sp),dep
    def assignments(s,sp):
        free,dep=s.close(sp)
        for m in range(1<<len(free)):
            asg={a:(m>>i)&1 for i,a in enumerate(free)}; todo=list(dep)
            while todo:
                for a in list(todo):
                    sp2,tb=s.atoms[a][1],s.atoms[a][2]
                    if all(x in asg for x in sp2):
                        k=0
                        for i,x in enumerate(sp2): k|=asg[x]<<i
                        asg[a]=tb[k]; todo.remove(a)
            yield asg
    def expand1(s,sp):
        out=set(sp)
        for a in sp:
            if s.atoms[a][0]=='fn': out|=set(s.atoms[a][1])
        return sorted(out)
    def cut(s,le):
        sp=s.sup(le)
        if len(sp)<=1 and not any(a in s.mv for a in le): return le
        for _ in range(3):
            free,dep=s.close(sp); vals=[s.ev(le,asg) for asg in s.assignments(sp)]; vs=sorted(set(vals))
            if len(vs)<=2 or len(s.expand1(sp))>10: break
            sp=s.expand1(sp)
        if len(vs)==1: return {'one':vs[0]} if vs[0] else {}
        if len(vs)==2:
            u,v=vs; b=s.new_fn(free,[1 if x==v else 0 for x in vals])
            if isinstance(b,tuple): return {'one':(u if b[1]==0 else v)} if (u if b[1]==0 else v) else {}
            out={b:(v-u)%s.P}
            if u: out['one']=u
            return out
        return le
    def run(s):
        P=s.P
        for c in s.d['Constraints']:
            unk=set(int(w) for l in (c['L'],c['R'],c['O']) for cc,w in l if int(cc)%P and s.val[int(w)] is None)
            L=s.cut(s.lin(c['L'])); R=s.cut(s.lin(c['R']))
            if not unk:
                O=s.lin(c['O']); sp=sorted(set(s.sup(L))|set(s.sup(R))|set(s.sup(O)))
                assert len(sp)<=10,(c,sp)
                free,dep=s.close(sp)
                tab=[1 if (s.ev(L,a)*s.ev(R,a)-s.ev(O,a))%P==0 else 0 for a in s.assignments(sp)]
                if len(free)==1 and tab==[1,1]: continue
                f=s.new_fn(free,tab)
                if f==('const',1): continue
                s.asserts.append(f)
            else:
                assert len(unk)==1
                w=unk.pop(); cw=[int(cc)%P for cc,ww in c['O'] if int(ww)==w][0]; inv=pow(cw,-1,P)
                rest=s.lin([x for x in c['O'] if int(x[1])!=w]); sp=sorted(set(s.sup(L))|set(s.sup(R))|set(s.sup(rest)))
                assert len(sp)<=10,(c,sp)
                free,dep=s.close(sp)
                vals=[((s.ev(L,a)*s.ev(R,a)-s.ev(rest,a))*inv)%P for a in s.assignments(sp)]; vs=sorted(set(vals))
                if len(vs)==1: s.val[w]={'one':vs[0]} if vs[0] else {}
                elif len(vs)==2:
                    u,v=vs; b=s.new_fn(free,[1 if x==v else 0 for x in vals]); le={b:(v-u)%P}
                    if u: le['one']=u
                    s.val[w]=le
                else:
                    a=('mv',w); s.mv[a]=(tuple(free),tuple(vals)); s.val[w]={a:1}
    def asbool(s,le):
        le=s.cut(le)
        if not le: return z3.BoolVal(False)
        if le=={'one':1}: return z3.BoolVal(True)
        if len(le)==1:
            (a,c),=le.items(); assert c==1,le; return s.zb[a]
        sp=s.sup(le); assert len(sp)==1,le
        v0=s.ev(le,{sp[0]:0}); v1=s.ev(le,{sp[0]:1}); assert (v0,v1)==(1,0),le
        return z3.Not(s.zb[sp[0]])
    def assert_term(s,f): return z3.BoolVal(f[1]==1) if isinstance(f,tuple) else s.zb[f]
