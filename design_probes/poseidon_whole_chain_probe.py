import json,sys,time,re,z3
sys.path.insert(0,'/verif/design_probes')
P=0x30644e72e131a029b85045b68181585d2833e84879b9709143e1f593f0000001
# --- Grain params (independent oracle)
def params(t,RF,RP,n=254):
    bits=[]
    def put(v,w): bits.extend(int(b) for b in bin(v)[2:].zfill(w))
    put(1,2); put(0,4); put(n,12); put(t,12); put(RF,10); put(RP,10); bits.extend([1]*30)
    st=bits[:]
    def step():
        nb=st[62]^st[51]^st[38]^st[23]^st[13]^st[0]; st.pop(0); st.append(nb); return nb
    for _ in range(160): step()
    def rbits(k):
        out=[]
        while len(out)<k:
            b1=step(); b2=step()
            if b1: out.append(b2)
        return out
    rint=lambda: int(''.join(map(str,rbits(n))),2)
    rc=[]
    while len(rc)<(RF+RP)*t:
        v=rint()
        if v<P: rc.append(v)
    while True:
        rl=[rint()%P for _ in range(2*t)]
        if len(set(rl))==2*t: break
    xs,ys=rl[:t],rl[t:]
    return rc,[[pow((xs[i]+ys[j])%P,-1,P) for j in range(t)] for i in range(t)]
# --- LE algebra with structurally hash-consed product atoms
atoms={}  # key -> id
def canon(le): return tuple(sorted(le.items(),key=lambda kv:str(kv[0])))
def add(a,b,cb=1):
    out=dict(a)
    for k,c in b.items(): out[k]=(out.get(k,0)+cb*c)%P
    return {k:c for k,c in out.items() if c}
def scale(a,g): return {k:(c*g)%P for k,c in a.items() if (c*g)%P}
def monic(le):
    k=sorted(le,key=str)[0]; c=le[k]; return scale(le,pow(c,-1,P)),c
def mul(a,b):
    if not a or not b: return {}
    if set(a)=={'one'}: return scale(b,a['one'])
    if set(b)=={'one'}: return scale(a,b['one'])
    a,ca=monic(a); b,cb=monic(b)
    key=tuple(sorted([canon(a),canon(b)]))
    if key not in atoms: atoms[key]=('fm',len(atoms))
    return {atoms[key]:(ca*cb)%P}
def ref_poseidon(inputs):
    t=len(inputs); RP={2:56,3:57}[t]; rc,M=params(t,8,RP)
    st=list(inputs)
    def sbox(x): x2=mul(x,x); x4=mul(x2,x2); return mul(x,x4)
    for r in range(8+RP):
        st=[add(st[i],{'one':rc[r*t+i]}) for i in range(t)]
        full = r<4 or r>=4+RP
        st=[sbox(st[i]) if (full or i==0) else st[i] for i in range(t)]
        new=[]
        for i in range(t):
            acc={}
            for j in range(t): acc=add(acc,scale(st[j],M[i][j]))
            new.append(acc)
        st=new
    return st[0]
# --- lift R1CS in same algebra
d=json.load(open(sys.argv[1]))
nin=len(d['Public'])+len(d['Secret']); n=nin+d['NbInternal']; names=d['Public']+d['Secret']
val=[None]*n; val[0]={'one':1}
for i in range(1,nin): val[i]={('in',names[i]):1}
def lin(l):
    out={}
    for c,w in l:
        v=val[int(w)]
        if v is None: return None
        out=add(out,v,int(c)%P)
    return out
asserts=[]
for c in d['Constraints']:
    L,R=lin(c['L']),lin(c['R'])
    unk=[int(w) for cc,w in c['O'] if val[int(w)] is None]
    if unk:
        w=unk[0]; cw=[int(cc)%P for cc,ww in c['O'] if int(ww)==w][0]
        rest=lin([x for x in c['O'] if int(x[1])!=w])
        val[w]=scale(add(mul(L,R),rest,P-1),pow(cw,-1,P))
    else:
        asserts.append(add(mul(L,R),lin(c['O']),P-1))
A={('in','A'):1}; B={('in','B'):1}
ref=ref_poseidon([{},A,B])
# the only assertion is out == Out  => out = LE(Out) + assertion residue
real=add(asserts[0],{('in','Out'):1}) if asserts[0].get(('in','Out'))==P-1 else add(scale(asserts[0],P-1),{('in','Out'):1})
print("atoms",len(atoms),"real terms",len(real),"ref terms",len(ref),"structurally equal:",canon(real)==canon(ref))
# SMT: declare atoms as UF apps; assert real != ref
s=z3.Solver(); FM=z3.Function('fmul',z3.IntSort(),z3.IntSort(),z3.IntSort())
zv={}
def zatom(k):
    if k=='one': return z3.IntVal(1)
    if k not in zv:
        zv[k]=z3.Int(str(k).replace(' ','')); s.add(zv[k]>=0,zv[k]<P)
    return zv[k]
def zle(le,name):
    u=z3.Int('u_'+name); k=z3.Int('k_'+name)
    e=sum((c if c<=P//2 else c-P)*zatom(a) for a,c in le.items()) if le else z3.IntVal(0)
    s.add(u>=0,u<P,e-u==k*P); return u
t=time.time(); s.add(zle(real,'real')!=zle(ref,'ref')); print("smt:",s.check(),round(time.time()-t,2),"s")
