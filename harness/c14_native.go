package server

// C14 native replay (real net/http, real sockets on loopback):
//   scenario "rebind":   many Run / RequestStop / AwaitStop cycles with the stop racing the start-up; immediately afterwards both
//                        addresses must be bindable again (a schedule the solver found: stop overtakes ListenAndServe between bind and track);
//   scenario "inflight": a prove request is in flight (body half sent) when the stop is requested and is completed several seconds later:
//                        it must still receive its full response, and AwaitStop must return only after that.
import (
	"bufio"
	"fmt"
	"io"
	"math/big"
	"net"
	"os"
	"runtime"
	"strings"
	"time"

	"encoding/json"

	"github.com/rs/zerolog"
	"worldcoin/gnark-mbu/poseidon_tree"
	"worldcoin/gnark-mbu/prover"
)

func verifFreeAddr() string {
	l, _ := net.Listen("tcp", "127.0.0.1:0")
	a := l.Addr().String()
	l.Close()
	return a
}

func VerifHarness_C14_Native() {
	verifLoad()
	zerolog.SetGlobalLevel(zerolog.Disabled)
	switch verifDraws["str:scenario"] {
	case "rebind":
		cfg := Config{ProverAddress: verifFreeAddr(), MetricsAddress: verifFreeAddr(), Mode: DeletionMode}
		n := 6000
		deadline := time.Now().Add(150 * time.Second)
		hits := 0
		for i := 0; i < n && time.Now().Before(deadline) && hits == 0; i++ {
			if i%7 == 3 {
				runtime.Gosched()
			}
			done := make(chan struct{})
			go func() {
				defer func() {
					if r := recover(); r != nil {
						hits++ // Run's start goroutine panics on "address already in use" left over from the previous cycle
					}
					close(done)
				}()
				job := Run(&cfg, nil)
				job.RequestStop()
				job.AwaitStop()
			}()
			select {
			case <-done:
			case <-time.After(20 * time.Second):
				verifAssert(false, "stop and wait never deadlock")
				return
			}
			for _, a := range []string{cfg.ProverAddress, cfg.MetricsAddress} {
				l, err := net.Listen("tcp", a)
				if err != nil {
					hits++
					fmt.Fprintln(os.Stderr, "cycle", i, "after AwaitStop returned:", err)
				} else {
					l.Close()
				}
			}
		}
		verifAssert(hits == 0, "both addresses can be bound again immediately after AwaitStop returns")
	case "inflight":
		depth, batch := 2, 1
		ps, err := prover.SetupDeletion(uint32(depth), uint32(batch))
		verifAssert(err == nil, "setup")
		tree := poseidon_tree.NewTree(depth)
		tree.Update(0, *big.NewInt(9))
		p := prover.DeletionParameters{DeletionIndices: []uint32{0}, IdComms: []big.Int{*big.NewInt(9)}}
		p.PreRoot = tree.Root()
		p.MerkleProofs = [][]big.Int{tree.Update(0, *big.NewInt(0))}
		p.PostRoot = tree.Root()
		p.ComputeInputHashDeletion()
		body, _ := json.Marshal(&p)
		cfg := Config{ProverAddress: verifFreeAddr(), MetricsAddress: verifFreeAddr(), Mode: DeletionMode}
		job := Run(&cfg, ps)
		var conn net.Conn
		for i := 0; i < 100; i++ {
			conn, err = net.Dial("tcp", cfg.ProverAddress)
			if err == nil {
				break
			}
			time.Sleep(50 * time.Millisecond)
		}
		verifAssert(err == nil, "server accepts connections")
		if err != nil {
			return
		}
		half := len(body) / 2
		fmt.Fprintf(conn, "POST /prove HTTP/1.1\r\nHost: x\r\nContent-Type: application/json\r\nContent-Length: %d\r\n\r\n", len(body))
		conn.Write(body[:half])
		time.Sleep(500 * time.Millisecond) // the request is now in flight (handler blocked in io.ReadAll)
		returned := make(chan time.Time, 1)
		go func() {
			job.RequestStop()
			job.AwaitStop()
			returned <- time.Now()
		}()
		hold := 7 * time.Second
		select {
		case <-returned:
			verifAssert(false, "AwaitStop returns only after the in-flight request has completed")
		case <-time.After(hold):
		}
		sent := time.Now()
		conn.Write(body[half:])
		conn.SetReadDeadline(time.Now().Add(120 * time.Second))
		resp, rerr := io.ReadAll(bufio.NewReader(conn))
		ok := rerr == nil && strings.HasPrefix(string(resp), "HTTP/1.1 200") && strings.Contains(string(resp), `"ar"`)
		verifAssert(ok, "the request accepted before the stop receives its full 200 response")
		select {
		case t := <-returned:
			verifAssert(!t.Before(sent), "AwaitStop returns only after the in-flight request has completed")
		case <-time.After(120 * time.Second):
			verifAssert(false, "stop and wait never deadlock")
		}
		for _, a := range []string{cfg.ProverAddress, cfg.MetricsAddress} {
			l, err := net.Listen("tcp", a)
			verifAssert(err == nil, "both addresses can be bound again immediately after AwaitStop returns")
			if err == nil {
				l.Close()
			}
		}
	}
}
