package server

import (
	"github.com/consensys/gnark/backend/groth16"
	"github.com/consensys/gnark/constraint"
)

func verifStubPK(sys string) groth16.ProvingKey          { return nil }
func verifStubVK(sys string) groth16.VerifyingKey        { return nil }
func verifStubCS(sys string) constraint.ConstraintSystem { return nil }
