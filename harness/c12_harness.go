package prover

import "github.com/consensys/gnark/frontend"

// C12 harness: every construction path instantiates the circuit for (depth, batch) identically; Define refuses depth > 31 for deletion.

func verifCheckInstance(k int, deletion bool, depth, batch uint32) {
	want := "prover.InsertionMbuCircuit"
	if deletion {
		want = "prover.DeletionMbuCircuit"
	}
	verifAssert(verifCompiledKind(k) == want, "the circuit of the requested mode is compiled")
	verifAssert(verifCompiledInt(k, "Depth") == int(depth), "circuit.Depth is the requested tree depth")
	verifAssert(verifCompiledInt(k, "BatchSize") == int(batch), "circuit.BatchSize is the requested batch size")
	verifAssert(verifCompiledLen(k, "IdComms", -1) == int(batch), "len(IdComms) is the batch size")
	verifAssert(verifCompiledLen(k, "MerkleProofs", -1) == int(batch), "len(MerkleProofs) is the batch size")
	if deletion {
		verifAssert(verifCompiledLen(k, "DeletionIndices", -1) == int(batch), "len(DeletionIndices) is the batch size")
	}
	for i := 0; i < int(batch); i++ {
		verifAssert(verifCompiledLen(k, "MerkleProofs", i) == int(depth), "every merkle proof row has the tree depth")
	}
}

func VerifHarness_C12_Paths() {
	depth := verifNondetU32("depth")
	batch := verifNondetU32("batch")
	mx := uint32(verifParam("maxdim", 3))
	verifAssume(depth <= mx && batch <= mx)
	deletion := verifNondetBool("deletion")
	path := verifNondetLen("path", 2) // 0 = BuildR1CS* (setup, r1cs), 1 = Import*Setup, 2 = ExtractLean
	if path == 0 {
		if deletion {
			_, err := BuildR1CSDeletion(depth, batch)
			verifAssume(err == nil)
		} else {
			_, err := BuildR1CSInsertion(depth, batch)
			verifAssume(err == nil)
		}
		verifAssert(verifCompiledCount() == 1, "one circuit is compiled")
		verifCheckInstance(0, deletion, depth, batch)
	} else if path == 1 {
		if deletion {
			_, err := ImportDeletionSetup(depth, batch, "pk", "vk")
			verifAssume(err == nil)
		} else {
			_, err := ImportInsertionSetup(depth, batch, "pk", "vk")
			verifAssume(err == nil)
		}
		verifAssert(verifCompiledCount() == 1, "one circuit is compiled")
		verifCheckInstance(0, deletion, depth, batch)
	} else {
		_, err := ExtractLean(depth, batch)
		verifAssume(err == nil)
		verifAssert(verifCompiledCount() == 2, "both circuits are extracted")
		verifCheckInstance(0, true, depth, batch)
		verifCheckInstance(1, false, depth, batch)
	}
}

// Both ways of obtaining a constraint system for keys (setup/r1cs and key import) hand the compiler the same options: an option
// (compression threshold, capacity hints ...) changes the constraint system, and keys made for one do not fit the other.
func VerifHarness_C12_Options() {
	depth := verifNondetU32("depth")
	batch := verifNondetU32("batch")
	verifAssume(depth <= 2 && batch <= 2)
	if verifNondetBool("deletion") {
		_, err := BuildR1CSDeletion(depth, batch)
		verifAssume(err == nil)
		_, err = ImportDeletionSetup(depth, batch, "pk", "vk")
		verifAssume(err == nil)
	} else {
		_, err := BuildR1CSInsertion(depth, batch)
		verifAssume(err == nil)
		_, err = ImportInsertionSetup(depth, batch, "pk", "vk")
		verifAssume(err == nil)
	}
	verifAssert(verifCompiledCount() == 2, "both paths compile one circuit")
	verifAssert(verifCompiledOptions(0) == verifCompiledOptions(1), "the import path compiles the same constraint system as setup")
}

func VerifHarness_C12_DepthGuard() {
	depth := verifNondetInt("depth")
	batch := verifNondetLen("batch", 2)
	c := DeletionMbuCircuit{Depth: depth, BatchSize: batch, DeletionIndices: make([]frontend.Variable, batch), IdComms: make([]frontend.Variable, batch)}
	proofs := make([][]frontend.Variable, batch)
	c.MerkleProofs = proofs
	err := c.Define(verifStubAPI())
	verifAssert((err != nil) == (depth > 31), "DeletionMbuCircuit.Define returns an error exactly when Depth > 31")
}

// roots for the structural scan: everything the two circuit definitions can reach (gadget types enter through the interface
// conversions inside Define / DefineGadget, so new gadgets are followed as well)
var verifC12Sink []interface{}

func VerifHarness_C12_Roots() {
	verifC12Sink = append(verifC12Sink, frontend.Circuit(&InsertionMbuCircuit{}), frontend.Circuit(&DeletionMbuCircuit{}))
}
