package server

// C13 harness: one invocation of the /prove handler, with everything that exists before the invocation (handler, proving system,
// package-level state) marked shared. The engine extracts the invocation's accesses to shared state; two invocations are then
// interleaved in SMT (timestamps, mutex exclusion) to look for a conflicting pair.
import (
	"net/http"

	"worldcoin/gnark-mbu/prover"
)

func VerifHarness_C13_Invocation() {
	mode := InsertionMode
	if verifNondetBool("deletion") {
		mode = DeletionMode
	}
	ps := &prover.ProvingSystem{TreeDepth: verifNondetU32("depth"), BatchSize: verifNondetU32("batch"),
		ProvingKey: verifStubPK("sys"), VerifyingKey: verifStubVK("sys"), ConstraintSystem: verifStubCS("sys")}
	verifAssume(ps.TreeDepth <= 1 && ps.BatchSize <= 1)
	h := proveHandler{provingSystem: ps, mode: mode}
	verifBeginInvocation()
	w := verifRecorder()
	r := &http.Request{Method: verifNondetString("method"), Body: verifBody()}
	h.ServeHTTP(w, r)
	verifNote("invocation-done")
}
