package server

// C13 harness: invocations of the /prove handler on one shared handler value. Everything that exists before an invocation
// (handler, proving system, package-level state, and whatever earlier invocations left reachable) is shared with it.
// The engine extracts each invocation's accesses to shared state with their locksets; pairs of invocations are interleaved in SMT.
import (
	"net/http"

	"worldcoin/gnark-mbu/prover"
)

var verifH http.Handler

func VerifHarness_C13_Setup() {
	mode := InsertionMode
	if verifNondetBool("deletion") {
		mode = DeletionMode
	}
	ps := &prover.ProvingSystem{TreeDepth: verifNondetU32("depth"), BatchSize: verifNondetU32("batch"),
		ProvingKey: verifStubPK("sys"), VerifyingKey: verifStubVK("sys"), ConstraintSystem: verifStubCS("sys")}
	verifAssume(ps.TreeDepth <= 1 && ps.BatchSize <= 1)
	verifH = verifDeploy(ps, mode)
}

func VerifHarness_C13_Invoke() {
	h := verifH
	verifBeginInvocation()
	w := verifRecorder()
	r := &http.Request{Method: verifNondetString("method"), Body: verifBody()}
	h.ServeHTTP(w, r)
	verifNote("invocation-done")
}
