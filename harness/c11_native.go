package prover

// C11/C15 native replay: a real proving system (deletion, depth 3 / batch 2 so that a depth/batch swap is visible) written in both
// formats, reloaded, cross prove/verify; every header offset, every section boundary +-1 and a sweep of other offsets cut and reloaded.
import (
	"bytes"
	"math/big"
	"os"
	"path/filepath"

	"worldcoin/gnark-mbu/poseidon_tree"
)

func VerifHarness_C11_Native() {
	depth, batch := 3, 2
	ps, err := SetupDeletion(uint32(depth), uint32(batch))
	verifAssert(err == nil, "setup")
	tree := poseidon_tree.NewTree(depth)
	for i := 0; i < 4; i++ {
		tree.Update(i, *big.NewInt(int64(i + 1)))
	}
	p := DeletionParameters{DeletionIndices: []uint32{0, 2}, IdComms: []big.Int{*big.NewInt(1), *big.NewInt(3)}}
	p.PreRoot = tree.Root()
	p.MerkleProofs = [][]big.Int{tree.Update(0, *big.NewInt(0)), tree.Update(2, *big.NewInt(0))}
	p.PostRoot = tree.Root()
	p.ComputeInputHashDeletion()
	proof0, err := ps.ProveDeletion(&p)
	verifAssert(err == nil, "original system proves")

	var comp, raw bytes.Buffer
	_, err = ps.WriteTo(&comp)
	verifAssert(err == nil, "writing succeeds")
	_, err = ps.WriteRawTo(&raw)
	verifAssert(err == nil, "writing succeeds")
	// the header values of the symbolic counterexample (any uint32 pair) on the real writers/readers: the header is independent of the sections
	verifLoad()
	if _, ok := verifDraws["depth"]; ok {
		hd := *ps
		hd.TreeDepth, hd.BatchSize = verifNondetU32("depth"), verifNondetU32("batch")
		for _, rawf := range []bool{false, true} {
			var b bytes.Buffer
			if rawf {
				_, err = hd.WriteRawTo(&b)
			} else {
				_, err = hd.WriteTo(&b)
			}
			verifAssert(err == nil, "writing succeeds")
			var q ProvingSystem
			_, err = q.UnsafeReadFrom(bytes.NewReader(b.Bytes()))
			verifAssert(err == nil, "reading back what was written succeeds")
			verifAssert(err != nil || q.TreeDepth == hd.TreeDepth, "tree depth is restored")
			verifAssert(err != nil || q.BatchSize == hd.BatchSize, "batch size is restored")
		}
	}
	dir, _ := os.MkdirTemp("", "verifc11")
	defer os.RemoveAll(dir)
	for name, data := range map[string][]byte{"compressed": comp.Bytes(), "raw": raw.Bytes()} {
		var q ProvingSystem
		_, err := q.UnsafeReadFrom(bytes.NewReader(data))
		verifAssert(err == nil, "reading back what was written succeeds")
		if err != nil {
			continue
		}
		verifAssert(q.TreeDepth == ps.TreeDepth, "tree depth is restored")
		verifAssert(q.BatchSize == ps.BatchSize, "batch size is restored")
		pr, err := q.ProveDeletion(&p)
		verifAssert(err == nil && pr != nil && ps.VerifyDeletion(p.InputHash, pr) == nil, "the proving key is restored from the proving-key section")
		verifAssert(proof0 != nil && q.VerifyDeletion(p.InputHash, proof0) == nil, "the verifying key is restored from the verifying-key section")
		// convert-to-raw
		var conv bytes.Buffer
		_, err = q.WriteRawTo(&conv)
		verifAssert(err == nil, "conversion to raw writes")
		var r ProvingSystem
		_, err = r.UnsafeReadFrom(bytes.NewReader(conv.Bytes()))
		verifAssert(err == nil && r.TreeDepth == ps.TreeDepth && r.BatchSize == ps.BatchSize, "converted file restores depth and batch")
		if err == nil {
			pr, err := r.ProveDeletion(&p)
			verifAssert(err == nil && pr != nil && ps.VerifyDeletion(p.InputHash, pr) == nil, "converted file restores keys and constraint system")
		}
		// truncation: section boundaries from the sizes of the individual sections
		var b1, b2 bytes.Buffer
		if name == "raw" {
			ps.ProvingKey.WriteRawTo(&b1)
			ps.VerifyingKey.WriteRawTo(&b2)
		} else {
			ps.ProvingKey.WriteTo(&b1)
			ps.VerifyingKey.WriteTo(&b2)
		}
		n := len(data)
		cuts := map[int]bool{}
		for c := 0; c <= 9; c++ {
			cuts[c] = true
		}
		for _, b := range []int{8 + b1.Len(), 8 + b1.Len() + b2.Len()} {
			for d := -2; d <= 2; d++ {
				cuts[b+d] = true
			}
		}
		for d := 1; d <= 3; d++ {
			cuts[n-d] = true
		}
		for c := 10; c < n; c += n/23 + 1 {
			cuts[c] = true
		}
		for c := range cuts {
			if c < 0 || c >= n {
				continue
			}
			var t ProvingSystem
			_, err := t.UnsafeReadFrom(bytes.NewReader(data[:c]))
			verifAssert(err != nil, "UnsafeReadFrom fails on every strict prefix of a valid file")
			path := filepath.Join(dir, "cut")
			os.WriteFile(path, data[:c], 0o600)
			_, err = ReadSystemFromFile(path)
			verifAssert(err != nil, "ReadSystemFromFile fails on every strict prefix of a valid file")
		}
	}
}
