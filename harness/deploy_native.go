package server

// Native side of verifDeploy: the handler under test is the one the real server.Run installs, reached through real sockets
// (free ports), so the replay sees the deployed handler with everything Run wires around it, not a hand-built literal.
import (
	"io"
	"net"
	"net/http"
	"time"

	"worldcoin/gnark-mbu/prover"
)

type verifFwd struct{ addr string }

var verifClient = &http.Client{Timeout: 240 * time.Second}

func (f verifFwd) ServeHTTP(w http.ResponseWriter, r *http.Request) {
	req, err := http.NewRequest(r.Method, "http://"+f.addr+"/prove", r.Body)
	if err != nil {
		panic("cannot build the request: " + err.Error())
	}
	resp, err := verifClient.Do(req)
	if err != nil {
		panic("the deployed server gave no response (crash or hang): " + err.Error())
	}
	defer resp.Body.Close()
	for k, v := range resp.Header {
		if k != "Date" && k != "Content-Length" {
			w.Header()[k] = v
		}
	}
	w.WriteHeader(resp.StatusCode)
	io.Copy(w, resp.Body)
}

func verifDeployAddr() string {
	l, _ := net.Listen("tcp", "127.0.0.1:0")
	a := l.Addr().String()
	l.Close()
	return a
}

var verifLastJob RunningJob
var verifLastAddr string

func verifDeploy(ps *prover.ProvingSystem, mode string) http.Handler {
	cfg := Config{ProverAddress: verifDeployAddr(), MetricsAddress: verifDeployAddr(), Mode: mode}
	verifLastJob = Run(&cfg, ps)
	verifLastAddr = cfg.ProverAddress
	for i := 0; i < 200; i++ {
		c, err := net.Dial("tcp", cfg.ProverAddress)
		if err == nil {
			c.Close()
			break
		}
		time.Sleep(25 * time.Millisecond)
	}
	return verifFwd{cfg.ProverAddress}
}
