package prover

// C07 native replay: the real thing end to end at (depth 2, batch 1) for the mode given in the replay file:
// a valid batch must be proven and verified for its own hash (and hash + r), rejected for hash+1 and under the other mode's system;
// parameter sets with wrong dimensions (one array too long / too short, taken from the draws when present) must yield (nil, err) without panic.
import (
	"math/big"

	"worldcoin/gnark-mbu/poseidon_tree"
)

func verifNativeShapes(n int) []int { return []int{n - 1, n + 1} }

func VerifHarness_C07_Native() {
	verifLoad()
	mode := verifDraws["str:mode"]
	depth, batch := 2, 1
	r, _ := new(big.Int).SetString("21888242871839275222246405745257275088548364400416034343698204186575808495617", 10)
	tree := poseidon_tree.NewTree(depth)
	if mode == "insertion" {
		ps, err := SetupInsertion(uint32(depth), uint32(batch))
		verifAssert(err == nil, "setup insertion")
		other, err := SetupDeletion(uint32(depth), uint32(batch))
		verifAssert(err == nil, "setup deletion")
		p := InsertionParameters{StartIndex: 1}
		tree.Update(0, *big.NewInt(5))
		p.PreRoot = tree.Root()
		p.IdComms = []big.Int{*big.NewInt(77)}
		p.MerkleProofs = [][]big.Int{tree.Update(1, p.IdComms[0])}
		p.PostRoot = tree.Root()
		p.ComputeInputHashInsertion()
		proof, err := ps.ProveInsertion(&p)
		verifAssert(err == nil && proof != nil, "valid insertion batch is proven")
		if err != nil {
			return
		}
		verifAssert(ps.VerifyInsertion(p.InputHash, proof) == nil, "proof verifies for its own input hash")
		verifAssert(ps.VerifyInsertion(*new(big.Int).Add(&p.InputHash, r), proof) == nil, "proof verifies for hash + r")
		verifAssert(ps.VerifyInsertion(*new(big.Int).Add(&p.InputHash, big.NewInt(1)), proof) != nil, "proof is rejected for hash + 1")
		verifAssert(other.VerifyDeletion(p.InputHash, proof) != nil, "proof is rejected by the deletion system")
		// a corrupted field must not be provable (the witness really carries every parameter)
		bad := p
		bad.PostRoot = *new(big.Int).Add(&p.PostRoot, big.NewInt(1))
		pr, err := ps.ProveInsertion(&bad)
		verifAssert(err != nil && pr == nil, "a batch with a wrong post-root yields an error and no proof")
		bad = p
		bad.StartIndex = 2
		pr, err = ps.ProveInsertion(&bad)
		verifAssert(err != nil && pr == nil, "a batch with a wrong start index yields an error and no proof")
		for _, n := range verifNativeShapes(batch) {
			q := p
			q.IdComms = make([]big.Int, n)
			pr, err := ps.ProveInsertion(&q)
			verifAssert(err != nil && pr == nil, "wrong number of commitments yields an error and no proof")
		}
		for _, n := range verifNativeShapes(depth) {
			q := p
			q.MerkleProofs = [][]big.Int{make([]big.Int, n)}
			pr, err := ps.ProveInsertion(&q)
			verifAssert(err != nil && pr == nil, "wrong merkle proof length yields an error and no proof")
		}
		q := p
		q.MerkleProofs = [][]big.Int{p.MerkleProofs[0], p.MerkleProofs[0]}
		pr, err = ps.ProveInsertion(&q)
		verifAssert(err != nil && pr == nil, "wrong number of merkle proofs yields an error and no proof")
		q = p
		q.MerkleProofs = [][]big.Int{append(append([]big.Int{}, p.MerkleProofs[0]...), *big.NewInt(0))}
		pr, err = ps.ProveInsertion(&q)
		verifAssert(err != nil && pr == nil, "a genuine merkle proof with one extra sibling yields an error and no proof")
		q = p
		q.IdComms = append(append([]big.Int{}, p.IdComms...), *big.NewInt(0))
		pr, err = ps.ProveInsertion(&q)
		verifAssert(err != nil && pr == nil, "one extra commitment yields an error and no proof")
		return
	}
	ps, err := SetupDeletion(uint32(depth), uint32(batch))
	verifAssert(err == nil, "setup deletion")
	other, err := SetupInsertion(uint32(depth), uint32(batch))
	verifAssert(err == nil, "setup insertion")
	tree.Update(0, *big.NewInt(5))
	tree.Update(1, *big.NewInt(77))
	p := DeletionParameters{DeletionIndices: []uint32{1}, IdComms: []big.Int{*big.NewInt(77)}}
	p.PreRoot = tree.Root()
	p.MerkleProofs = [][]big.Int{tree.Update(1, *big.NewInt(0))}
	p.PostRoot = tree.Root()
	p.ComputeInputHashDeletion()
	proof, err := ps.ProveDeletion(&p)
	verifAssert(err == nil && proof != nil, "valid deletion batch is proven")
	if err != nil {
		return
	}
	verifAssert(ps.VerifyDeletion(p.InputHash, proof) == nil, "proof verifies for its own input hash")
	verifAssert(ps.VerifyDeletion(*new(big.Int).Add(&p.InputHash, r), proof) == nil, "proof verifies for hash + r")
	verifAssert(ps.VerifyDeletion(*new(big.Int).Add(&p.InputHash, big.NewInt(1)), proof) != nil, "proof is rejected for hash + 1")
	verifAssert(other.VerifyInsertion(p.InputHash, proof) != nil, "proof is rejected by the insertion system")
	bad := p
	bad.PostRoot = *new(big.Int).Add(&p.PostRoot, big.NewInt(1))
	pr, err := ps.ProveDeletion(&bad)
	verifAssert(err != nil && pr == nil, "a batch with a wrong post-root yields an error and no proof")
	bad = p
	bad.IdComms = []big.Int{*big.NewInt(78)}
	pr, err = ps.ProveDeletion(&bad)
	verifAssert(err != nil && pr == nil, "a batch presenting a wrong leaf value yields an error and no proof")
	for _, n := range verifNativeShapes(batch) {
		q := p
		q.IdComms = make([]big.Int, n)
		pr, err := ps.ProveDeletion(&q)
		verifAssert(err != nil && pr == nil, "wrong number of commitments yields an error and no proof")
		q = p
		q.DeletionIndices = make([]uint32, n)
		pr, err = ps.ProveDeletion(&q)
		verifAssert(err != nil && pr == nil, "wrong number of indices yields an error and no proof")
	}
	for _, n := range verifNativeShapes(depth) {
		q := p
		q.MerkleProofs = [][]big.Int{make([]big.Int, n)}
		pr, err := ps.ProveDeletion(&q)
		verifAssert(err != nil && pr == nil, "wrong merkle proof length yields an error and no proof")
	}
	q := p
	q.MerkleProofs = [][]big.Int{append(append([]big.Int{}, p.MerkleProofs[0]...), *big.NewInt(0))}
	pr, err = ps.ProveDeletion(&q)
	verifAssert(err != nil && pr == nil, "a genuine merkle proof with one extra sibling yields an error and no proof")
	q = p
	q.IdComms = append(append([]big.Int{}, p.IdComms...), *big.NewInt(0))
	pr, err = ps.ProveDeletion(&q)
	verifAssert(err != nil && pr == nil, "one extra commitment yields an error and no proof")
	q = p
	q.DeletionIndices = append(append([]uint32{}, p.DeletionIndices...), 0)
	pr, err = ps.ProveDeletion(&q)
	verifAssert(err != nil && pr == nil, "one extra index yields an error and no proof")
}
