package poseidon

// C05 native replay of a purity finding: Poseidon1 and Poseidon2 circuits are defined and solved concurrently (gnark test engine)
// and one after the other; every result must be the iden3 reference value.
import (
	"math/big"
	"sync"

	"github.com/consensys/gnark-crypto/ecc"
	"github.com/consensys/gnark/frontend"
	"github.com/consensys/gnark/test"
	iden3 "github.com/iden3/go-iden3-crypto/poseidon"
	"github.com/reilabs/gnark-lean-extractor/v2/abstractor"
)

type verifC1 struct{ In, Out frontend.Variable }

func (c *verifC1) Define(api frontend.API) error {
	api.AssertIsEqual(abstractor.Call(api, Poseidon1{In: c.In}), c.Out)
	return nil
}

type verifC2 struct{ A, B, Out frontend.Variable }

func (c *verifC2) Define(api frontend.API) error {
	api.AssertIsEqual(abstractor.Call(api, Poseidon2{In1: c.A, In2: c.B}), c.Out)
	return nil
}

func VerifHarness_C05_Native() {
	f := ecc.BN254.ScalarField()
	var mu sync.Mutex
	bad := 0
	run := func(i int) {
		defer func() {
			if r := recover(); r != nil {
				mu.Lock()
				bad++
				mu.Unlock()
			}
		}()
		x, y := big.NewInt(int64(3*i+1)), big.NewInt(int64(7*i+2))
		var err error
		if i%2 == 0 {
			h, _ := iden3.Hash([]*big.Int{x})
			err = test.IsSolved(&verifC1{}, &verifC1{In: x, Out: h}, f)
		} else {
			h, _ := iden3.Hash([]*big.Int{x, y})
			err = test.IsSolved(&verifC2{}, &verifC2{A: x, B: y, Out: h}, f)
		}
		if err != nil {
			mu.Lock()
			bad++
			mu.Unlock()
		}
	}
	for i := 0; i < 6; i++ {
		run(i)
	}
	verifAssert(bad == 0, "sequential definitions of Poseidon1 and Poseidon2 give the reference hash")
	for round := 0; round < 40 && bad == 0; round++ {
		var wg sync.WaitGroup
		for i := 0; i < 16; i++ {
			wg.Add(1)
			go func(i int) { defer wg.Done(); run(i) }(i)
		}
		wg.Wait()
	}
	verifAssert(bad == 0, "concurrent definitions of Poseidon1 and Poseidon2 give the reference hash")
}
