package prover

// C07 harness (symbolic build): under the Groth16 contract (stubs), the repo's own code must
//  - refuse every parameter set whose dimensions differ from the system's, before any indexing (no panic), returning (nil, err);
//  - hand NewWitness an assignment whose every leaf is the corresponding parameter;
//  - return no proof when NewWitness/Prove fail;
//  - verify against exactly the supplied hash with the system's own verifying key.
import "math/big"

func verifSystem(name string) *ProvingSystem {
	return &ProvingSystem{TreeDepth: verifNondetU32("depth"), BatchSize: verifNondetU32("batch"),
		ProvingKey: verifStubPK(name), VerifyingKey: verifStubVK(name), ConstraintSystem: verifStubCS(name)}
}

func verifBigs(prefix string, n int) []big.Int {
	out := make([]big.Int, n)
	for i := 0; i < n; i++ {
		out[i] = verifNondetBig(verifName(prefix, i))
	}
	return out
}

func VerifHarness_C07_ProveInsertion() {
	maxd := verifParam("maxdim", 2)
	ps := verifSystem("sysA")
	verifAssume(ps.TreeDepth <= uint32(maxd) && ps.BatchSize <= uint32(maxd))
	var p InsertionParameters
	p.InputHash = verifNondetBig("hash")
	p.StartIndex = verifNondetU32("start")
	p.PreRoot = verifNondetBig("pre")
	p.PostRoot = verifNondetBig("post")
	p.IdComms = verifBigs("idc", verifNondetLen("n", maxd+1))
	p.MerkleProofs = verifFillProofs("mp", verifNondetLen("m", maxd+1), maxd+1)

	shapeOK := len(p.IdComms) == int(ps.BatchSize) && len(p.MerkleProofs) == int(ps.BatchSize)
	for i := 0; i < len(p.MerkleProofs); i++ {
		shapeOK = shapeOK && len(p.MerkleProofs[i]) == int(ps.TreeDepth)
	}
	proof, err := ps.ProveInsertion(&p)
	verifAssert((err == nil) == (proof != nil), "a proof is returned exactly when no error is")
	if !shapeOK {
		verifAssert(err != nil, "wrong dimensions: an error and no proof")
		return
	}
	verifAssert(verifWitnessCount() == 1, "valid shape: exactly one witness is assembled")
	verifAssert(verifBigEq(verifWitnessBig("InputHash", -1, -1), p.InputHash), "witness.InputHash is the parameters' input hash")
	var s big.Int
	s.SetUint64(uint64(p.StartIndex))
	verifAssert(verifBigEq(verifWitnessBig("StartIndex", -1, -1), s), "witness.StartIndex is the parameters' start index")
	verifAssert(verifBigEq(verifWitnessBig("PreRoot", -1, -1), p.PreRoot), "witness.PreRoot is the parameters' pre-root")
	verifAssert(verifBigEq(verifWitnessBig("PostRoot", -1, -1), p.PostRoot), "witness.PostRoot is the parameters' post-root")
	verifAssert(verifWitnessLen("IdComms", -1) == len(p.IdComms) && verifWitnessLen("MerkleProofs", -1) == len(p.MerkleProofs), "witness dimensions are the parameters'")
	for i := 0; i < len(p.IdComms); i++ {
		verifAssert(verifBigEq(verifWitnessBig("IdComms", i, -1), p.IdComms[i]), "witness.IdComms[i] is commitment i")
		verifAssert(verifWitnessLen("MerkleProofs", i) == len(p.MerkleProofs[i]), "witness proof i has the depth of the parameters' proof i")
		for j := 0; j < len(p.MerkleProofs[i]); j++ {
			verifAssert(verifBigEq(verifWitnessBig("MerkleProofs", i, j), p.MerkleProofs[i][j]), "witness.MerkleProofs[i][j] is sibling j of proof i")
		}
	}
}

func VerifHarness_C07_ProveDeletion() {
	maxd := verifParam("maxdim", 2)
	ps := verifSystem("sysA")
	verifAssume(ps.TreeDepth <= uint32(maxd) && ps.BatchSize <= uint32(maxd))
	var p DeletionParameters
	p.InputHash = verifNondetBig("hash")
	p.PreRoot = verifNondetBig("pre")
	p.PostRoot = verifNondetBig("post")
	d := verifNondetLen("d", maxd+1)
	p.DeletionIndices = make([]uint32, d)
	for i := 0; i < d; i++ {
		p.DeletionIndices[i] = verifNondetU32(verifName("idx", i))
	}
	p.IdComms = verifBigs("idc", verifNondetLen("n", maxd+1))
	p.MerkleProofs = verifFillProofs("mp", verifNondetLen("m", maxd+1), maxd+1)

	shapeOK := len(p.IdComms) == int(ps.BatchSize) && len(p.MerkleProofs) == int(ps.BatchSize) && len(p.DeletionIndices) == int(ps.BatchSize)
	for i := 0; i < len(p.MerkleProofs); i++ {
		shapeOK = shapeOK && len(p.MerkleProofs[i]) == int(ps.TreeDepth)
	}
	proof, err := ps.ProveDeletion(&p)
	verifAssert((err == nil) == (proof != nil), "a proof is returned exactly when no error is")
	if !shapeOK {
		verifAssert(err != nil, "wrong dimensions: an error and no proof")
		return
	}
	verifAssert(verifWitnessCount() == 1, "valid shape: exactly one witness is assembled")
	verifAssert(verifBigEq(verifWitnessBig("InputHash", -1, -1), p.InputHash), "witness.InputHash is the parameters' input hash")
	verifAssert(verifBigEq(verifWitnessBig("PreRoot", -1, -1), p.PreRoot), "witness.PreRoot is the parameters' pre-root")
	verifAssert(verifBigEq(verifWitnessBig("PostRoot", -1, -1), p.PostRoot), "witness.PostRoot is the parameters' post-root")
	verifAssert(verifWitnessLen("IdComms", -1) == len(p.IdComms) && verifWitnessLen("MerkleProofs", -1) == len(p.MerkleProofs) && verifWitnessLen("DeletionIndices", -1) == d, "witness dimensions are the parameters'")
	for i := 0; i < len(p.IdComms); i++ {
		var s big.Int
		s.SetUint64(uint64(p.DeletionIndices[i]))
		verifAssert(verifBigEq(verifWitnessBig("DeletionIndices", i, -1), s), "witness.DeletionIndices[i] is index i")
		verifAssert(verifBigEq(verifWitnessBig("IdComms", i, -1), p.IdComms[i]), "witness.IdComms[i] is commitment i")
		verifAssert(verifWitnessLen("MerkleProofs", i) == len(p.MerkleProofs[i]), "witness proof i has the depth of the parameters' proof i")
		for j := 0; j < len(p.MerkleProofs[i]); j++ {
			verifAssert(verifBigEq(verifWitnessBig("MerkleProofs", i, j), p.MerkleProofs[i][j]), "witness.MerkleProofs[i][j] is sibling j of proof i")
		}
	}
}

// A proof returned by Prove* verifies with Verify* of the same system for exactly (representatives of) its own hash,
// and not under the keys of another system.
func VerifHarness_C07_Verify() {
	psA := &ProvingSystem{TreeDepth: 1, BatchSize: 1, ProvingKey: verifStubPK("sysA"), VerifyingKey: verifStubVK("sysA"), ConstraintSystem: verifStubCS("sysA")}
	psB := &ProvingSystem{TreeDepth: 1, BatchSize: 1, ProvingKey: verifStubPK("sysB"), VerifyingKey: verifStubVK("sysB"), ConstraintSystem: verifStubCS("sysB")}
	del := verifNondetBool("deletion")
	h := verifNondetBig("hash")
	var proof *Proof
	var err error
	if del {
		p := DeletionParameters{InputHash: h, PreRoot: verifNondetBig("pre"), PostRoot: verifNondetBig("post"), DeletionIndices: []uint32{verifNondetU32("idx")},
			IdComms: verifBigs("idc", 1), MerkleProofs: [][]big.Int{verifBigs("mp", 1)}}
		proof, err = psA.ProveDeletion(&p)
	} else {
		p := InsertionParameters{InputHash: h, StartIndex: verifNondetU32("start"), PreRoot: verifNondetBig("pre"), PostRoot: verifNondetBig("post"),
			IdComms: verifBigs("idc", 1), MerkleProofs: [][]big.Int{verifBigs("mp", 1)}}
		proof, err = psA.ProveInsertion(&p)
	}
	if err != nil {
		return
	}
	cand := verifNondetBig("candidate")
	same := verifSameModR(cand, h)
	var e1, e2 error
	if del {
		e1 = psA.VerifyDeletion(cand, proof)
		e2 = psB.VerifyDeletion(h, proof)
	} else {
		e1 = psA.VerifyInsertion(cand, proof)
		e2 = psB.VerifyInsertion(h, proof)
	}
	verifAssert((e1 == nil) == same, "the proof verifies for exactly the representatives of its own input hash")
	verifAssert(e2 != nil, "the proof is rejected by another proving system")
	// the other mode's verifier on the same system object must not accept it either
	var e3 error
	if del {
		e3 = psA.VerifyInsertion(h, proof)
	} else {
		e3 = psA.VerifyDeletion(h, proof)
	}
	verifAssert(e3 != nil, "the proof is rejected by the verifier of the other mode")
}
