package server

// C09 harness: the /prove handler's status table, for every method, every body (decoder outcome) and every prover outcome.
import (
	"net/http"

	"worldcoin/gnark-mbu/prover"
)

func VerifHarness_C09_Handler() {
	mode := InsertionMode
	if verifNondetBool("deletion") {
		mode = DeletionMode
	}
	ps := &prover.ProvingSystem{TreeDepth: verifNondetU32("depth"), BatchSize: verifNondetU32("batch"),
		ProvingKey: verifStubPK("sys"), VerifyingKey: verifStubVK("sys"), ConstraintSystem: verifStubCS("sys")}
	verifAssume(ps.TreeDepth <= 2 && ps.BatchSize <= 2)
	h := verifDeploy(ps, mode)
	w := verifRecorder()
	r := &http.Request{Method: verifNondetString("method"), Body: verifBody()}
	if verifNondetBool("stop_requested_meanwhile") {
		// the request was accepted, then a graceful stop began: whatever the server registered to run at shutdown has run, and the
		// request must still be answered by the same table
		verifRunShutdownHooks()
	}
	h.ServeHTTP(w, r)

	verifAssert(verifNoLocksHeld(), "no lock is still held when the handler returns (a later request cannot hang)")
	verifAssert(!verifHappened("stale_json_field"), "the decoded parameters are determined by the request body alone (nothing of an earlier request survives in a reused decoding target)")
	verifAssert(verifRespHeaderCount() == 1, "exactly one status line is written")
	if r.Method != http.MethodPost {
		verifAssert(verifRespStatus() == 405 && verifRespWriteCount() == 0, "method other than POST: 405 and no body")
		return
	}
	verifAssert(verifRespWriteCount() == 1, "POST: exactly one body is written")
	proved := verifHappened("call:ProveInsertion") || verifHappened("call:ProveDeletion")
	decoded := verifHappened("retnil:InsertionParameters).UnmarshalJSON") || verifHappened("retnil:DeletionParameters).UnmarshalJSON")
	if verifHappened("readall_error") || !decoded {
		verifAssert(verifRespStatus() == 400 && verifRespBodyIsError("malformed_body"), "unreadable or undecodable body: 400 malformed_body")
		verifAssert(!proved, "an undecodable body never reaches the prover")
		return
	}
	verifAssert(proved, "a decoded document is handed to the prover (dimension errors are proving errors)")
	if !proved {
		verifAssert(verifRespStatus() == 400 && verifRespBodyIsError("proving_error"), "wrong dimensions or unprovable batch: 400 proving_error")
		return
	}
	verifAssert(verifBodyWellFormed(), "a body that is not one well-formed JSON document never reaches the prover")
	verifAssert(verifHappened("call:ProveInsertion") == (mode == InsertionMode), "the prover of the configured mode is used")
	if verifHappened("prove_ok") {
		verifAssert(verifRespStatus() == 200 && verifRespBodyIsProof(), "valid batch: 200 with the marshalled proof")
	} else {
		verifAssert(verifRespStatus() == 400 && verifRespBodyIsError("proving_error"), "wrong dimensions or unprovable batch: 400 proving_error")
	}
}
