package prover

import (
	"math/big"

	"github.com/consensys/gnark/backend/groth16"
)

func verifStubProof(name string) groth16.Proof           { return nil }
func verifProofCoord(p groth16.Proof, i int) big.Int     { return big.Int{} }
func verifProofEq(a, b groth16.Proof) bool               { return false }
