package server

// C09 native replay: the real handler behind httptest with a real proving system (depth 2, batch 1) of the mode in the replay file.
import (
	"bytes"
	"encoding/json"
	"fmt"
	"io"
	"net"
	"time"
	"math/big"
	"net/http"
	"net/http/httptest"
	"strings"

	"worldcoin/gnark-mbu/poseidon_tree"
	"worldcoin/gnark-mbu/prover"
)

func verifDo(h http.Handler, method, body string) (int, string) {
	rec := httptest.NewRecorder()
	h.ServeHTTP(rec, httptest.NewRequest(method, "/prove", strings.NewReader(body)))
	return rec.Code, rec.Body.String()
}

func verifCode(body string) string {
	var m map[string]string
	if json.Unmarshal([]byte(body), &m) != nil {
		return ""
	}
	return m["code"]
}

func VerifHarness_C09_Native() {
	verifLoad()
	mode := verifDraws["str:mode"]
	depth, batch := 2, 1
	tree := poseidon_tree.NewTree(depth)
	var ps *prover.ProvingSystem
	var good, wrongDims, invalid []byte
	var hash big.Int
	if mode == InsertionMode {
		ps, _ = prover.SetupInsertion(uint32(depth), uint32(batch))
		p := prover.InsertionParameters{StartIndex: 0}
		p.PreRoot = tree.Root()
		p.IdComms = []big.Int{*big.NewInt(9)}
		p.MerkleProofs = [][]big.Int{tree.Update(0, p.IdComms[0])}
		p.PostRoot = tree.Root()
		p.ComputeInputHashInsertion()
		hash = p.InputHash
		good, _ = json.Marshal(&p)
		q := p
		q.IdComms = []big.Int{*big.NewInt(9), *big.NewInt(10)}
		wrongDims, _ = json.Marshal(&q)
		q = p
		q.PostRoot = *big.NewInt(12345)
		invalid, _ = json.Marshal(&q)
	} else {
		ps, _ = prover.SetupDeletion(uint32(depth), uint32(batch))
		tree.Update(0, *big.NewInt(9))
		p := prover.DeletionParameters{DeletionIndices: []uint32{0}, IdComms: []big.Int{*big.NewInt(9)}}
		p.PreRoot = tree.Root()
		p.MerkleProofs = [][]big.Int{tree.Update(0, *big.NewInt(0))}
		p.PostRoot = tree.Root()
		p.ComputeInputHashDeletion()
		hash = p.InputHash
		good, _ = json.Marshal(&p)
		q := p
		q.MerkleProofs = [][]big.Int{make([]big.Int, depth+1)}
		wrongDims, _ = json.Marshal(&q)
		q = p
		q.PostRoot = *big.NewInt(12345)
		invalid, _ = json.Marshal(&q)
	}
	h := verifDeploy(ps, mode)
	if mode == DeletionMode {
		// padding slots (index with the skip bit) whose merkle proof has the wrong length are still a dimension error
		var dp prover.DeletionParameters
		json.Unmarshal(good, &dp)
		for _, n := range []int{depth - 1, depth + 1} {
			q := dp
			q.DeletionIndices = []uint32{uint32(1 << depth)}
			q.MerkleProofs = [][]big.Int{make([]big.Int, n)}
			b, _ := json.Marshal(&q)
			c, body := verifDo(h, "POST", string(b))
			verifAssert(c == 400 && verifCode(body) == "proving_error", "wrong dimensions or unprovable batch: 400 proving_error")
		}
	}
	for i := 0; i < 6; i++ { // repeated dimension errors must not exhaust anything a later valid request needs
		c, body := verifDo(h, "POST", string(wrongDims))
		verifAssert(c == 400 && verifCode(body) == "proving_error", "wrong dimensions or unprovable batch: 400 proving_error")
	}
	for _, m := range []string{"GET", "PUT", "DELETE", "post"} {
		c, b := verifDo(h, m, string(good))
		verifAssert(c == 405 && b == "", "method other than POST: 405 and no body")
	}
	for _, body := range []string{"", "not json", "{", `{"inputHash":"zz"}`, string(good[:len(good)/2]), string(good) + "]", strings.Replace(string(good), `"0x`, `"0y`, 1),
		strings.Replace(string(good), `"preRoot":"0x`, `"preRoot":"`, 1) + "", `{"inputHash":"0x1","preRoot":"","postRoot":"0x1"}`, `[1,2,3]`, `{"inputHash":5}`} {
		c, b := verifDo(h, "POST", body)
		if strings.Contains(body, `"preRoot":"`) && !strings.Contains(body, `"preRoot":""`) && json.Valid([]byte(body)) && verifCode(b) != "malformed_body" {
			// decimal digits without 0x are still numbers: only require a 400
			verifAssert(c == 400, "near-valid body: 400")
			continue
		}
		verifAssert(c == 400 && verifCode(b) == "malformed_body", "unreadable or undecodable body: 400 malformed_body")
	}
	c, b := verifDo(h, "POST", string(wrongDims))
	verifAssert(c == 400 && verifCode(b) == "proving_error", "wrong dimensions or unprovable batch: 400 proving_error")
	c, b = verifDo(h, "POST", string(invalid))
	verifAssert(c == 400 && verifCode(b) == "proving_error", "wrong dimensions or unprovable batch: 400 proving_error")
	c, b = verifDo(h, "POST", string(good))
	verifAssert(c == 200, "valid batch: 200 with the marshalled proof")
	if c == 200 {
		var proof prover.Proof
		err := json.NewDecoder(bytes.NewReader([]byte(b))).Decode(&proof)
		verifAssert(err == nil, "valid batch: 200 with the marshalled proof")
		if err == nil {
			if mode == InsertionMode {
				verifAssert(ps.VerifyInsertion(hash, &proof) == nil, "valid batch: 200 with the marshalled proof")
			} else {
				verifAssert(ps.VerifyDeletion(hash, &proof) == nil, "valid batch: 200 with the marshalled proof")
			}
		}
	}
	// the server keeps answering after the whole history above
	c, _ = verifDo(h, "POST", string(wrongDims))
	verifAssert(c == 400, "a later request is still answered")
	c, _ = verifDo(h, "POST", string(good))
	verifAssert(c == 200, "a later valid request is still answered with 200")

	// after valid requests: a document that lacks a key is still undecodable (nothing of the earlier requests fills the gap)
	for _, key := range []string{"preRoot", "postRoot", "inputHash", "merkleProofs", "identityCommitments"} {
		var m map[string]json.RawMessage
		json.Unmarshal(good, &m)
		delete(m, key)
		b, _ := json.Marshal(m)
		verifDo(h, "POST", string(good))
		c, body := verifDo(h, "POST", string(b))
		okc := c == 400 && (verifCode(body) == "malformed_body" || ((key == "merkleProofs" || key == "identityCommitments") && verifCode(body) == "proving_error"))
		verifAssert(okc, "the decoded parameters are determined by the request body alone (nothing of an earlier request survives in a reused decoding target)")
	}

	// a request that is already accepted (body half sent) when a graceful stop begins is still answered by the same table
	conn, err := net.Dial("tcp", verifLastAddr)
	if err != nil {
		verifAssert(false, "valid batch: 200 with the marshalled proof")
		return
	}
	half := len(good) / 2
	fmt.Fprintf(conn, "POST /prove HTTP/1.1\r\nHost: x\r\nContent-Type: application/json\r\nContent-Length: %d\r\n\r\n", len(good))
	conn.Write(good[:half])
	time.Sleep(400 * time.Millisecond)
	go func() {
		verifLastJob.RequestStop()
		verifLastJob.AwaitStop()
	}()
	time.Sleep(1500 * time.Millisecond)
	conn.Write(good[half:])
	conn.SetReadDeadline(time.Now().Add(180 * time.Second))
	resp, _ := io.ReadAll(conn)
	ok := strings.HasPrefix(string(resp), "HTTP/1.1 200") && strings.Contains(string(resp), `"ar"`)
	verifAssert(ok, "valid batch: 200 with the marshalled proof")
	if !ok {
		fmt.Println("in-flight request during stop got:", string(resp[:min(len(resp), 200)]))
	}
}
