package prover

// C16 harness: parameter JSON round-trips exactly; non-numbers are rejected.
import (
	"encoding/json"
	"math/big"
)

func verifFillProofs(prefix string, m int, maxk int) [][]big.Int {
	out := make([][]big.Int, m)
	for i := 0; i < m; i++ {
		k := verifNondetLen(verifName(prefix+".len", i), maxk)
		out[i] = make([]big.Int, k)
		for j := 0; j < k; j++ {
			out[i][j] = verifNondetBig(verifName2(prefix, i, j))
		}
	}
	return out
}

func verifSameProofs(a, b [][]big.Int) {
	verifAssert(len(a) == len(b), "same number of merkle proofs")
	if len(a) != len(b) {
		return
	}
	for i := 0; i < len(a); i++ {
		verifAssert(len(a[i]) == len(b[i]), "same length of each merkle proof (ragged shapes preserved)")
		if len(a[i]) != len(b[i]) {
			return
		}
		for j := 0; j < len(a[i]); j++ {
			verifAssert(verifBigEq(a[i][j], b[i][j]), "same merkle proof elements")
		}
	}
}

func VerifHarness_C16_InsertionRoundTrip() {
	maxn := verifParam("maxlen", 2)
	var p InsertionParameters
	p.InputHash = verifNondetBig("hash")
	p.StartIndex = verifNondetU32("start")
	p.PreRoot = verifNondetBig("pre")
	p.PostRoot = verifNondetBig("post")
	n := verifNondetLen("n", maxn)
	p.IdComms = make([]big.Int, n)
	for i := 0; i < n; i++ {
		p.IdComms[i] = verifNondetBig(verifName("idc", i))
	}
	p.MerkleProofs = verifFillProofs("mp", verifNondetLen("m", maxn), maxn)

	js, err := p.MarshalJSON()
	verifAssert(err == nil, "MarshalJSON returns no error")
	var q InsertionParameters
	err = q.UnmarshalJSON(js)
	verifAssert(err == nil, "UnmarshalJSON accepts what MarshalJSON produced")
	if err != nil {
		return
	}
	verifAssert(verifBigEq(p.InputHash, q.InputHash), "inputHash round-trips")
	verifAssert(p.StartIndex == q.StartIndex, "startIndex round-trips")
	verifAssert(verifBigEq(p.PreRoot, q.PreRoot), "preRoot round-trips")
	verifAssert(verifBigEq(p.PostRoot, q.PostRoot), "postRoot round-trips")
	verifAssert(len(p.IdComms) == len(q.IdComms), "same number of identity commitments")
	if len(p.IdComms) == len(q.IdComms) {
		for i := 0; i < len(p.IdComms); i++ {
			verifAssert(verifBigEq(p.IdComms[i], q.IdComms[i]), "identity commitments round-trip")
		}
	}
	verifSameProofs(p.MerkleProofs, q.MerkleProofs)
}

func VerifHarness_C16_DeletionRoundTrip() {
	maxn := verifParam("maxlen", 2)
	var p DeletionParameters
	p.InputHash = verifNondetBig("hash")
	p.PreRoot = verifNondetBig("pre")
	p.PostRoot = verifNondetBig("post")
	d := verifNondetLen("d", maxn)
	p.DeletionIndices = make([]uint32, d)
	for i := 0; i < d; i++ {
		p.DeletionIndices[i] = verifNondetU32(verifName("idx", i))
	}
	n := verifNondetLen("n", maxn)
	p.IdComms = make([]big.Int, n)
	for i := 0; i < n; i++ {
		p.IdComms[i] = verifNondetBig(verifName("idc", i))
	}
	p.MerkleProofs = verifFillProofs("mp", verifNondetLen("m", maxn), maxn)

	js, err := p.MarshalJSON()
	verifAssert(err == nil, "MarshalJSON returns no error")
	var q DeletionParameters
	err = q.UnmarshalJSON(js)
	verifAssert(err == nil, "UnmarshalJSON accepts what MarshalJSON produced")
	if err != nil {
		return
	}
	verifAssert(verifBigEq(p.InputHash, q.InputHash), "inputHash round-trips")
	verifAssert(verifBigEq(p.PreRoot, q.PreRoot), "preRoot round-trips")
	verifAssert(verifBigEq(p.PostRoot, q.PostRoot), "postRoot round-trips")
	verifAssert(len(p.DeletionIndices) == len(q.DeletionIndices), "same number of deletion indices")
	if len(p.DeletionIndices) == len(q.DeletionIndices) {
		for i := 0; i < len(p.DeletionIndices); i++ {
			verifAssert(p.DeletionIndices[i] == q.DeletionIndices[i], "deletion indices round-trip")
		}
	}
	verifAssert(len(p.IdComms) == len(q.IdComms), "same number of identity commitments")
	if len(p.IdComms) == len(q.IdComms) {
		for i := 0; i < len(p.IdComms); i++ {
			verifAssert(verifBigEq(p.IdComms[i], q.IdComms[i]), "identity commitments round-trip")
		}
	}
	verifSameProofs(p.MerkleProofs, q.MerkleProofs)
}

// Arbitrary strings in every numeric position of a well-shaped document: decoding succeeds iff all of them are numbers,
// and then yields exactly their values.
func VerifHarness_C16_InsertionStrict() {
	var pj InsertionParametersJSON
	pj.InputHash = verifNondetString("hash")
	pj.StartIndex = 7
	pj.PreRoot = verifNondetString("pre")
	pj.PostRoot = verifNondetString("post")
	n := verifNondetLen("n", 1)
	pj.IdComms = make([]string, n)
	for i := 0; i < n; i++ {
		pj.IdComms[i] = verifNondetString(verifName("idc", i))
	}
	m := verifNondetLen("m", 1)
	pj.MerkleProofs = make([][]string, m)
	for i := 0; i < m; i++ {
		k := verifNondetLen(verifName("mp.len", i), 2)
		pj.MerkleProofs[i] = make([]string, k)
		for j := 0; j < k; j++ {
			pj.MerkleProofs[i][j] = verifNondetString(verifName2("mp", i, j))
		}
	}
	js, err := json.Marshal(pj)
	verifAssume(err == nil)
	all := verifIsNumber(pj.InputHash) && verifIsNumber(pj.PreRoot) && verifIsNumber(pj.PostRoot)
	for i := 0; i < n; i++ {
		all = all && verifIsNumber(pj.IdComms[i])
	}
	for i := 0; i < m; i++ {
		for j := 0; j < len(pj.MerkleProofs[i]); j++ {
			all = all && verifIsNumber(pj.MerkleProofs[i][j])
		}
	}
	var q InsertionParameters
	err = q.UnmarshalJSON(js)
	verifAssert((err == nil) == all, "decoding succeeds exactly when every numeric string is a number (no silent value for a non-number)")
	if err == nil && all {
		verifAssert(verifBigEq(q.InputHash, verifNumVal(pj.InputHash)) && verifBigEq(q.PreRoot, verifNumVal(pj.PreRoot)) && verifBigEq(q.PostRoot, verifNumVal(pj.PostRoot)), "decoded roots/hash are the values the strings denote")
		verifAssert(q.StartIndex == uint32(pj.StartIndex) && len(q.IdComms) == n && len(q.MerkleProofs) == m, "decoded index and dimensions are those of the document")
	}
}

func VerifHarness_C16_DeletionStrict() {
	var pj DeletionParametersJSON
	pj.InputHash = verifNondetString("hash")
	pj.PreRoot = verifNondetString("pre")
	pj.PostRoot = verifNondetString("post")
	d := verifNondetLen("d", 1)
	pj.DeletionIndices = make([]uint32, d)
	for i := 0; i < d; i++ {
		pj.DeletionIndices[i] = verifNondetU32(verifName("idx", i))
	}
	n := verifNondetLen("n", 1)
	pj.IdComms = make([]string, n)
	for i := 0; i < n; i++ {
		pj.IdComms[i] = verifNondetString(verifName("idc", i))
	}
	m := verifNondetLen("m", 1)
	pj.MerkleProofs = make([][]string, m)
	for i := 0; i < m; i++ {
		k := verifNondetLen(verifName("mp.len", i), 2)
		pj.MerkleProofs[i] = make([]string, k)
		for j := 0; j < k; j++ {
			pj.MerkleProofs[i][j] = verifNondetString(verifName2("mp", i, j))
		}
	}
	js, err := json.Marshal(pj)
	verifAssume(err == nil)
	all := verifIsNumber(pj.InputHash) && verifIsNumber(pj.PreRoot) && verifIsNumber(pj.PostRoot)
	for i := 0; i < n; i++ {
		all = all && verifIsNumber(pj.IdComms[i])
	}
	for i := 0; i < m; i++ {
		for j := 0; j < len(pj.MerkleProofs[i]); j++ {
			all = all && verifIsNumber(pj.MerkleProofs[i][j])
		}
	}
	var q DeletionParameters
	err = q.UnmarshalJSON(js)
	verifAssert((err == nil) == all, "decoding succeeds exactly when every numeric string is a number (no silent value for a non-number)")
	if err == nil && all {
		verifAssert(verifBigEq(q.InputHash, verifNumVal(pj.InputHash)) && verifBigEq(q.PreRoot, verifNumVal(pj.PreRoot)) && verifBigEq(q.PostRoot, verifNumVal(pj.PostRoot)), "decoded roots/hash are the values the strings denote")
		verifAssert(len(q.DeletionIndices) == d && len(q.IdComms) == n, "decoded dimensions are those of the document")
		for i := 0; i < d; i++ {
			verifAssert(q.DeletionIndices[i] == pj.DeletionIndices[i], "decoded indices are those of the document")
		}
	}
}

// Native-only replay of the structural obligation "index fields of the JSON mirror structs are uint32": an index outside 32 bits must be rejected.
func VerifHarness_C16_IndexRange() {
	var q InsertionParameters
	err := json.Unmarshal([]byte(`{"inputHash":"0x1","startIndex":4294967296,"preRoot":"0x1","postRoot":"0x1","identityCommitments":[],"merkleProofs":[]}`), &q)
	verifAssert(err != nil, "insertion startIndex 2^32 is rejected")
	var d DeletionParameters
	err = json.Unmarshal([]byte(`{"inputHash":"0x1","deletionIndices":[1,4294967301],"preRoot":"0x1","postRoot":"0x1","identityCommitments":[],"merkleProofs":[]}`), &d)
	verifAssert(err != nil, "deletion index 2^32+5 is rejected")
}
