package prover

// C12 native replay: the three construction paths on real gnark at dimensions where depth != batch; deletion depth 32 must be refused on every path.
import (
	"bytes"
	"crypto/sha256"
	"encoding/hex"
	"os"
	"path/filepath"

	"github.com/consensys/gnark-crypto/ecc"
	"github.com/consensys/gnark/constraint"
	"github.com/consensys/gnark/frontend"
	"github.com/consensys/gnark/frontend/cs/r1cs"
)

func verifDigest(cs constraint.ConstraintSystem) string {
	var b bytes.Buffer
	cs.WriteTo(&b)
	s := sha256.Sum256(b.Bytes())
	return hex.EncodeToString(s[:])
}

func VerifHarness_C12_Native() {
	dir, _ := os.MkdirTemp("", "verifc12")
	defer os.RemoveAll(dir)
	for _, dims := range [][2]uint32{{3, 2}, {1, 2}} {
		depth, batch := dims[0], dims[1]
		for _, deletion := range []bool{true, false} {
			var ps *ProvingSystem
			var cs1, cs2 constraint.ConstraintSystem
			var err error
			if deletion {
				ps, err = SetupDeletion(depth, batch)
				cs1, _ = BuildR1CSDeletion(depth, batch)
				cs2, _ = BuildR1CSDeletion(depth, batch)
			} else {
				ps, err = SetupInsertion(depth, batch)
				cs1, _ = BuildR1CSInsertion(depth, batch)
				cs2, _ = BuildR1CSInsertion(depth, batch)
			}
			verifAssert(err == nil, "setup")
			verifAssert(verifDigest(cs1) == verifDigest(cs2) && verifDigest(cs1) == verifDigest(ps.ConstraintSystem), "repeated compilation yields the byte-identical constraint system")
			verifAssert(cs1.GetNbPublicVariables() == 2, "exactly one public input besides the constant wire")
			pkp, vkp := filepath.Join(dir, "pk"), filepath.Join(dir, "vk")
			f, _ := os.Create(pkp)
			ps.ProvingKey.WriteTo(f)
			f.Close()
			f, _ = os.Create(vkp)
			ps.VerifyingKey.WriteTo(f)
			f.Close()
			var imp *ProvingSystem
			if deletion {
				imp, err = ImportDeletionSetup(depth, batch, pkp, vkp)
			} else {
				imp, err = ImportInsertionSetup(depth, batch, pkp, vkp)
			}
			verifAssert(err == nil, "import path compiles")
			if err == nil {
				verifAssert(verifDigest(imp.ConstraintSystem) == verifDigest(cs1), "every merkle proof row has the tree depth")
				verifAssert(verifDigest(imp.ConstraintSystem) == verifDigest(cs1), "the import path compiles the same constraint system as setup")
			}
		}
	}
	for _, deletion := range []bool{true, false} {
		digs := map[string]bool{}
		for rep := 0; rep < 5; rep++ {
			var cs constraint.ConstraintSystem
			if deletion {
				cs, _ = BuildR1CSDeletion(1, 24) // 24 indices: the hashed string spans two rate blocks
			} else {
				cs, _ = BuildR1CSInsertion(1, 8)
			}
			digs[verifDigest(cs)] = true
		}
		verifAssert(len(digs) == 1, "repeated compilation yields the byte-identical constraint system")
	}
	_, err := ExtractLean(3, 2)
	verifAssert(err == nil, "extraction at (3,2) succeeds")
	// depth guard on every path
	_, err = BuildR1CSDeletion(32, 1)
	verifAssert(err != nil, "DeletionMbuCircuit.Define returns an error exactly when Depth > 31")
	_, err = ImportDeletionSetup(32, 1, "/nonexistent/pk", "/nonexistent/vk")
	verifAssert(err != nil && err.Error() != "read file error", "DeletionMbuCircuit.Define returns an error exactly when Depth > 31")
	c := DeletionMbuCircuit{Depth: 32, BatchSize: 1, DeletionIndices: make([]frontend.Variable, 1), IdComms: make([]frontend.Variable, 1), MerkleProofs: [][]frontend.Variable{make([]frontend.Variable, 32)}}
	_, err = frontend.Compile(ecc.BN254.ScalarField(), r1cs.NewBuilder, &c)
	verifAssert(err != nil, "DeletionMbuCircuit.Define returns an error exactly when Depth > 31")
	_, err = BuildR1CSDeletion(31, 1)
	verifAssert(err == nil, "depth 31 is accepted")
}
