package poseidon

import "github.com/consensys/gnark/frontend"

func verifStubAPI() frontend.API              { return nil }
func verifVar(name string) frontend.Variable  { return nil }
func verifBeginInvocation()                   {}
