package poseidon

// C05 (purity): defining the Poseidon gadgets must not write any state that exists before the definition (package-level tables,
// configuration): the hash is a function of its inputs only, also when several circuits are defined concurrently or one after another.
func VerifHarness_C05_Purity() {
	api := verifStubAPI()
	a, b, c := verifVar("a"), verifVar("b"), verifVar("c")
	verifBeginInvocation()
	_ = Poseidon2{In1: a, In2: b}.DefineGadget(api)
	_ = Poseidon1{In: c}.DefineGadget(api)
	verifNote("defined")
}
