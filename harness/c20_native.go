package server

// C20 native replay: real server.Run on free ports with a real proving system; a mix of requests; then /metrics must report per
// (method, code) exactly the responses the clients received, and http_requests_in_flight must be 0.
import (
	"encoding/json"
	"fmt"
	"io"
	"math/big"
	"net"
	"net/http"
	"regexp"
	"strings"
	"time"

	"github.com/rs/zerolog"
	"worldcoin/gnark-mbu/poseidon_tree"
	"worldcoin/gnark-mbu/prover"
)

func verifFreeAddr() string {
	l, _ := net.Listen("tcp", "127.0.0.1:0")
	a := l.Addr().String()
	l.Close()
	return a
}

func VerifHarness_C20_Native() {
	verifLoad()
	zerolog.SetGlobalLevel(zerolog.Disabled)
	depth, batch := 2, 1
	ps, err := prover.SetupDeletion(uint32(depth), uint32(batch))
	verifAssert(err == nil, "setup")
	tree := poseidon_tree.NewTree(depth)
	tree.Update(0, *big.NewInt(9))
	p := prover.DeletionParameters{DeletionIndices: []uint32{0}, IdComms: []big.Int{*big.NewInt(9)}}
	p.PreRoot = tree.Root()
	p.MerkleProofs = [][]big.Int{tree.Update(0, *big.NewInt(0))}
	p.PostRoot = tree.Root()
	p.ComputeInputHashDeletion()
	good, _ := json.Marshal(&p)
	q := p
	q.PostRoot = *big.NewInt(5)
	unsat, _ := json.Marshal(&q)
	cfg := Config{ProverAddress: verifFreeAddr(), MetricsAddress: verifFreeAddr(), Mode: DeletionMode}
	job := Run(&cfg, ps)
	defer func() { job.RequestStop(); job.AwaitStop() }()
	time.Sleep(300 * time.Millisecond)
	tally := map[string]int{}
	do := func(method, body string) {
		req, _ := http.NewRequest(method, "http://"+cfg.ProverAddress+"/prove", strings.NewReader(body))
		resp, err := http.DefaultClient.Do(req)
		if err != nil {
			verifAssert(false, "the prover endpoint answers")
			return
		}
		io.Copy(io.Discard, resp.Body)
		resp.Body.Close()
		tally[fmt.Sprintf("%s/%d", strings.ToLower(method), resp.StatusCode)]++
	}
	do("GET", "")
	do("POST", strings.Repeat(" ", 5<<20)+"{}") // an oversized body is answered like any other undecodable one, and counted
	do("POST", "not json")
	do("POST", string(unsat))
	do("PUT", string(good))
	do("POST", string(good))
	do("POST", string(unsat))
	do("GET", "")
	if verifDraws["str:scenario"] == "slow" { // a request that stays open for more than 30 s (slow client)
		conn, err := net.Dial("tcp", cfg.ProverAddress)
		if err == nil {
			fmt.Fprintf(conn, "POST /prove HTTP/1.1\r\nHost: x\r\nContent-Length: %d\r\n\r\n", len(good))
			conn.Write(good[:10])
			time.Sleep(33 * time.Second)
			conn.Write(good[10:])
			conn.SetReadDeadline(time.Now().Add(60 * time.Second))
			b, _ := io.ReadAll(conn)
			m := regexp.MustCompile(`^HTTP/1\.1 (\d+)`).FindStringSubmatch(string(b))
			if m != nil {
				tally["post/"+m[1]]++
			}
			conn.Close()
			time.Sleep(6 * time.Second)
		}
	}
	if verifDraws["str:scenario"] == "concurrent" { // scrape while several prove requests are in flight
		// bursts of requests that complete together, a scrape after each burst: the gauge must read 0 whenever nothing is in flight
		gaugeOK := true
		for burst := 0; burst < 400 && gaugeOK; burst++ {
			done := make(chan int, 3)
			for k := 0; k < 3; k++ {
				go func() {
					req, _ := http.NewRequest("GET", "http://"+cfg.ProverAddress+"/prove", nil)
					resp, err := http.DefaultClient.Do(req)
					if err != nil {
						done <- 0
						return
					}
					io.Copy(io.Discard, resp.Body)
					resp.Body.Close()
					done <- resp.StatusCode
				}()
			}
			for k := 0; k < 3; k++ {
				if c := <-done; c != 0 {
					tally[fmt.Sprintf("get/%d", c)]++
				}
			}
			if burst%4 == 3 {
				time.Sleep(2 * time.Millisecond)
				r3, err := http.Get("http://" + cfg.MetricsAddress + "/metrics")
				if err == nil {
					b3, _ := io.ReadAll(r3.Body)
					r3.Body.Close()
					gaugeOK = strings.Contains(string(b3), `http_requests_in_flight{endpoint_pattern="/prove"} 0`)
				}
			}
		}
		verifAssert(gaugeOK, "the in-flight gauge reads zero whenever no request is in flight (after every burst of overlapping requests)")
		var conns []net.Conn
		for i := 0; i < 6; i++ {
			conn, err := net.Dial("tcp", cfg.ProverAddress)
			if err != nil {
				continue
			}
			fmt.Fprintf(conn, "POST /prove HTTP/1.1\r\nHost: x\r\nContent-Length: %d\r\n\r\n", len(good))
			conn.Write(good[:10])
			conns = append(conns, conn)
		}
		time.Sleep(500 * time.Millisecond)
		cl := http.Client{Timeout: 5 * time.Second}
		r2, err := cl.Get("http://" + cfg.MetricsAddress + "/metrics")
		verifAssert(err == nil, "the metrics endpoint stays available while prove requests are in flight")
		if err == nil {
			r2.Body.Close()
		}
		for _, conn := range conns {
			conn.Write(good[10:])
			conn.SetReadDeadline(time.Now().Add(90 * time.Second))
			b, _ := io.ReadAll(conn)
			m := regexp.MustCompile(`^HTTP/1\.1 (\d+)`).FindStringSubmatch(string(b))
			if m != nil {
				tally["post/"+m[1]]++
			}
			conn.Close()
		}
	}
	resp, err := http.Get("http://" + cfg.MetricsAddress + "/metrics")
	verifAssert(err == nil, "the metrics endpoint answers on its own address")
	if err != nil {
		return
	}
	body, _ := io.ReadAll(resp.Body)
	resp.Body.Close()
	got := map[string]int{}
	re := regexp.MustCompile(`(?m)^http_requests_total\{code="(\d+)",endpoint_pattern="/prove",method="(\w+)"\} (\d+)`)
	for _, m := range re.FindAllStringSubmatch(string(body), -1) {
		var n int
		fmt.Sscan(m[3], &n)
		got[m[2]+"/"+m[1]] = n
	}
	same := len(got) == len(tally)
	for k, v := range tally {
		same = same && got[k] == v
	}
	if !same {
		fmt.Println("clients saw", tally, "metrics report", got)
	}
	verifAssert(same, "per (method, code) request totals equal the responses actually sent")
	verifAssert(strings.Contains(string(body), `http_requests_in_flight{endpoint_pattern="/prove"} 0`), "the in-flight gauge is back to zero once all requests have completed")
}
