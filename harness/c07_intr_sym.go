package prover

import (
	"math/big"

	"github.com/consensys/gnark/backend/groth16"
	"github.com/consensys/gnark/constraint"
)

func verifStubPK(sys string) groth16.ProvingKey            { return nil }
func verifStubVK(sys string) groth16.VerifyingKey          { return nil }
func verifStubCS(sys string) constraint.ConstraintSystem   { return nil }
func verifWitnessCount() int                               { return 0 }
func verifWitnessBig(field string, i, j int) big.Int       { return big.Int{} }
func verifWitnessLen(field string, i int) int              { return 0 }
