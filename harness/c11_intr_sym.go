package prover

import (
	"io"
	"os"
)

type verifStreamT interface {
	io.Writer
	io.Reader
}

func verifStream() verifStreamT                  { return nil }
func verifTruncatedFile() verifStreamT           { return nil }
func verifReaderOf(s verifStreamT) io.Reader     { return nil }
func verifSameObject(a, b interface{}) bool      { return false }
func verifSetFile(s verifStreamT)                {}
func verifIsLoaded(ps *ProvingSystem) bool       { return false }

var _ = os.Open
