package prover

// C11: WriteTo / WriteRawTo followed by UnsafeReadFrom restores depth, batch, pk, vk, cs (both formats; convert-to-raw = read then WriteRawTo).
// C15: every strict prefix of a valid file makes UnsafeReadFrom / ReadSystemFromFile fail; never a half-loaded system with a nil error.

func VerifHarness_C11_RoundTrip() {
	ps := &ProvingSystem{TreeDepth: verifNondetU32("depth"), BatchSize: verifNondetU32("batch"),
		ProvingKey: verifStubPK("s"), VerifyingKey: verifStubVK("s"), ConstraintSystem: verifStubCS("s")}
	raw := verifNondetBool("raw")
	f := verifStream()
	var err error
	if raw {
		_, err = ps.WriteRawTo(f)
	} else {
		_, err = ps.WriteTo(f)
	}
	verifAssert(err == nil, "writing succeeds")
	var q ProvingSystem
	_, err = q.UnsafeReadFrom(verifReaderOf(f))
	verifAssert(err == nil, "reading back what was written succeeds")
	if err != nil {
		return
	}
	verifAssert(q.TreeDepth == ps.TreeDepth, "tree depth is restored")
	verifAssert(q.BatchSize == ps.BatchSize, "batch size is restored")
	verifAssert(verifSameObject(ps.ProvingKey, q.ProvingKey), "the proving key is restored from the proving-key section")
	verifAssert(verifSameObject(ps.VerifyingKey, q.VerifyingKey), "the verifying key is restored from the verifying-key section")
	verifAssert(verifSameObject(ps.ConstraintSystem, q.ConstraintSystem), "the constraint system is restored from its section")

	// convert-to-raw: what was read is written raw and read again
	g := verifStream()
	_, err = q.WriteRawTo(g)
	verifAssert(err == nil, "conversion to raw writes")
	var r ProvingSystem
	_, err = r.UnsafeReadFrom(verifReaderOf(g))
	verifAssert(err == nil && r.TreeDepth == ps.TreeDepth && r.BatchSize == ps.BatchSize, "converted file restores depth and batch")
	if err == nil {
		verifAssert(verifSameObject(q.ProvingKey, r.ProvingKey) && verifSameObject(q.VerifyingKey, r.VerifyingKey) && verifSameObject(q.ConstraintSystem, r.ConstraintSystem), "converted file restores keys and constraint system")
	}
}

func VerifHarness_C15_TruncatedReader() {
	f := verifTruncatedFile()
	var q ProvingSystem
	_, err := q.UnsafeReadFrom(verifReaderOf(f))
	verifAssert(err != nil, "UnsafeReadFrom fails on every strict prefix of a valid file")
}

func VerifHarness_C15_TruncatedFile() {
	f := verifTruncatedFile()
	verifSetFile(f)
	ps, err := ReadSystemFromFile("keys")
	verifAssert(err != nil, "ReadSystemFromFile fails on every strict prefix of a valid file")
	verifAssert(err != nil || (ps != nil && verifIsLoaded(ps)), "a nil error is only returned with a completely loaded system")
}
