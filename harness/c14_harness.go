package server

// C14 harness: what the CLI `start` command does around a stop: Run, (SIGINT), RequestStop, AwaitStop.
// The GOSYM-C engine extracts the goroutines and their channel / http.Server events from this run and decides the
// interleaving properties on them.
import "worldcoin/gnark-mbu/prover"

func VerifHarness_C14_RunStop() {
	ps := &prover.ProvingSystem{TreeDepth: 3, BatchSize: 2, ProvingKey: verifStubPK("s"), VerifyingKey: verifStubVK("s"), ConstraintSystem: verifStubCS("s")}
	cfg := Config{ProverAddress: "localhost:3001", MetricsAddress: "localhost:9998", Mode: DeletionMode}
	instance := Run(&cfg, ps)
	verifNote("stop-requested")
	instance.RequestStop()
	instance.AwaitStop()
	verifNote("await-returned")
}
