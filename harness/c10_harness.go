package prover

// C10 harness: Proof JSON = eight affine coordinates in EVM order (A.x, A.y, B.x1, B.x0, B.y1, B.y0, C.x, C.y) as hex integers,
// and UnmarshalJSON(MarshalJSON(p)) == p for every proof, whatever the magnitude of a coordinate.
import (
	"encoding/json"
	"math/big"
)

func VerifHarness_C10_RoundTrip() {
	var p Proof
	p.Proof = verifStubProof("proof")
	js, err := p.MarshalJSON()
	verifAssert(err == nil, "MarshalJSON returns no error")

	var pj ProofJSON
	err = json.Unmarshal(js, &pj)
	verifAssert(err == nil, "the JSON document has the ar/bs/krs shape")
	nums := [8]string{pj.Ar[0], pj.Ar[1], pj.Bs[0][0], pj.Bs[0][1], pj.Bs[1][0], pj.Bs[1][1], pj.Krs[0], pj.Krs[1]}
	for i := 0; i < 8; i++ {
		var x big.Int
		_, ok := x.SetString(nums[i], 0)
		verifAssert(ok, "every JSON entry is a number in 0x notation")
		verifAssert(verifBigEq(x, verifProofCoord(p.Proof, i)), "JSON entry i is coordinate i in the order A.x A.y B.x1 B.x0 B.y1 B.y0 C.x C.y")
	}

	// a second proof marshalled afterwards in the same process must not be influenced by the first (stale scratch state)
	if verifParam("second", 1) == 1 {
		var p2 Proof
		p2.Proof = verifStubProof("proof2")
		js2, err2 := p2.MarshalJSON()
		verifAssert(err2 == nil, "second MarshalJSON returns no error")
		var pj2 ProofJSON
		err2 = json.Unmarshal(js2, &pj2)
		verifAssert(err2 == nil, "the second JSON document has the ar/bs/krs shape")
		var y big.Int
		_, ok2 := y.SetString(pj2.Ar[0], 0)
		verifAssert(ok2 && verifBigEq(y, verifProofCoord(p2.Proof, 0)), "a proof marshalled after another one carries its own coordinates")
		_, ok2 = y.SetString(pj2.Krs[1], 0)
		verifAssert(ok2 && verifBigEq(y, verifProofCoord(p2.Proof, 7)), "a proof marshalled after another one carries its own last coordinate")
	}

	var q Proof
	err = q.UnmarshalJSON(js)
	verifAssert(err == nil, "UnmarshalJSON accepts the marshalled proof")
	if err == nil {
		verifAssert(verifProofEq(p.Proof, q.Proof), "decoded proof equals the original")
	}
}
