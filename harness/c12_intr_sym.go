package prover

import "github.com/consensys/gnark/frontend"

func verifCompiledCount() int                        { return 0 }
func verifCompiledInt(k int, field string) int       { return 0 }
func verifCompiledLen(k int, field string, i int) int { return 0 }
func verifCompiledKind(k int) string                 { return "" }
func verifStubAPI() frontend.API                     { return nil }
func verifCompiledOptions(k int) string              { return "" }
