package prover

import (
	"bytes"
	"math/big"

	"github.com/consensys/gnark-crypto/ecc"
	"github.com/consensys/gnark-crypto/ecc/bn254"
	"github.com/consensys/gnark-crypto/ecc/bn254/fp"
	"github.com/consensys/gnark/backend/groth16"
)

// native realisation of the stub proof: A = a*G1, B = b*G2, C = c*G1 with scalars from the replay file (default 1: the generators,
// whose G1 coordinates (1,2) are the shortest possible).
func verifStubProof(name string) groth16.Proof {
	_, _, g1, g2 := bn254.Generators()
	var A, C bn254.G1Affine
	var B bn254.G2Affine
	sc := func(k string) *big.Int {
		v := verifGet("scalar:" + k)
		if v.Sign() == 0 {
			v = big.NewInt(1)
		}
		if name != "proof" { // further proofs of one harness run are distinct points
			v = new(big.Int).Add(v, big.NewInt(int64(6+len(name))))
		}
		return v
	}
	A.ScalarMultiplication(&g1, sc("a"))
	B.ScalarMultiplication(&g2, sc("b"))
	C.ScalarMultiplication(&g1, sc("c"))
	// directed search: the solver's counterexample depends on the byte pattern of a coordinate (leading / trailing zero bytes);
	// find real curve points A (x coordinate) and C (y coordinate) with that pattern
	lead, trail := int(verifGet("feat:lead").Int64()), int(verifGet("feat:trail").Int64())
	if lead > 0 || trail > 0 {
		match := func(b [32]byte) bool {
			for i := 0; i < lead; i++ {
				if b[i] != 0 {
					return false
				}
			}
			for i := 0; i < trail; i++ {
				if b[31-i] != 0 {
					return false
				}
			}
			return b != [32]byte{}
		}
		k := new(big.Int).Set(sc("a"))
		for n := 0; n < 400000; n++ {
			A.ScalarMultiplication(&g1, k)
			if match(A.X.Bytes()) {
				break
			}
			k.Add(k, big.NewInt(1))
		}
		k = new(big.Int).Add(sc("c"), big.NewInt(1000003))
		for n := 0; n < 400000; n++ {
			C.ScalarMultiplication(&g1, k)
			if match(C.Y.Bytes()) {
				break
			}
			k.Add(k, big.NewInt(1))
		}
	}
	// the solver's counterexample names a coordinate magnitude (e.g. a 64-bit x): build the nearest real curve point with such an
	// abscissa (every point of the curve is in G1), stepping by 256 so that the low byte is kept
	onCurve := func(x0 *big.Int, out *bn254.G1Affine, pickLargeY bool) bool {
		x := new(big.Int).Set(x0)
		for n := 0; n < 4096 && x.BitLen() <= 254; n++ {
			var X, Y, rhs, three fp.Element
			X.SetBigInt(x)
			three.SetUint64(3)
			rhs.Square(&X).Mul(&rhs, &X).Add(&rhs, &three)
			if Y.Sqrt(&rhs) != nil {
				var negY fp.Element
				negY.Neg(&Y)
				if (Y.Cmp(&negY) < 0) == pickLargeY {
					Y = negY
				}
				out.X, out.Y = X, Y
				return out.IsOnCurve()
			}
			x.Add(x, big.NewInt(256))
		}
		return false
	}
	if v := verifGet("coord:ax"); v.Sign() > 0 && name == "proof" {
		onCurve(v, &A, verifGet("coord:ay_large").Sign() > 0)
	}
	if v := verifGet("coord:cx"); v.Sign() > 0 && name == "proof" {
		onCurve(v, &C, verifGet("coord:cy_large").Sign() > 0)
	}
	var buf bytes.Buffer
	enc := bn254.NewEncoder(&buf, bn254.RawEncoding())
	enc.Encode(&A)
	enc.Encode(&B)
	enc.Encode(&C)
	p := groth16.NewProof(ecc.BN254)
	if _, err := p.ReadFrom(bytes.NewReader(buf.Bytes())); err != nil {
		panic(err)
	}
	return p
}

func verifRaw(p groth16.Proof) []byte {
	var buf bytes.Buffer
	if _, err := p.WriteRawTo(&buf); err != nil {
		panic(err)
	}
	return buf.Bytes()
}

func verifProofCoord(p groth16.Proof, i int) big.Int {
	var x big.Int
	x.SetBytes(verifRaw(p)[32*i : 32*i+32])
	return x
}

func verifProofEq(a, b groth16.Proof) bool { return bytes.Equal(verifRaw(a), verifRaw(b)) }
