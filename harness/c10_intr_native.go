package prover

import (
	"bytes"
	"math/big"

	"github.com/consensys/gnark-crypto/ecc"
	"github.com/consensys/gnark-crypto/ecc/bn254"
	"github.com/consensys/gnark/backend/groth16"
)

// native realisation of the stub proof: A = a*G1, B = b*G2, C = c*G1 with scalars from the replay file (default 1: the generators,
// whose G1 coordinates (1,2) are the shortest possible).
func verifStubProof(name string) groth16.Proof {
	_, _, g1, g2 := bn254.Generators()
	var A, C bn254.G1Affine
	var B bn254.G2Affine
	sc := func(k string) *big.Int {
		v := verifGet("scalar:" + k)
		if v.Sign() == 0 {
			v = big.NewInt(1)
		}
		if name != "proof" { // further proofs of one harness run are distinct points
			v = new(big.Int).Add(v, big.NewInt(int64(6+len(name))))
		}
		return v
	}
	A.ScalarMultiplication(&g1, sc("a"))
	B.ScalarMultiplication(&g2, sc("b"))
	C.ScalarMultiplication(&g1, sc("c"))
	// directed search: the solver's counterexample depends on the byte pattern of a coordinate (leading / trailing zero bytes);
	// find real curve points A (x coordinate) and C (y coordinate) with that pattern
	lead, trail := int(verifGet("feat:lead").Int64()), int(verifGet("feat:trail").Int64())
	if lead > 0 || trail > 0 {
		match := func(b [32]byte) bool {
			for i := 0; i < lead; i++ {
				if b[i] != 0 {
					return false
				}
			}
			for i := 0; i < trail; i++ {
				if b[31-i] != 0 {
					return false
				}
			}
			return b != [32]byte{}
		}
		k := new(big.Int).Set(sc("a"))
		for n := 0; n < 400000; n++ {
			A.ScalarMultiplication(&g1, k)
			if match(A.X.Bytes()) {
				break
			}
			k.Add(k, big.NewInt(1))
		}
		k = new(big.Int).Add(sc("c"), big.NewInt(1000003))
		for n := 0; n < 400000; n++ {
			C.ScalarMultiplication(&g1, k)
			if match(C.Y.Bytes()) {
				break
			}
			k.Add(k, big.NewInt(1))
		}
	}
	var buf bytes.Buffer
	enc := bn254.NewEncoder(&buf, bn254.RawEncoding())
	enc.Encode(&A)
	enc.Encode(&B)
	enc.Encode(&C)
	p := groth16.NewProof(ecc.BN254)
	if _, err := p.ReadFrom(bytes.NewReader(buf.Bytes())); err != nil {
		panic(err)
	}
	return p
}

func verifRaw(p groth16.Proof) []byte {
	var buf bytes.Buffer
	if _, err := p.WriteRawTo(&buf); err != nil {
		panic(err)
	}
	return buf.Bytes()
}

func verifProofCoord(p groth16.Proof, i int) big.Int {
	var x big.Int
	x.SetBytes(verifRaw(p)[32*i : 32*i+32])
	return x
}

func verifProofEq(a, b groth16.Proof) bool { return bytes.Equal(verifRaw(a), verifRaw(b)) }
