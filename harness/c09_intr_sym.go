package server

import (
	"io"
	"net/http"

	"github.com/consensys/gnark/backend/groth16"
	"github.com/consensys/gnark/constraint"
	"worldcoin/gnark-mbu/prover"
)

// the handler under test is the one server.Run installs for /prove: Run is executed (real code, library calls stubbed) and the
// value it hands to the mux is captured
func verifDeployedHandler() http.Handler { return nil }
func verifDeploy(ps *prover.ProvingSystem, mode string) http.Handler {
	Run(&Config{ProverAddress: "prover-address", MetricsAddress: "metrics-address", Mode: mode}, ps)
	return verifDeployedHandler()
}

func verifStubPK(sys string) groth16.ProvingKey          { return nil }
func verifStubVK(sys string) groth16.VerifyingKey        { return nil }
func verifStubCS(sys string) constraint.ConstraintSystem { return nil }
func verifRecorder() http.ResponseWriter                 { return nil }
func verifBody() io.ReadCloser                           { return nil }
func verifHappened(tag string) bool                      { return false }
func verifRespHeaderCount() int                          { return 0 }
func verifRespStatus() int                               { return 0 }
func verifRespWriteCount() int                           { return 0 }
func verifRespBodyIsError(code string) bool              { return false }
func verifRespBodyIsProof() bool                         { return false }
func verifNoLocksHeld() bool                             { return true }
func verifBodyWellFormed() bool                          { return true }
func verifBeginInvocation()                              {}
func verifRunShutdownHooks()                             {}
