package server

// C13 native replay: many overlapping requests (valid / unsatisfiable / wrong shape / malformed, distinct input hashes) against the real
// handler and a real proving system; every response must equal the response the same request gets when sent alone. Run under -race.
import (
	"encoding/json"
	"fmt"
	"math/big"
	"net/http"
	"net/http/httptest"
	"strings"
	"sync"

	"worldcoin/gnark-mbu/poseidon_tree"
	"worldcoin/gnark-mbu/prover"
)

func VerifHarness_C13_Native() {
	verifC13NativeMode(true)
	verifC13NativeMode(false)
}

func verifC13NativeMode(deletion bool) {
	depth, batch := 2, 1
	var ps *prover.ProvingSystem
	var err error
	if deletion {
		ps, err = prover.SetupDeletion(uint32(depth), uint32(batch))
	} else {
		ps, err = prover.SetupInsertion(uint32(depth), uint32(batch))
	}
	verifAssert(err == nil, "setup")
	mode := InsertionMode
	if deletion {
		mode = DeletionMode
	}
	h := verifDeploy(ps, mode)
	type reqT struct {
		body string
		hash big.Int
		want int
		code string
	}
	var reqs []reqT
	add := func(v interface{}, hash big.Int, want int, code string) {
		b, _ := json.Marshal(v)
		reqs = append(reqs, reqT{body: string(b), hash: hash, want: want, code: code})
	}
	for i := 0; i < 4; i++ {
		if deletion {
			tree := poseidon_tree.NewTree(depth)
			tree.Update(i, *big.NewInt(int64(100 + i)))
			p := prover.DeletionParameters{DeletionIndices: []uint32{uint32(i)}, IdComms: []big.Int{*big.NewInt(int64(100 + i))}}
			p.PreRoot = tree.Root()
			p.MerkleProofs = [][]big.Int{tree.Update(i, *big.NewInt(0))}
			p.PostRoot = tree.Root()
			p.ComputeInputHashDeletion()
			add(&p, p.InputHash, 200, "")
			q := p
			q.PostRoot = *big.NewInt(int64(7 + i))
			add(&q, q.InputHash, 400, "proving_error")
			q = p
			q.IdComms = append(q.IdComms, *big.NewInt(1))
			add(&q, q.InputHash, 400, "proving_error")
			// relatives of the valid request: same roots and indices, another claimed hash / another leaf value (both unprovable)
			q = p
			q.InputHash = *new(big.Int).Add(&p.InputHash, big.NewInt(1))
			add(&q, q.InputHash, 400, "proving_error")
			q = p
			q.IdComms = []big.Int{*big.NewInt(int64(900 + i))}
			add(&q, q.InputHash, 400, "proving_error")
		} else {
			// two valid batches on the same pre-root (same start index, different commitment), and unprovable relatives of the first
			for v := 0; v < 2; v++ {
				tree := poseidon_tree.NewTree(depth)
				for j := 0; j < i; j++ {
					tree.Update(j, *big.NewInt(int64(50 + j)))
				}
				p := prover.InsertionParameters{StartIndex: uint32(i), IdComms: []big.Int{*big.NewInt(int64(100 + 10*i + v))}}
				p.PreRoot = tree.Root()
				p.MerkleProofs = [][]big.Int{tree.Update(i, p.IdComms[0])}
				p.PostRoot = tree.Root()
				p.ComputeInputHashInsertion()
				add(&p, p.InputHash, 200, "")
				if v == 0 {
					q := p
					q.InputHash = *new(big.Int).Add(&p.InputHash, big.NewInt(1))
					add(&q, q.InputHash, 400, "proving_error")
					q = p
					q.IdComms = []big.Int{*big.NewInt(int64(900 + i))}
					add(&q, q.InputHash, 400, "proving_error")
					q = p
					q.IdComms = append(q.IdComms, *big.NewInt(1))
					add(&q, q.InputHash, 400, "proving_error")
				}
			}
		}
		reqs = append(reqs, reqT{body: fmt.Sprintf(`{"inputHash":"zz%d"}`, i), want: 400, code: "malformed_body"})
	}
	check := func(i int, rec *httptest.ResponseRecorder) string {
		if rec.Code != reqs[i].want {
			return fmt.Sprintf("request %d: status %d, alone it gets %d (%s)", i, rec.Code, reqs[i].want, rec.Body.String())
		}
		if reqs[i].want == 400 {
			if verifCode(rec.Body.String()) != reqs[i].code {
				return fmt.Sprintf("request %d: code %q, alone it gets %q", i, verifCode(rec.Body.String()), reqs[i].code)
			}
			return ""
		}
		var proof prover.Proof
		if err := json.Unmarshal(rec.Body.Bytes(), &proof); err != nil {
			return fmt.Sprintf("request %d: proof does not decode: %v", i, err)
		}
		var verr error
		if deletion {
			verr = ps.VerifyDeletion(reqs[i].hash, &proof)
		} else {
			verr = ps.VerifyInsertion(reqs[i].hash, &proof)
		}
		if verr != nil {
			return fmt.Sprintf("request %d: proof does not verify for its own input hash: %v", i, verr)
		}
		return ""
	}
	for round := 0; round < 3; round++ {
		var wg sync.WaitGroup
		start := make(chan struct{})
		errs := make([]string, len(reqs))
		for i := range reqs {
			wg.Add(1)
			go func(i int) {
				defer wg.Done()
				<-start
				rec := httptest.NewRecorder()
				h.ServeHTTP(rec, httptest.NewRequest(http.MethodPost, "/prove", strings.NewReader(reqs[i].body)))
				errs[i] = check(i, rec)
			}(i)
		}
		close(start)
		wg.Wait()
		for _, e := range errs {
			verifAssert(e == "", "each of several overlapping requests gets the response it gets alone")
			if e != "" {
				fmt.Println(e)
			}
		}
	}
	// one after the other, on the server that has answered all of the above: an answer must not depend on what was asked before
	for i := range reqs {
		rec := httptest.NewRecorder()
		h.ServeHTTP(rec, httptest.NewRequest(http.MethodPost, "/prove", strings.NewReader(reqs[i].body)))
		e := check(i, rec)
		verifAssert(e == "", "a request sent after other requests gets the response it gets alone")
		if e != "" {
			fmt.Println(e)
		}
	}
}

func verifCode(body string) string {
	var m map[string]string
	if json.Unmarshal([]byte(body), &m) != nil {
		return ""
	}
	return m["code"]
}
