package server

// C13 native replay: many overlapping requests (valid / unsatisfiable / wrong shape / malformed, distinct input hashes) against the real
// handler and a real proving system; every response must equal the response the same request gets when sent alone. Run under -race.
import (
	"encoding/json"
	"fmt"
	"math/big"
	"net/http"
	"net/http/httptest"
	"strings"
	"sync"

	"worldcoin/gnark-mbu/poseidon_tree"
	"worldcoin/gnark-mbu/prover"
)

func VerifHarness_C13_Native() {
	depth, batch := 2, 1
	ps, err := prover.SetupDeletion(uint32(depth), uint32(batch))
	verifAssert(err == nil, "setup")
	h := verifDeploy(ps, DeletionMode)
	type reqT struct {
		body string
		hash big.Int
		want int
		code string
	}
	var reqs []reqT
	for i := 0; i < 4; i++ {
		tree := poseidon_tree.NewTree(depth)
		tree.Update(i, *big.NewInt(int64(100 + i)))
		p := prover.DeletionParameters{DeletionIndices: []uint32{uint32(i)}, IdComms: []big.Int{*big.NewInt(int64(100 + i))}}
		p.PreRoot = tree.Root()
		p.MerkleProofs = [][]big.Int{tree.Update(i, *big.NewInt(0))}
		p.PostRoot = tree.Root()
		p.ComputeInputHashDeletion()
		b, _ := json.Marshal(&p)
		reqs = append(reqs, reqT{body: string(b), hash: p.InputHash, want: 200})
		q := p
		q.PostRoot = *big.NewInt(int64(7 + i))
		b, _ = json.Marshal(&q)
		reqs = append(reqs, reqT{body: string(b), want: 400, code: "proving_error"})
		q = p
		q.IdComms = append(q.IdComms, *big.NewInt(1))
		b, _ = json.Marshal(&q)
		reqs = append(reqs, reqT{body: string(b), want: 400, code: "proving_error"})
		reqs = append(reqs, reqT{body: fmt.Sprintf(`{"inputHash":"zz%d"}`, i), want: 400, code: "malformed_body"})
	}
	for round := 0; round < 3; round++ {
		var wg sync.WaitGroup
		start := make(chan struct{})
		errs := make([]string, len(reqs))
		for i := range reqs {
			wg.Add(1)
			go func(i int) {
				defer wg.Done()
				<-start
				rec := httptest.NewRecorder()
				h.ServeHTTP(rec, httptest.NewRequest(http.MethodPost, "/prove", strings.NewReader(reqs[i].body)))
				if rec.Code != reqs[i].want {
					errs[i] = fmt.Sprintf("request %d: status %d, alone it gets %d (%s)", i, rec.Code, reqs[i].want, rec.Body.String())
					return
				}
				if reqs[i].want == 400 {
					if verifCode(rec.Body.String()) != reqs[i].code {
						errs[i] = fmt.Sprintf("request %d: code %q, alone it gets %q", i, verifCode(rec.Body.String()), reqs[i].code)
					}
					return
				}
				var proof prover.Proof
				if err := json.Unmarshal(rec.Body.Bytes(), &proof); err != nil {
					errs[i] = fmt.Sprintf("request %d: proof does not decode: %v", i, err)
					return
				}
				if err := ps.VerifyDeletion(reqs[i].hash, &proof); err != nil {
					errs[i] = fmt.Sprintf("request %d: proof does not verify for its own input hash: %v", i, err)
				}
			}(i)
		}
		close(start)
		wg.Wait()
		for _, e := range errs {
			verifAssert(e == "", "each of several overlapping requests gets the response it gets alone")
			if e != "" {
				fmt.Println(e)
			}
		}
	}
}

func verifCode(body string) string {
	var m map[string]string
	if json.Unmarshal([]byte(body), &m) != nil {
		return ""
	}
	return m["code"]
}
