package poseidon_tree

// C18 harness: after any sequence of updates Root() equals the root recomputed densely from the leaves; Update returns the sibling
// path authenticating the old value against the old root and the new value against the new root.
import (
	"math/big"

	"github.com/iden3/go-iden3-crypto/poseidon"
)

func verifH(a, b big.Int) big.Int {
	h, _ := poseidon.Hash([]*big.Int{&a, &b})
	return *h
}

func verifDense(leaves []big.Int) big.Int {
	level := leaves
	for len(level) > 1 {
		next := make([]big.Int, len(level)/2)
		for i := 0; i < len(next); i++ {
			next[i] = verifH(level[2*i], level[2*i+1])
		}
		level = next
	}
	return level[0]
}

func verifFold(leaf big.Int, index int, path []big.Int) big.Int {
	cur := leaf
	for j := 0; j < len(path); j++ {
		if (index>>j)&1 == 1 {
			cur = verifH(path[j], cur)
		} else {
			cur = verifH(cur, path[j])
		}
	}
	return cur
}

func VerifHarness_C18_Updates() {
	depth := verifParam("depth", 2)
	updates := verifParam("updates", 2)
	n := 1 << depth
	tree := NewTree(depth)
	leaves := make([]big.Int, n)
	verifAssert(verifBigEq(tree.Root(), verifDense(leaves)), "the empty tree has the root of the all-zero dense tree")
	var prev big.Int
	for u := 0; u < updates; u++ {
		idx := verifNondetInt(verifName("idx", u))
		verifAssume(idx >= 0 && idx < n)
		val := verifNondetBig(verifName("val", u))
		verifAssume(verifBigLt(val, verifFieldOrder()))
		if u > 0 && verifParam("alias", 0) == 1 && verifNondetBool(verifName("same", u)) {
			val = prev // the caller writes the very same big.Int (shared backing array) to another leaf
		}
		prev = val
		for i := 0; i < n; i++ {
			if i != idx {
				continue
			}
			oldRoot := tree.Root()
			old := leaves[i]
			path := tree.Update(i, val)
			leaves[i] = val
			newRoot := tree.Root()
			verifAssert(len(path) == depth, "the returned path has one sibling per level")
			verifAssert(verifBigEq(newRoot, verifDense(leaves)), "Root() equals the dense recomputation from the current leaves")
			if len(path) == depth {
				verifAssert(verifBigEq(verifFold(old, i, path), oldRoot), "the returned path authenticates the previous value against the previous root")
				verifAssert(verifBigEq(verifFold(val, i, path), newRoot), "the returned path authenticates the new value against the new root")
			}
		}
	}
}

// Unit lemma for every depth up to 32 (the dense harness above cannot reach them): the side taken at a node of depth d is bit d-1 of
// the leaf index. With it, the small-depth results carry over: withValue/writeProof recurse uniformly on the node depth.
func VerifHarness_C18_IndexBit() {
	depth := verifNondetInt("depth")
	verifAssume(depth >= 1 && depth <= 32)
	idx := verifNondetInt("index")
	verifAssume(idx >= 0 && idx>>uint(depth) == 0)
	want := (idx>>uint(depth-1))&1 == 0
	verifAssert(indexIsLeft(idx, depth) == want, "indexIsLeft(index, depth) is bit depth-1 of the index, for every depth up to 32 and every index below 2^depth")
}

// Native-only: depths 1..32 with a sparse reference (zero-subtree chain by iterated hashing), first/last leaf and a far-apart pair.
func VerifHarness_C18_Deep() {
	for depth := 1; depth <= 32; depth++ {
		zero := make([]big.Int, depth+1)
		for i := 1; i <= depth; i++ {
			zero[i] = verifH(zero[i-1], zero[i-1])
		}
		tree := NewTree(depth)
		verifAssert(verifBigEq(tree.Root(), zero[depth]), "the empty tree has the root of the all-zero dense tree")
		last := 1<<depth - 1
		vals := map[int]big.Int{}
		for step, idx := range []int{0, last, last / 2, 0, last, last/2 + 1, 1 << (depth - 1)} {
			v := *big.NewInt(int64(1000 + step))
			if step == 3 {
				v = *big.NewInt(0)
			}
			oldRoot := tree.Root()
			old := vals[idx]
			path := tree.Update(idx, v)
			vals[idx] = v
			verifAssert(len(path) == depth, "the returned path has one sibling per level")
			if len(path) != depth {
				return
			}
			verifAssert(verifBigEq(verifFold(old, idx, path), oldRoot), "the returned path authenticates the previous value against the previous root")
			verifAssert(verifBigEq(verifFold(v, idx, path), tree.Root()), "the returned path authenticates the new value against the new root")
			// sparse recomputation of the root from the written leaves
			var node func(level int, pos int) big.Int
			node = func(level int, pos int) big.Int {
				if level == 0 {
					return vals[pos]
				}
				any := false
				for k := range vals {
					if k>>level == pos {
						any = true
					}
				}
				if !any {
					return zero[level]
				}
				return verifH(node(level-1, 2*pos), node(level-1, 2*pos+1))
			}
			verifAssert(verifBigEq(tree.Root(), node(depth, 0)), "Root() equals the dense recomputation from the current leaves")
		}
	}
}
