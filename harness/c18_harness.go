package poseidon_tree

// C18 harness: after any sequence of updates Root() equals the root recomputed densely from the leaves; Update returns the sibling
// path authenticating the old value against the old root and the new value against the new root.
import (
	"math/big"

	"github.com/iden3/go-iden3-crypto/poseidon"
)

func verifH(a, b big.Int) big.Int {
	h, _ := poseidon.Hash([]*big.Int{&a, &b})
	return *h
}

func verifDense(leaves []big.Int) big.Int {
	level := leaves
	for len(level) > 1 {
		next := make([]big.Int, len(level)/2)
		for i := 0; i < len(next); i++ {
			next[i] = verifH(level[2*i], level[2*i+1])
		}
		level = next
	}
	return level[0]
}

func verifFold(leaf big.Int, index int, path []big.Int) big.Int {
	cur := leaf
	for j := 0; j < len(path); j++ {
		if (index>>j)&1 == 1 {
			cur = verifH(path[j], cur)
		} else {
			cur = verifH(cur, path[j])
		}
	}
	return cur
}

func VerifHarness_C18_Updates() {
	depth := verifParam("depth", 2)
	updates := verifParam("updates", 2)
	n := 1 << depth
	tree := NewTree(depth)
	leaves := make([]big.Int, n)
	verifAssert(verifBigEq(tree.Root(), verifDense(leaves)), "the empty tree has the root of the all-zero dense tree")
	for u := 0; u < updates; u++ {
		idx := verifNondetInt(verifName("idx", u))
		verifAssume(idx >= 0 && idx < n)
		val := verifNondetBig(verifName("val", u))
		for i := 0; i < n; i++ {
			if i != idx {
				continue
			}
			oldRoot := tree.Root()
			old := leaves[i]
			path := tree.Update(i, val)
			leaves[i] = val
			newRoot := tree.Root()
			verifAssert(len(path) == depth, "the returned path has one sibling per level")
			verifAssert(verifBigEq(newRoot, verifDense(leaves)), "Root() equals the dense recomputation from the current leaves")
			if len(path) == depth {
				verifAssert(verifBigEq(verifFold(old, i, path), oldRoot), "the returned path authenticates the previous value against the previous root")
				verifAssert(verifBigEq(verifFold(val, i, path), newRoot), "the returned path authenticates the new value against the new root")
			}
		}
	}
}
