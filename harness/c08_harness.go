package prover

// C08 harness: the library's input-hash helpers against the on-chain packing
//   insertion: uint32 startIndex || uint256 preRoot || uint256 postRoot || uint256 commitments...
//   deletion : uint32 indices... || uint256 preRoot || uint256 postRoot            (all big-endian, fixed width)
import (
	"math/big"

	"github.com/iden3/go-iden3-crypto/keccak256"
)


func verifBE4(x uint32) []byte {
	return []byte{byte(x >> 24), byte(x >> 16), byte(x >> 8), byte(x)}
}

func VerifHarness_C08_Insertion() {
	var p InsertionParameters
	p.StartIndex = verifNondetU32("start")
	p.PreRoot = verifNondetBig("pre")
	p.PostRoot = verifNondetBig("post")
	n := verifNondetLen("n", verifParam("maxbatch", 3))
	p.IdComms = make([]big.Int, n)
	for i := 0; i < n; i++ {
		p.IdComms[i] = verifNondetBig(verifName("idc", i))
	}
	err := p.ComputeInputHashInsertion()
	verifAssert(err == nil, "ComputeInputHashInsertion returns no error")

	var ref []byte
	ref = append(ref, verifBE4(p.StartIndex)...)
	ref = append(ref, verifBE32(p.PreRoot)...)
	ref = append(ref, verifBE32(p.PostRoot)...)
	for i := 0; i < n; i++ {
		ref = append(ref, verifBE32(p.IdComms[i])...)
	}
	var want big.Int
	want.SetBytes(keccak256.Hash(ref))
	verifAssert(verifBigEq(p.InputHash, want), "insertion InputHash == keccak256(uint32 start || uint256 pre || uint256 post || uint256 commitments...)")
}

func VerifHarness_C08_Deletion() {
	var p DeletionParameters
	p.PreRoot = verifNondetBig("pre")
	p.PostRoot = verifNondetBig("post")
	n := verifNondetLen("n", verifParam("maxbatch", 3))
	p.DeletionIndices = make([]uint32, n)
	for i := 0; i < n; i++ {
		p.DeletionIndices[i] = verifNondetU32(verifName("idx", i))
	}
	err := p.ComputeInputHashDeletion()
	verifAssert(err == nil, "ComputeInputHashDeletion returns no error")

	var ref []byte
	for i := 0; i < n; i++ {
		ref = append(ref, verifBE4(p.DeletionIndices[i])...)
	}
	ref = append(ref, verifBE32(p.PreRoot)...)
	ref = append(ref, verifBE32(p.PostRoot)...)
	var want big.Int
	want.SetBytes(keccak256.Hash(ref))
	verifAssert(verifBigEq(p.InputHash, want), "deletion InputHash == keccak256(uint32 indices... || uint256 pre || uint256 post)")

	// a second, unrelated parameter set hashed afterwards in the same process (no state may leak from the first call)
	var q DeletionParameters
	q.PreRoot = verifNondetBig("pre2")
	q.PostRoot = verifNondetBig("post2")
	q.DeletionIndices = []uint32{verifNondetU32("idx2")}
	err = q.ComputeInputHashDeletion()
	verifAssert(err == nil, "second ComputeInputHashDeletion returns no error")
	var ref2 []byte
	ref2 = append(ref2, verifBE4(q.DeletionIndices[0])...)
	ref2 = append(ref2, verifBE32(q.PreRoot)...)
	ref2 = append(ref2, verifBE32(q.PostRoot)...)
	var want2 big.Int
	want2.SetBytes(keccak256.Hash(ref2))
	verifAssert(verifBigEq(q.InputHash, want2), "a second deletion hash computed afterwards is again the hash of its own packing")
}
