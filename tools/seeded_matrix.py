#!/usr/bin/env python3
"""run every seeded change against its property's check (and extra checks named on the command line as ID=CHECK pairs);
writes seeded/RESULTS.json + RESULTS.md. Uses scratch worktrees only."""
import json, os, subprocess, sys, re
V = '/verif'
extra = dict(a.split('=') for a in sys.argv[1:] if '=' in a)
only = [a for a in sys.argv[1:] if '=' not in a]
res = json.load(open(V + '/seeded/RESULTS.json')) if os.path.exists(V + '/seeded/RESULTS.json') else {}
for sid in sorted(os.listdir(V + '/seeded')):
    d = os.path.join(V, 'seeded', sid)
    if not os.path.isdir(d) or (only and sid not in only):
        continue
    prop = json.load(open(d + '/meta.json'))['property']
    checks = [prop] + ([extra[sid]] if sid in extra else [])
    for chk in checks:
        key = '%s@%s' % (sid, chk)
        if key in res and not only:
            continue
        env = dict(os.environ, GOSYM_TIME_BUDGET='400')
        p = subprocess.run([V + '/tools/try_mutant.sh', d + '/patch.diff', chk, 'quick'], stdout=subprocess.PIPE, stderr=subprocess.STDOUT, text=True, env=env, timeout=3600)
        m = re.search(r'rc=(\d+)', p.stdout)
        rc = int(m.group(1)) if m else -1
        viol = re.findall(r'^  (.*)', p.stdout, re.M)
        res[key] = {'rc': rc, 'verdict': {0: 'MISSED (check passes)', 1: 'VIOLATION', 2: 'INCONCLUSIVE'}.get(rc, 'error'), 'detail': (viol or p.stdout.strip().splitlines()[-1:])[0][:300] if (viol or p.stdout.strip()) else ''}
        print(key, res[key]['verdict'], flush=True)
        json.dump(res, open(V + '/seeded/RESULTS.json', 'w'), indent=1)
lines = ['| seeded change | check | result | detail |', '|---|---|---|---|']
for k in sorted(res):
    lines.append('| %s | %s | %s | %s |' % (k.split('@')[0], k.split('@')[1], res[k]['verdict'], res[k]['detail'].replace('|', '/')[:160]))
open(V + '/seeded/RESULTS.md', 'w').write('\n'.join(lines) + '\n')
