#!/usr/bin/env python3
"""run every seeded change against its property's check (and extra checks named on the command line as ID=CHECK pairs);
writes seeded/RESULTS.json + RESULTS.md. Uses scratch worktrees only. --fresh ignores cached results, -jN runs N at a time."""
import json, os, subprocess, sys, re, threading
from concurrent.futures import ThreadPoolExecutor
V = '/verif'
argv = sys.argv[1:]
fresh = '--fresh' in argv
jobs = max([int(a[2:]) for a in argv if a.startswith('-j')] + [1])
argv = [a for a in argv if a != '--fresh' and not a.startswith('-j')]
extra = {}
for a in argv:
    if '=' in a:
        extra.setdefault(a.split('=')[0], []).append(a.split('=')[1])
# related checks known to catch a change its own check cannot see
for sid, chk in (('C09A', 'C16'), ('C07C', 'C01'), ('C15C', 'C19'), ('C17F', 'C12'), ('C01D', 'C06'), ('C01D', 'C03'), ('C01F', 'C03'), ('C02D', 'C03'), ('C02F', 'C12'),
                 ('C07D', 'C06'), ('C07E', 'C03'), ('C09F', 'C16'), ('C11D', 'C19'), ('C19E', 'C11'), ('C19E', 'C15'), ('C09D', 'C07'), ('C13E', 'C09'), ('C13D', 'C09'),
                 ('C03G', 'C06'), ('C03H', 'C04'), ('C07G', 'C01'), ('C11H', 'C19'), ('C12H', 'C04'), ('C01H', 'C06')):
    extra.setdefault(sid, []).append(chk)
only = [a for a in argv if '=' not in a]
res = json.load(open(V + '/seeded/RESULTS.json')) if os.path.exists(V + '/seeded/RESULTS.json') and not fresh else {}
lock = threading.Lock()
todo = []
for sid in sorted(os.listdir(V + '/seeded')):
    d = os.path.join(V, 'seeded', sid)
    if not os.path.isdir(d) or (only and sid not in only):
        continue
    prop = json.load(open(d + '/meta.json'))['property']
    for chk in [prop] + extra.get(sid, []):
        key = '%s@%s' % (sid, chk)
        if key in res and not only:
            continue
        todo.append((key, d, chk))


def one(t):
    key, d, chk = t
    env = dict(os.environ, GOSYM_TIME_BUDGET='400')
    try:
        p = subprocess.run([V + '/tools/try_mutant.sh', d + '/patch.diff', chk, 'quick'], stdout=subprocess.PIPE, stderr=subprocess.STDOUT, text=True, env=env, timeout=3600)
        out = p.stdout
    except subprocess.TimeoutExpired as e:
        out = 'rc=2 timeout'
    m = re.search(r'rc=(\d+)', out)
    rc = int(m.group(1)) if m else -1
    viol = re.findall(r'^  (.*)', out, re.M)
    with lock:
        res[key] = {'rc': rc, 'verdict': {0: 'MISSED (check passes)', 1: 'VIOLATION', 2: 'INCONCLUSIVE'}.get(rc, 'error'), 'detail': (viol or out.strip().splitlines()[-1:])[0][:300] if (viol or out.strip()) else ''}
        print(key, res[key]['verdict'], flush=True)
        json.dump(res, open(V + '/seeded/RESULTS.json', 'w'), indent=1, sort_keys=True)


with ThreadPoolExecutor(jobs) as ex:
    list(ex.map(one, todo))
lines = ['| seeded change | check | result | detail |', '|---|---|---|---|']
for k in sorted(res):
    lines.append('| %s | %s | %s | %s |' % (k.split('@')[0], k.split('@')[1], res[k]['verdict'], re.sub(r'/tmp/mw_\w+/', '', res[k]['detail']).replace('|', '/')[:160]))
open(V + '/seeded/RESULTS.md', 'w').write('\n'.join(lines) + '\n')
