#!/usr/bin/env python3
"""regenerate MANIFEST.json from the table below (claimed checks = those with a checks/<id>.py)"""
import json, os
V = '/verif'
props = [json.loads(l) for l in open(V + '/properties.jsonl')]
R2S = 'SMT (z3) over the gnark-compiled R1CS of the real gadgets/circuits, lifted to typed terms (engine/r2s); counterexamples replayed on the real R1CS / gnark solver'
GOS = 'symbolic execution of go/ssa of the real functions into SMT (z3 bit-vectors/arrays/UF, engine/gosym); per-path assertion queries; native replay with go test -overlay'
T = {
 'C01': ('R2S', 'QF_UFLIA soundness+completeness of InsertionProof R1CS', 'all field inputs and all hint outputs at (depth,batch) in the stated table; Poseidon2 as UF (C05)', 'other'),
 'C02': ('R2S', 'QF_UFLIA soundness+completeness of DeletionProof R1CS (skip flag, IsZero via field axioms)', 'as C01, depth <= 31', 'other'),
 'C03': ('R2S', 'QF_LIA on the real top-level circuits with Keccak/Merkle gadgets summarised; sliced per packed field', 'batch sizes in the table; Keccak as one uninterpreted application; comparator justified in-run', 'other'),
 'C04': ('R2S', 'Boolean lifting of the real KeccakRound R1CS vs BV64 reference (QF_BV), schedule by wire identity, sponge by lock-step congruence', 'selected rounds in quick / all 24 in thorough; listed message lengths; history harness (hash after hash over overlapping storage) at listed sizes', 'other'),
 'C05': ('R2S', 'structural product-atom normal form + SMT disequality of whole Poseidon R1CS vs textbook reference', 'textbook==iden3 cross-validated concretely only; variable, constant and mixed operands', 'other'),
 'C06': ('R2S', 'QF_BV comparator equivalence, QF_LIA decomposition/recomposition over 8 prime fields', 'byte-aligned widths near the bit length + proxy widths', 'other'),
 'C07': ('GOSYM', 'go/ssa symbolic execution of Prove*/Verify*/ValidateShape under a Groth16 contract stub', 'dimensions <= 2 (quick 1); big.Int values below 2^264; Groth16 itself is the contract', 'other'),
 'C08': ('GOSYM', 'go/ssa symbolic execution of ComputeInputHash* with byte arrays of symbolic length, keccak as UF', 'batch <= 2 quick / 3 thorough; gen-test-params executed for every (mode, depth <= 3 (4), batch <= 2^depth+1)', 'other'),
 'C09': ('GOSYM', 'go/ssa symbolic execution of proveHandler.ServeHTTP with nondeterministic decoder/prover stubs', 'decoded arrays <= 2 (3 thorough)', 'other'),
 'C10': ('GOSYM', 'go/ssa symbolic execution of Proof.MarshalJSON/UnmarshalJSON over 8 symbolic 256-bit coordinates', 'gnark-crypto raw encoding is the contract', 'other'),
 'C11': ('GOSYM', 'go/ssa symbolic execution of WriteTo/WriteRawTo/UnsafeReadFrom over a token stream', 'gnark section serialisers are opaque', 'other'),
 'C15': ('GOSYM', 'go/ssa symbolic execution of UnsafeReadFrom/ReadSystemFromFile on a file cut at a symbolic offset', 'section readers fail iff cut inside them (validated natively at replay)', 'other'),
 'C16': ('GOSYM', 'go/ssa symbolic execution of parameter Marshal/UnmarshalJSON with a numeric-string model', 'array lengths <= 2 (3 thorough); encoding/json as contract', 'other'),
}
EXTRA = json.load(open(V + '/tools/manifest_extra.json')) if os.path.exists(V + '/tools/manifest_extra.json') else {}
T.update({k: tuple(v) for k, v in EXTRA.get('table', {}).items()})
NA = EXTRA.get('not_applicable', {})
checks, na = [], []
for p in props:
    i = p['id']
    if i in T and os.path.exists('%s/checks/%s.py' % (V, i.lower())):
        eng, tech, note, cat = T[i]
        checks.append({'property_id': i, 'quick_cmd': './check %s --tier quick' % i, 'thorough_cmd': './check %s --tier thorough' % i, 'evidence_file': 'evidence/%s.json' % i,
                       'replay_cmd_template': './check %s --replay {path}' % i, 'engine': eng,
                       'level_claimed': {'category': cat, 'text': 'bounded symbolic verification: every obligation is an SMT verdict (unsat = holds for all values within the stated bounds); ' + tech, 'design_ref': 'DESIGN.md section 3 (%s)' % i},
                       'level_note': note + '; trusted: z3, the Go toolchain front ends (gnark frontend / go/ssa), the encoder (validated against the real build every run), stubs listed in the evidence file',
                       'technique': (R2S if eng == 'R2S' else GOS if eng == 'GOSYM' else 'SMT (z3, EUF) equivalence of parsed Lean definitions (engine/leanm); concrete text diff as replay') + ' -- ' + tech})
    else:
        na.append({'property_id': i, 'reason': NA.get(i, 'check not built yet (work in progress in this session)')})
m = {'version': 1,
     'setup_cmd': 'cd /verif && GOFLAGS=-mod=mod GOPROXY=off GOSUMDB=off GOTOOLCHAIN=local sh -c "cd engine/r2s/dump && go build -o /dev/null . && cd ../../gosym/ssadump && go build -o /dev/null ."',
     'hooks': {'guard': 'verif', 'enable': 'no source hooks: harnesses enter by go/packages overlay, go test -overlay, or the verif-owned module with replace => /repo',
               'baseline_off_cmd': 'python3 /verif/tools/baseline.py /repo', 'source_commits': [], 'add_only': True},
     'engines': [{'name': 'R2S', 'path': 'engine/r2s', 'serves_properties': ['C01', 'C02', 'C03', 'C04', 'C05', 'C06'], 'kind_free_text': 'gnark R1CS -> typed terms -> SMT'},
                 {'name': 'GOSYM', 'path': 'engine/gosym', 'serves_properties': [c['property_id'] for c in checks if c['engine'] == 'GOSYM'], 'kind_free_text': 'go/ssa symbolic executor -> SMT (incl. GOSYM-C event/timestamp models)'},
                 {'name': 'LEANM', 'path': 'engine/leanm', 'serves_properties': ['C17'], 'kind_free_text': 'Lean DSL parser -> SMT'}],
     'checks': checks, 'not_applicable': na,
     'notes': 'fix: commits in /repo for the genuine defects found (see known_findings.json). Exit codes: 0 held, 1 VIOLATION (replayed natively), 2 INCONCLUSIVE.'}
json.dump(m, open(V + '/MANIFEST.json', 'w'), indent=1)
print('claimed', [c['property_id'] for c in checks], 'n/a', [x['property_id'] for x in na])
