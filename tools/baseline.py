#!/usr/bin/env python3
"""run the repository's stable baseline (guard off) in a private network namespace; exit 0 iff all 54 stable tests pass"""
import json, subprocess, sys, os
repo = sys.argv[1] if len(sys.argv) > 1 else '/repo'
BASE = json.load(open('/root/.vp/BASELINE.json'))['stable_pass']
cmd = "ip link set lo up; export GOFLAGS=-mod=mod GOPROXY=off GOSUMDB=off GOTOOLCHAIN=local; cd %s && go test -vet=off -count=1 -timeout 25m -json ./..." % repo
for attempt in range(3):
    p = subprocess.run(['unshare', '-n', 'bash', '-c', cmd], stdout=subprocess.PIPE, stderr=subprocess.STDOUT, text=True)
    passed, failed = set(), set()
    for line in p.stdout.splitlines():
        try:
            e = json.loads(line)
        except ValueError:
            continue
        if e.get('Test'):
            (passed if e.get('Action') == 'pass' else failed if e.get('Action') == 'fail' else set()).add(e['Package'] + '::' + e['Test'])
    missing = [t for t in BASE if t not in passed]
    print('attempt', attempt + 1, 'stable passed', len(BASE) - len(missing), '/', len(BASE), 'missing', missing[:5], 'other failures', sorted(failed - set(BASE))[:5])
    if not missing:
        sys.exit(0)
sys.exit(1)
