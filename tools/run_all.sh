#!/bin/bash
# run every claimed quick check on /repo as it is; print one status line per check
cd /verif
tier="${1:-quick}"
for id in $(python3 -c "import json; print(' '.join(c['property_id'] for c in json.load(open('MANIFEST.json'))['checks']))"); do
  s=$(date +%s)
  out=$(timeout 3600 ./check $id --tier $tier 2>&1); rc=$?
  echo "$id rc=$rc $(( $(date +%s) - s ))s :: $(echo "$out" | grep -E '^(OK|VIOLATION|INCONCLUSIVE|KNOWN)' | head -2 | tr '\n' ' ' | cut -c1-200)"
done
