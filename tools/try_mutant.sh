#!/bin/bash
# try_mutant.sh <patch.diff> <check id> [tier]  -- run a check against a scratch worktree of /repo with the patch applied (never touches /repo)
set -u
patch="$1"; id="$2"; tier="${3:-quick}"
wt=$(mktemp -d /tmp/mw_XXXXXX); rmdir "$wt"
git -C /repo worktree add --detach "$wt" HEAD -q || exit 3
git -C "$wt" apply "$patch" || { git -C /repo worktree remove --force "$wt"; exit 3; }
out=$(mktemp -d /tmp/mwout_XXXXXX)
VERIF_REPO="$wt" VERIF_EVIDENCE_DIR="$out" VERIF_REPLAY_DIR="$out" /verif/check "$id" --tier "$tier" > "$out/log" 2>&1
rc=$?
echo "== $(basename $(dirname $patch))/$(basename $patch) check=$id rc=$rc"
grep -E "^(VIOLATION|OK|KNOWN)" "$out/log" | head -3 | cut -c1-300
grep -A1 "^VIOLATION" "$out/log" | grep -v "^VIOLATION\|^--" | head -2 | cut -c1-300
[ $rc -eq 2 ] && grep "^INCONCLUSIVE" "$out/log" | head -3 | cut -c1-300
git -C /repo worktree remove --force "$wt"
rm -rf "$out"
exit $rc
