#!/usr/bin/env python3
"""Confirm a seeded change in a scratch worktree: demo fails with the patch, passes without, stable suite passes with the patch.
usage: confirm_mutant.py <outdir of agent> <letter> <seeded id>   -> writes /verif/seeded/<id>/{patch.diff,demo*,meta.json}"""
import fcntl, json, os, re, shutil, subprocess, sys, tempfile
out, k, sid = sys.argv[1], sys.argv[2], sys.argv[3]
ENV = dict(os.environ, GOFLAGS='-mod=mod', GOPROXY='off', GOSUMDB='off', GOTOOLCHAIN='local')
BASE = json.load(open('/root/.vp/BASELINE.json'))['stable_pass']
patch = os.path.join(out, 'patch%s.diff' % k)
meta = json.load(open(os.path.join(out, 'meta%s.json' % k)))
demos = [f for f in os.listdir(out) if f.startswith('demo%s' % k)]
assert demos, 'no demo'
demo = os.path.join(out, demos[0])
txt = open(demo).read() if os.path.isfile(demo) else open(os.path.join(demo, 'main.go')).read()
wt = tempfile.mkdtemp(prefix='confirm_', dir='/tmp')
os.rmdir(wt)
subprocess.run(['git', '-C', '/repo', 'worktree', 'add', '--detach', wt, 'HEAD', '-q'], check=True)
res = {'seeded_id': sid, 'property': meta.get('property'), 'agent_meta': meta}
try:
    # where does the demo go? header comment names a package directory
    m = re.search(r'(?:place[d]? (?:it )?in|directory|dir|package directory)[^\n]*?[`\s/]((?:prover(?:/keccak|/poseidon)?|server(?:/wrapped_http)?|poseidon_tree|logging)/?|\./?|repository root|root package)', txt[:3000], re.I)
    pkg = None
    for cand in ['prover/keccak', 'prover/poseidon', 'server/wrapped_http', 'server', 'poseidon_tree', 'prover', 'logging']:
        if re.search(r'^package\s+' + cand.split('/')[-1] + r'(_test)?\s*$', txt, re.M):
            pkg = cand
    if re.search(r'^package\s+main(_test)?\s*$', txt, re.M):
        pkg = '.' if os.path.isfile(demo) and demo.endswith('_test.go') else 'DEMOPROG'
    if pkg is None:
        mm = re.search(r'^package\s+(\w+?)(_test)?\s*$', txt, re.M)
        if mm and mm.group(1) != 'main':
            pkg = mm.group(1)          # demo lives in a directory of its own
            os.makedirs(os.path.join(wt, pkg), exist_ok=True)
    res['demo_pkg'] = pkg
    def put_demo():
        if pkg == 'DEMOPROG':
            d = os.path.join(wt, 'zz_demo_' + k)
            os.makedirs(d, exist_ok=True)
            if os.path.isdir(demo):
                for f in os.listdir(demo):
                    shutil.copy(os.path.join(demo, f), d)
            else:
                shutil.copy(demo, os.path.join(d, 'main.go'))
            return ['go', 'run', './zz_demo_' + k]
        os.makedirs(os.path.join(wt, pkg), exist_ok=True)
        shutil.copy(demo, os.path.join(wt, pkg, 'zz_' + os.path.basename(demo)))
        names = re.findall(r'^func (Test\w+)\(', txt, re.M)
        return ['go', 'test', '-vet=off', '-count=1', '-timeout', '20m', '-run', '^(' + '|'.join(names) + ')$', './' + pkg]
    def rm_demo():
        subprocess.run(['git', '-C', wt, 'clean', '-fdq'], check=True)
        subprocess.run(['git', '-C', wt, 'checkout', '--', 'go.mod', 'go.sum'], check=False)
    lock = open(os.environ.get('CONFIRM_LOCK', '/tmp/confirm_suite.lock'), 'w')
    def run(cmd, timeout=1800):
        p = subprocess.run(cmd, cwd=wt, env=ENV, stdout=subprocess.PIPE, stderr=subprocess.STDOUT, text=True, timeout=timeout)
        return p.returncode, p.stdout
    subprocess.run(['git', '-C', wt, 'apply', patch], check=True)
    cmd = put_demo()
    fcntl.flock(lock, fcntl.LOCK_EX)
    rc1, o1 = run(cmd)
    res['demo_with_patch'] = {'rc': rc1, 'tail': o1[-800:]}
    rm_demo()
    # stable suite with patch
    ok = False
    for attempt in range(3):
        rc, o = run(['go', 'test', '-vet=off', '-count=1', '-timeout', '25m', '-json', './...'])
        passed = set()
        for line in o.splitlines():
            try:
                e = json.loads(line)
            except ValueError:
                continue
            if e.get('Action') == 'pass' and e.get('Test'):
                passed.add(e['Package'] + '::' + e['Test'])
        missing = [t for t in BASE if t not in passed]
        res['suite_with_patch'] = {'attempt': attempt + 1, 'stable_missing': missing[:10], 'n_missing': len(missing)}
        if not missing:
            ok = True
            break
    subprocess.run(['git', '-C', wt, 'checkout', '--', '.'], check=True)
    cmd = put_demo()
    rc2, o2 = run(cmd)
    fcntl.flock(lock, fcntl.LOCK_UN)
    res['demo_without_patch'] = {'rc': rc2, 'tail': o2[-400:]}
    res['confirmed'] = bool(rc1 != 0 and rc2 == 0 and ok)
finally:
    subprocess.run(['git', '-C', '/repo', 'worktree', 'remove', '--force', wt], check=False)
dst = '/verif/seeded/' + sid
if res.get('confirmed'):
    os.makedirs(dst, exist_ok=True)
    shutil.copy(patch, dst + '/patch.diff')
    if os.path.isdir(demo):
        shutil.copytree(demo, dst + '/' + os.path.basename(demo), dirs_exist_ok=True)
    else:
        shutil.copy(demo, dst + '/' + os.path.basename(demo).replace('_test.go', '_test.go.txt'))
    json.dump({'property': meta.get('property'), 'summary': meta.get('summary'), 'needs': meta.get('needs'), 'demo_package_dir': res.get('demo_pkg'),
               'confirmed_by': {'demo_with_patch_rc': rc1, 'demo_without_patch_rc': rc2, 'stable_suite_with_patch': 'all 54 stable tests pass'},
               'ran': ['git apply patch.diff; ' + ' '.join(cmd) + ' -> fails', 'go test -vet=off -count=1 -json ./... -> 54/54 stable pass', 'git checkout; demo -> passes']},
              open(dst + '/meta.json', 'w'), indent=1)
print(json.dumps({k2: v for k2, v in res.items() if k2 != 'agent_meta'}, indent=1)[:3000])
